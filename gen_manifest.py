#!/usr/bin/env python3
"""Regenerate MANIFEST.json from verif_table.py (+ not_applicable.json, hooks.json)."""
import json, os
ROOT = os.path.dirname(os.path.abspath(__file__))
import sys; sys.path.insert(0, ROOT)
import verif_table as T

hooks = json.load(open(os.path.join(ROOT, "hooks.json")))
na = json.load(open(os.path.join(ROOT, "not_applicable.json")))
props = [json.loads(l)["id"] for l in open(os.path.join(ROOT, "properties.jsonl"))]
checks = []
for pid in props:
    if pid not in T.CHECKS:
        continue
    c = T.CHECKS[pid]
    checks.append({
        "property_id": pid,
        "quick_cmd": "./check %s --tier quick" % pid,
        "thorough_cmd": "./check %s --tier thorough" % pid,
        "evidence_file": "/verif/evidence/%s.json" % pid,
        "replay_cmd_template": "./check %s --replay {path}" % pid,
        "engine": "check",
        "level_claimed": {"category": c["level"], "text": c["text"], "design_ref": c["design_ref"]},
        "level_note": c["note"],
        "technique": c["technique"],
    })
claimed = {c["property_id"] for c in checks}
na = [x for x in na if x["property_id"] not in claimed]
for pid in props:
    if pid not in claimed and pid not in {x["property_id"] for x in na}:
        na.append({"property_id": pid, "reason": "no check registered yet (harness under construction)"})
m = {
    "version": 1,
    "setup_cmd": "./check --build-all",
    "hooks": hooks,
    "engines": [{"name": "check", "path": "/verif/check",
                 "serves_properties": sorted(claimed),
                 "kind_free_text": "python driver over Rust harness binaries (/verif/harness/*): seeded workloads against the real crates, runtime oracles, Miri / valgrind stages"}],
    "checks": checks,
    "not_applicable": na,
    "notes": "Runtime monitoring and sanitizers only; see DESIGN.md. Known findings: known_findings.json.",
}
json.dump(m, open(os.path.join(ROOT, "MANIFEST.json"), "w"), indent=1)
print("MANIFEST.json: %d checks, %d not_applicable" % (len(checks), len(na)))
