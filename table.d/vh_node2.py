# vh-node2: ephemeral streams over a harness-owned gossip manager actor (hooks H3/H4), sync metrics
# aggregation (H3). The crate also serves `vh-node2 C02` (Node API extensions part of C02) and
# `vh-node2 C07` (persisted-cursor part of C07); those stages are merged into the C02 / C07 entries
# by the lead and are deliberately not registered here.

add("C16", "exploration",
    "runtime oracle over executions of the real EphemeralStreamPublisher / EphemeralStreamSubscription "
    "wired to harness-owned gossip channels: exhaustive single-byte tampering + forged / re-signed / "
    "type-confused wire messages judged on yielded content against the honestly-signed set and an "
    "independent re-verification of the signed tuple; publish sequences under a fault-injected wall "
    "clock (held, stepped forward, stepped back) checked for strictly increasing (timestamp, logical) "
    "and byte-distinct messages",
    "Every single-byte flip (3 masks) and every truncation of 120-byte honest messages, field "
    "substitutions, re-signing by another key under the original author, messages validly signed "
    "over an unsupported version and CBOR type/structure confusion are injected into the channel the "
    "real subscription reads; nothing with altered content, an invalid signature or an unsupported "
    "version may be yielded. The real publisher then publishes sequences of 50..500 messages while "
    "the wall clock is held, moved forward and stepped back; every published byte string is "
    "re-verified, compared with its predecessor and looped back through the subscription. "
    "Exploration: it speaks for the tamperings and clock schedules it produced.",
    "Wall clock is p2panda-core's own test_utils mock clock (thread-local mock_instant), which "
    "Timestamp::now() reads in this build; the production SystemTime path is the same arithmetic "
    "behind a cfg switch. Byte-level malleability that decodes to the same content (trailing bytes, "
    "byte strings given as integer arrays, indefinite-length array) is recorded, not judged. The "
    "Ed25519 primitive itself is shared with the code under test; the signed tuple is re-assembled "
    "by an independent hand-written CBOR encoder.",
    quick=[st("vh-node2")],
    thorough=[st("vh-node2", timeout=3600)],
    design_ref="DESIGN.md §1 C16",
    assumptions=["A message honestly signed over a version other than 1 must not be yielded: the "
                 "subscription item has no version accessor, so it would be presented as version 1"])

add("C17", "exploration",
    "runtime oracle over executions of the real EphemeralStreamSubscription under a faithful executor "
    "simulation with a counting waker (state-based stall criterion) plus an end-to-end run on a "
    "paused-time tokio runtime (timeout of one virtual hour)",
    "Seeded sequences of 1..200 valid, undecodable, truncated, badly signed, wrong-version and "
    "re-signed messages and bursts that overflow the 128-slot broadcast (Lagged), followed by one "
    "valid message, are fed to the channel behind the real subscription, queued up front or "
    "interleaved with polls. The task is polled only when an executor would poll it (new, after an "
    "item, after a wake). Stall = nothing left to trigger a poll, final message not yielded, unread "
    "messages in the channel. The same workload then runs on a real executor with virtual time. "
    "Exploration over the generated interleavings.",
    "Channels are the probe actor's (same types and capacity as the real gossip manager's); the "
    "harness' model of the tokio broadcast receiver position is cross-checked against "
    "Sender::len() at every poll (a mismatch is inconclusive, never a verdict). An elapsed virtual "
    "timeout is only reported together with unread messages in the channel.",
    quick=[st("vh-node2")],
    thorough=[st("vh-node2", timeout=3600)],
    design_ref="DESIGN.md §1 C17")

add("C40", "exploration",
    "runtime oracle over executions of the real sync-metrics Aggregator: per-session byte ledger "
    "bounds on the topic totals and started-minus-ended session count after every event of seeded "
    "lifecycle-conforming interleavings",
    "Random interleavings of 1..6 sessions (SessionStarted, SyncStarted, OperationReceived*, "
    "SyncFinished, optional live phase, SessionFinished, or Failed at any point) with growing "
    "per-session byte counters go through Aggregator::process; after every event the totals must lie "
    "between what finished phases reported and what the sessions can have transferred at most, and "
    "equal the exact sum once all sessions ended cleanly; running_sessions() must equal started "
    "minus ended. Exploration over the generated histories.",
    "For failed sessions no event carries the transferred amount, so they only bound the totals "
    "from above by the last metrics seen. Interleavings in which a session's SessionStarted is "
    "missing (the sync layer never emits it today) are fed too, but there the running count is "
    "recorded and not judged.",
    quick=[st("vh-node2")],
    thorough=[st("vh-node2", timeout=3600)],
    design_ref="DESIGN.md §1 C40")
