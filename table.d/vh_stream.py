# vh-stream: store transactions (C10), causal orderer (C11, C12), processor streams (C13).

add("C10", "fault_enumeration",
    "abort at every Pending + final-state serializability ledger: concurrent writer tasks run "
    "tagged read-modify-write transactions through the store's real begin/tx/commit/rollback API "
    "and the tx! macro on a multi-thread runtime; each ends by commit, rollback, failing statement "
    "+ `?`, explicit permit drop, cancellation of its hand-polled future after the j-th Pending "
    "(enumerated j = 1, 2, ... per round) or task abort; in every round a cooperating clone of the "
    "store (own task) is inside a multi-statement, yielding store.tx(..) closure of the transaction "
    "while its owner ends it by each of these kinds; wedge decided on runtime state",
    "Every round the committed tables are read back and compared with 'exactly the committed "
    "transactions applied one after another': counter == number of transactions present, the "
    "counter values they read are a permutation of 0..n, commit-before-begin pairs are ordered, "
    "aborted transactions left no row and no increment, present ones are complete, and a fresh "
    "begin() succeeds afterwards. A transaction whose commit() was in flight when it was dropped "
    "may land or vanish, but only as a whole. Fault enumeration over the await points the runs "
    "reached (histogram in the evidence); says nothing about schedules it did not produce.",
    "In-memory (1 connection) and file-backed (pool of 4) SQLite. 'Never prevents later "
    "transactions from starting' is judged on state (all remaining tasks inside begin(), no other "
    "live runtime task, no pool connection checked out, event counter still), sampled over 1 s; a "
    "watchdog expiry without that state is inconclusive. Unexpected statement errors are recorded, "
    "not judged: on a pooled file database the permit of a transaction dropped inside commit() is "
    "released while SQLite is still committing on the other connection, so the next transactions "
    "fail with SQLITE_BUSY for some milliseconds (the closing fresh transaction is retried; only "
    "200 consecutive failures are reported). File databases live on tmpfs when available. A round "
    "whose in-memory database lost its schema (cancelled pool acquire) is reported with its own "
    "signature and its ledger is skipped.",
    quick=[st("vh-stream")],
    thorough=[st("vh-stream")],
    design_ref="DESIGN.md §1 C10",
    assumptions=["A transaction dropped while its commit() future is in flight is indeterminate (either outcome, all-or-nothing)"])

add("C11", "exploration",
    "online dependency monitor + least-fixpoint reference + set-vs-list differential over the real "
    "Orderer/SqliteStore: seeded DAGs with missing dependencies, repeated dependency entries and "
    "duplicate deliveries, seeded delivery orders with next() interleaved, all delivery "
    "permutations of small graphs",
    "Every item that comes out of next() is checked against the set of its dependencies released "
    "so far; at quiescence the released set must equal the least fixpoint computed by a 15-line "
    "reference; the same script is re-run with every dependency list reduced to a set and must "
    "release the same items. Exploration over the graphs/orders generated.",
    "Items released more than once after a duplicate delivery are documented behaviour "
    "(idempotent re-queue) and only recorded. Release *order* among independent items is not "
    "judged. CausalOrderer is crate-private, so it is exercised through the public Orderer "
    "processor (direct process()/next() calls, no cancellation — that is C12).",
    quick=[st("vh-stream")],
    thorough=[st("vh-stream")],
    design_ref="DESIGN.md §1 C11")

add("C12", "fault_enumeration",
    "cancel `Orderer::next` at every Pending + conservation oracle: hand-polled next() future "
    "(real waker) dropped after its j-th Pending for every j reached, then drained; plus the real "
    "Buffer/.layer() path with inputs arriving while next is in flight; a delegating store "
    "attributes each cancellation to the store call in flight",
    "For each graph and targeted call, j runs from 1 until the call completes uncancelled, so "
    "every await point that execution reaches is tried as a cancellation point; conservation: "
    "everything the orderer released (mark_ready -> true in a committed transaction, seen at the "
    "store boundary) must be returned by some next(). A loss is "
    "attributed structurally (id already handed out by take_next_ready vs. any other shape). "
    "Three runtime flavours (current-thread/in-memory, multi-thread/in-memory, multi-thread/file "
    "pool of 4).",
    "'Released' is what the orderer itself put into the ready queue, so C11's defects cannot "
    "interfere (the shortfall against the reference fixpoint is recorded only). Items returned "
    "twice are not C12 and only recorded; an error returned by next() is not a loss (the drain "
    "backs off and continues). Part B quiescence is decided on what the store saw (every input "
    "committed by process, current next got 'none' and parked). A `next` that is Pending with no "
    "store call in flight, without the store having answered 'none' and without any wake-up, is "
    "parked on the orderer's in-memory state: the ready queue is then read directly and a non-empty "
    "queue is a violation (decided on state). Every hand-polled call and every case has a 30 s "
    "wall-clock bound whose firing is inconclusive.",
    quick=[st("vh-stream")],
    thorough=[st("vh-stream")],
    design_ref="DESIGN.md §1 C12")

add("C13", "exploration",
    "unique-id exactly-once/order checker over paused-time schedules: harness FIFO processors with "
    "virtual per-item/per-call delays behind the real ProcessorStream/Buffer/ComposedProcessors/"
    "PipelineBuilder; every item is a non-clonable object whose Drop reports where the code under "
    "test destroyed it",
    "Seeded schedules (arrival gaps, process/next delays, consumer gaps and consumer-side "
    "cancellation) over `.layer()` chains, PipelineBuilder chains (nested ComposedProcessors), "
    "mixed shapes and pipelines driven by hand with timeout(next()). Output multiset must equal "
    "the chain's expected outputs and the yielded sequence must be a subsequence of the expected "
    "order; a destroyed item is attributed to the layer boundary where it was last seen.",
    "Virtual time (tokio paused clock): quiescence = the runtime is idle for an hour of virtual "
    "time. tokio::select! branch order is not seedable on stable tokio, so a replay re-runs the "
    "same plan but may take a different tie-break; the witness carries the full event trace.",
    quick=[st("vh-stream")],
    thorough=[st("vh-stream")],
    design_ref="DESIGN.md §1 C13")
