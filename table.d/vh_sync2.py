# vh-sync2: p2panda-sync session lifecycle (C22), live-mode forwarding through the manager (C23),
# topic handshake (C25). Real SqliteStore underneath C22/C23; C25 needs no runtime.

add("C22", "fault_enumeration",
    "online regular-language monitor over every event of the session's broadcast channel "
    "(subscribed before run) while the real TopicLogSync::run talks to a scripted remote; "
    "enumeration of every truncation, every substitution by each other message kind, a decode "
    "error and a duplication at every transcript position, and a sink failing at every n-th "
    "poll_ready/start_send/poll_flush/poll_close (one-off and broken connection), with and "
    "without live mode; a finished stream that is polled 50 000 more times is a busy loop "
    "(state criterion, the stream then unwinds the session)",
    "For each session shape (operations on either side, live mode, who closes) the clean "
    "transcript and every single fault of the classes above are run against the real session on "
    "a real SqliteStore (quick: ~40 shapes / ~4 000 sessions; thorough: ~30 000 sessions, random "
    "shapes and double faults). The monitor enforces SessionStarted SyncStarted "
    "OperationReceived* SyncFinished (LiveModeStarted OperationReceived*)? (SessionFinished|"
    "Failed), Failed from any state, exactly one terminal event, nothing after it, and that a "
    "run which returned (or spins on a closed stream) emitted a terminal event. Speaks for the "
    "fault positions it enumerated on the shapes it generated.",
    "Store failures are not injected (not in the quantifier). The missing SessionStarted is "
    "reported with its own signature on every trace and the rest of the grammar is enforced as "
    "if it had been there. Terminal kind vs. Ok/Err of run is recorded, not judged.",
    quick=[st("vh-sync2")],
    thorough=[st("vh-sync2", timeout=40 * 60)],
    design_ref="DESIGN.md §1 C22")

add("C23", "exploration",
    "per-operation forwarding ledger over a real TopicSyncManager with 2-5 live sessions on one "
    "topic, 1-2 on another and an optional non-live session, every remote end and the manager "
    "stream consumer played by the harness; quiescence by paused-clock idleness (current-thread "
    "flows) or by completeness counters plus a FIFO marker flush (multi-thread flows)",
    "Seeded flows of 20-200 operations injected by remotes or published through session_handle, "
    "re-injected from the same or other sessions with no gap, a few yields or quiescence in "
    "between, a remote leaving mid-flow, sessions created before and after subscribe(), sessions "
    "joining late (after traffic has flowed) with old operations re-arriving through a late "
    "joiner, and the same operation arriving on both topics. At "
    "quiescence every operation is judged: each session sent it at most once, never both "
    "accepted it from its remote and sent it to that remote, sessions of the other topic never "
    "sent it (unless it arrived there too), whenever a session accepted it every other session "
    "that was a live member of the topic at that moment sent it exactly once or accepted it "
    "itself, and the manager stream yielded it exactly once (at most once in any case); a tap on "
    "each session's live channel checks that the manager never hands an operation back to the "
    "session that reported it. A second workload runs single sessions with windows of 1-8 "
    "operations so that the window really evicts: an arrival inside the window must produce "
    "nothing. quick 600 flows + 150 window cases, thorough 20 000 + 5 000. Exploration: speaks "
    "for the schedules it produced.",
    "The manager always builds sessions with the default de-duplication window (1024); flows "
    "stay below 256 distinct operations, so every judged duplicate is inside the window. In "
    "multi-thread flows a missing forward is indistinguishable from a slow one: the watchdog "
    "yields inconclusive, only the paused-clock flows decide liveness.",
    quick=[st("vh-sync2")],
    thorough=[st("vh-sync2", timeout=45 * 60)],
    design_ref="DESIGN.md §1 C23")

add("C25", "fault_enumeration",
    "both handshake roles driven by manual polling against (a) a scripted peer and (b) each "
    "other over a harness-owned CBOR-framed connection; every truncation, kind substitution, "
    "decode error and duplication at every position of the 3-message transcript, every n-th "
    "failing sink call, closed event channel; Pending with no outstanding wake-up = hang",
    "For tens of thousands of generated topics (rich application struct, p2panda Topic, u8) the "
    "clean run must complete on both sides with the acceptor returning exactly the initiator's "
    "topic; a role that consumed a deviation or got a sink error must return Err, an acceptor "
    "returning Ok must return the initiator's topic, and no role may stay Pending once nothing "
    "can wake it. The fault space per topic (76 cases) is enumerated completely; topics are "
    "sampled.",
    "A role that never reads the faulty frame (trailing duplicate) may return Ok. Error variants "
    "and handshake events are recorded, not judged.",
    quick=[st("vh-sync2")],
    thorough=[st("vh-sync2", timeout=20 * 60)],
    design_ref="DESIGN.md §1 C25")
