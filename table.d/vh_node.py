# vh-node: Node API, processing pipeline, crash children.

add("C04", "exploration",
    "conservation oracle on raw database dumps before/after every operation pushed through the real "
    "processing Pipeline and a real Node (import / publish / prune / replay): deletions only by "
    "authentic accepted prune operations, scoped to their own log",
    "Hundreds to thousands of adversarial operations (forged signatures claiming a victim at every "
    "interesting sequence position, transplanted signatures, third-author prunes, gaps) run through "
    "the real pipeline thread and, in a second stage, through a real Node's import/publish/prune and a "
    "replay from Start; after each one the full operations table is diffed. Exploration over generated "
    "adversaries: speaks for the operation shapes it produced.",
    "Authenticity labels come from the generator (which key signed the final header), not from the code "
    "under test; dumps are raw SQL decoded from the stored header bytes. Node stage spawns real nodes "
    "(network actors offline).",
    quick=[st("vh-node", args=["level=pipeline"]), st("vh-node", args=["level=node"])],
    # every Pipeline leaves its thread behind (see DESIGN 5.3, recorded): long runs are sharded
    thorough=[st("vh-node", args=["level=pipeline", "shard=%d/12" % i]) for i in range(12)] + [st("vh-node", args=["level=node"])],
    design_ref="DESIGN.md §1 C04")

add("C14", "exploration",
    "call/return history of Pipeline::process under multi-thread stress with injected pauses at the "
    "check-to-wait window (hook); state-based lost-submission criterion (later sentinel returned, "
    "tracker empty, call still pending)",
    "Rounds of 1-16 concurrent submitters (2-8 runtime workers) against the pipeline's own thread, "
    "with concurrent submissions of the same operation and forged ones, pauses injected between the "
    "result check and the wait registration with p in {0, 0.1, 1}. Every call must return the event "
    "of its own operation with a final status; a call is declared lost only on state, never on a "
    "deadline. Exploration over schedules: the number of distinct return orders observed is reported.",
    "Uses hooks H1/H2 (schedule point in Task::ready, cfg re-export of Pipeline/TaskTracker). A "
    "watchdog without the lost-submission state is inconclusive.",
    quick=[st("vh-node")],
    thorough=[st("vh-node", args=["shard=%d/8" % i]) for i in range(8)],
    design_ref="DESIGN.md §1 C14")

add("C15", "fault_enumeration",
    "crash injection in child processes on a file database: abort() after every API step of generated "
    "histories + SIGKILL at random offsets; after restart the delivered replay is compared with the "
    "set computed from the database as found",
    "Every step of each generated publish/prune/import/receive/ack history is used once as a crash "
    "point (process abort), plus random-offset SIGKILLs that land inside transactions; the oracle is "
    "computed from the crashed database itself (cursor + stored operations), so it does not depend on "
    "what the crashed process believed. Fault enumeration over API-step boundaries; crash points "
    "inside a step are sampled, not enumerated.",
    "Crash = process death (no power-loss / torn-page model: SQLite's own durability is trusted). "
    "Bodies are decodable strings so that 'delivered' is unambiguously a Processed event. "
    "ReplayStarted.total_operations is recorded, not judged.",
    quick=[st("vh-node", args=["threads=8"])],
    thorough=[st("vh-node", args=["threads=12"])],
    design_ref="DESIGN.md §1 C15")
