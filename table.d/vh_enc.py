# vh-enc: p2panda-encryption properties (features test_utils = data_scheme + message_scheme;
# p2panda-core without test_utils, so the wall clock is the real SystemTime).

add("C34", "exploration",
    "runtime oracle over executions of DecryptionRatchet::secret_for_decryption: sender chain "
    "(RatchetSecret::ratchet_forward on the same secret) + a window model (head, set of still "
    "available generations) written from the statement; complete enumeration of short request "
    "sequences x window pairs, seeded random long sessions; Miri underneath",
    "Every request sequence of length <= 5 (quick) / <= 6 (thorough) over generations 0..8 - i.e. every "
    "order, loss and duplication pattern of that size - for each of the 25 window pairs (future, "
    "out-of-order) in {0,1,2,5,100}^2, and 300 / 20 000 random sessions of ~500 generations with loss, "
    "duplication, bounded displacement and probes at the window edges go through the real function; each "
    "result must be the sender's key material or a rejection, as the windows dictate, and no generation "
    "is handed out twice. Exploration: speaks for the sequences it saw; the enumerated sub-space is complete.",
    "Window configuration is fixed per ratchet (as message_scheme::group uses it); generations near "
    "u32::MAX are left out (only reachable after ~4e9 ratchet steps; would merely exercise the debug "
    "overflow check). The error variant is recorded, only Ok/Err and the key are judged. How many past "
    "keys the persisted state retains beyond the window is recorded, not judged. " + MIRI_NOTE,
    quick=[st("vh-enc")],
    thorough=[st("vh-enc"), st("vh-enc", mode="miri", timeout=2 * 3600)],
    design_ref="DESIGN.md §1 C34")

add("C35", "exploration",
    "runtime oracle over executions of EncryptionGroup (data scheme) driven by a harness network over "
    "the crate's test_utils peers: per-receiver random causal delivery to members, not-yet members and "
    "removed members; secret agreement / cross-decryption / exclusion ledger at every quiescence point",
    "60 / 5 000 random histories (create, add, re-add, remove, update, send) over 3-8 peers: 40 % sequential, "
    "40 % with concurrent update/remove/send but every add causally ordered with every group change, 20 % "
    "with unrestricted concurrency. At each quiescence point: every "
    "current member holds the maximum-(timestamp,id) secret of the group, data encrypted by any current "
    "member decrypts at every other one, and no removed member holds a secret whose generation causally "
    "follows its removal. Exploration over the histories it generated.",
    "Uses the crate's set-based test DGM and dependency orderer; concurrent operations are restricted to "
    "non-conflicting targets so that membership itself is unambiguous. A re-added member is a member again "
    "(its exclusion ledger restarts). Membership views, receive errors and in-history application "
    "messages are recorded, not judged. Findings in histories that contain an add concurrent with another "
    "group change carry the signature suffix ':after-add-concurrent-with-group-change' (the data scheme "
    "has no reconciliation for that case: known findings); the same judgements without the suffix - "
    "sequential histories and concurrency among established members - are expected to hold.",
    quick=[st("vh-enc")],
    thorough=[st("vh-enc")],
    design_ref="DESIGN.md §1 C35")

add("C36", "exploration",
    "runtime oracle over executions of SecretBundle insert/remove/extend/from_secrets/CBOR round-trip: "
    "latest == max by (timestamp, id) of the current content for every insertion order; generate() "
    "against the real wall clock with the bundle's latest at / ahead of now; Miri underneath",
    "150 / 5 000 secret sets of 2-6 secrets with colliding timestamps in all n! insertion orders (plus "
    "from_secrets, extend both ways, CBOR round-trip, decode of a hand-built encoding listing the secrets in that order followed by generate, removal in that order), 400 / 30 000 random op "
    "sequences, and 2 000 / 200 000 generate+insert chains with the latest secret in the past, at now, 1 s, "
    "10 years, up to 2^62 s ahead and at u64::MAX-1. Exploration; all orders of each generated set are covered.",
    "The same secret bytes under two timestamps (same id) make the bundle's *content* order-dependent; the "
    "oracle then applies to whatever the bundle holds. latest at u64::MAX (no strictly later u64 exists) is "
    "recorded, not judged. " + MIRI_NOTE,
    quick=[st("vh-enc")],
    thorough=[st("vh-enc"), st("vh-enc", mode="miri", timeout=2 * 3600)],
    design_ref="DESIGN.md §1 C36")

add("C37", "exploration",
    "runtime oracle over executions of TwoParty send/receive (one-time and long-term pre-keys): the "
    "repo's 2SM fuzz workload (random bidirectional interleavings, FIFO per direction) extended with "
    "replays on clones of the receiver state; plaintext equality + replay rejection",
    "300 / 30 000 sessions of up to 96 random actions plus a drain; every in-order message must decrypt to "
    "its plaintext; every already processed message is re-processed (right after, at random later moments, "
    "and once more at the end) and must be rejected. Exploration over generated interleavings.",
    "Replay rejection is judged for the one-time variant (all messages) and for every HPKE round of both "
    "variants; a replay of the first X3DH message under long-term pre-keys decrypts again by documented "
    "design and is only counted.",
    quick=[st("vh-enc")],
    thorough=[st("vh-enc")],
    design_ref="DESIGN.md §1 C37")

add("C38", "exploration",
    "runtime oracle over executions of KeyRegistry add_*_bundle / key_bundle: validity-at-decision "
    "oracle (lifetime from construction, signature via the crate's XEdDSA primitive and by construction) "
    "with real time passing while bundles are stored; clock_gettime LD_PRELOAD shim in the thorough tier",
    "400 / 20 000 registries offered bundles with valid / expired / not-yet-valid / boundary / inverted "
    "lifetimes and good / foreign / misplaced / bit-flipped signatures or replaced identity keys; every add "
    "decision and every returned bundle is judged. 48 / 500 registries store bundles valid for ~2 s, the "
    "harness really waits ~3 s, then queries. Thorough additionally re-executes itself under a clang-built "
    "clock shim and moves the wall clock across 10^4 stored-expiry cases. Exploration.",
    "Boundary seconds (now == not_before / not_after) are never judged: the statement does not fix "
    "inclusiveness. Rejection of a valid bundle and the registry's assert_eq! panic on a differing identity "
    "key for a known member are recorded, not judged. If clang or LD_PRELOAD is unavailable the shim part "
    "is skipped and noted; the real-wait part decides on its own.",
    quick=[st("vh-enc")],
    thorough=[st("vh-enc")],
    design_ref="DESIGN.md §1 C38")
