# vh-net: p2panda-net / p2panda-discovery properties (codec, address book, backoff, gossip guard, PSI).
# The crate also serves `vh-net C18` (self-published transport records) and `vh-net C21` (codec/duplex
# variant of the log-sync deadlock check); those stages are merged into C18 / C21 by their owners.

add("C26", "exploration",
    "runtime oracle over executions of the real Codec (Encoder/Decoder, FramedRead over tokio "
    "duplex, into_codec_sink/into_codec_stream): round trip under enumerated and random chunkings, "
    "independent statement of the wire format, size-boundary probes on both sides, garbage under "
    "catch_unwind",
    "Thousands of message sequences (raw vectors, LogSyncMessage, TopicLogSyncMessage, "
    "PsiHashMessage<NodeId, NodeInfo>) are encoded by the real encoder and fed to a real FramedRead "
    "in chunks: every split point and one-byte feeds for streams up to 64 bytes, random cuts and "
    "one-byte feeds for longer ones, plus the crate's sink/stream helpers over pipes of 1..1024 "
    "bytes; decoded messages must equal the encoded ones in order. Frames of max-1, max and max+1 "
    "bytes are tried against max_frame_len on the encoder and the decoder; random bytes, odd length "
    "prefixes, corrupted and truncated streams must not panic. Exploration: speaks for the "
    "sequences and chunkings it produced.",
    "A frame of exactly max_frame_len bytes is taken to be allowed ('maximum'). Decode errors on "
    "garbage are fine; what the decoder does after an error is not judged.",
    quick=[st("vh-net")],
    thorough=[st("vh-net")],
    design_ref="DESIGN.md §1 C26",
    assumptions=["frame length == max_frame_len is accepted (only larger frames are rejected)"])

add("C27", "exploration",
    "runtime oracle (strict last-write-wins register over authentic records, written from the "
    "statement) over executions of NodeInfo::update_transports and of AddressBook::"
    "insert_transport_info (real actor + SQLite) for enumerated and random arrival orders",
    "Per set: 3..7 authentic records (signed or trusted-and-matching) with distinct hybrid "
    "timestamps that share wall parts, optionally one authentic record re-using a timestamp, and "
    "1..3 forged / foreign / tampered / mismatched records that are mostly newer than everything "
    "authentic. All permutations when the set has at most 6 records, otherwise ascending, descending "
    "and random orders. After every delivery the stored transports, the Ok/Err answer and is_newer "
    "are compared with the reference; rejected records must leave the entry unchanged. A sample of "
    "the orders goes through a real AddressBook and is read back with node_info().",
    "insert_node_info is the documented local overwrite and is only required to reject forged "
    "records. A signed record whose address names another node is authentic by the statement and is "
    "not generated.",
    quick=[st("vh-net")],
    thorough=[st("vh-net")],
    design_ref="DESIGN.md §1 C27")

add("C28", "exploration",
    "runtime invariant initial <= value <= max observed through the cfg hook Backoff::verif_value "
    "after every increment()/reset() over seeded ChaCha20 streams and configs; reset checked against "
    "real elapsed time",
    "10^4 (quick) .. 5x10^6 (thorough) sequences of 200 calls over the default config, tiny steps, "
    "initial == max, fast reset windows and random configs; the value is read after every call. A "
    "second stage builds backoffs with reset windows of 5..20 ms, sleeps a real 25 ms (a lower bound "
    "on elapsed time of a monotone clock) and requires the next increment() to yield the initial "
    "value.",
    "Needs --cfg p2panda_p2panda_verif (hook H5: Config::verif_new, Backoff::verif_value). Configs "
    "with an empty random range (min == max) panic inside rand; that is recorded, not judged.",
    quick=[st("vh-net")],
    thorough=[st("vh-net")],
    design_ref="DESIGN.md §1 C28")

add("C29", "exploration",
    "merged-log checker over executions of the real Gossip::stream / GossipHandle / "
    "GossipSubscription / TopicDropGuard against a harness-owned probe actor (hook H4), "
    "multi-thread runtime, seeded scripts, pauses injected at the two schedule points of H1",
    "Each round runs 2..8 tasks doing stream()/subscribe()/clone/drop on 1..2 fresh topics "
    "(concurrent stream() on a fresh topic, last handle dropped while others call stream(), churn, "
    "random scripts) while the probe logs Subscribe/Unsubscribe in one total order with the "
    "harness's call/return events. Checked: Subscribe and Unsubscribe alternate per topic; no "
    "object is alive when an Unsubscribe is handled; at quiescence live handles publish into the "
    "subscribed generation and live subscriptions receive from it; after the last drop no "
    "generation stays subscribed. Reports distinct observed interleavings, not all interleavings.",
    "Needs --cfg p2panda_p2panda_verif (H1 schedule points, H4 Gossip::verif_from_actor). The probe "
    "mirrors the real manager only as far as the API can tell (current-session map, channel closed "
    "on Unsubscribe).",
    quick=[st("vh-net")],
    thorough=[st("vh-net")],
    design_ref="DESIGN.md §1 C29")

add("C30", "exploration",
    "runtime oracle over executions of both roles of PsiHashDiscoveryProtocol over recording "
    "channels: set-intersection reference, raw-topic scan of every serialised message (postcard and "
    "CBOR), restricted-sharing check against the generated address books",
    "Per run two topic sets of 0..40 topics with overlap 0..100 % and two SQLite address books of "
    "0..32 nodes with topics drawn from both sets and unrelated ones. Both results must equal the "
    "intersection; no 32-byte window of any message equals a raw topic known to the run; with "
    "share_nodes_with_common_topics every node id in a Nodes message is the sender itself or a node "
    "that has a common topic in the sender's book.",
    "Raw-topic scan looks for verbatim 32-byte topics only (the statement's 'raw topic'); it says "
    "nothing about what salted hashes reveal to an adversary who guesses topics.",
    quick=[st("vh-net")],
    thorough=[st("vh-net")],
    design_ref="DESIGN.md §1 C30")
