# vh-core: pure p2panda-core properties (also the Miri target).

add("C18", "exploration",
    "runtime oracle `t.increment() > t` over executions under a fault-injected wall clock (repo's "
    "mock clock set earlier/equal/later); grid + seeded random + increment chains; transport-record "
    "acceptance under the same clocks; Miri underneath",
    "Every class of (input wall time, clock reading, logical counter) on a 9x9x4 grid, 10^5..10^6 "
    "random pairs and chains of successive increments while the clock is held, moved forward and "
    "stepped back go through the real HybridTimestamp::increment; a second stage publishes "
    "successive self-signed transport records through the real NodeInfo::update_transports. "
    "Exploration over clock readings; says nothing about readings it did not produce.",
    "Wall clock is the crate's own test_utils mock (mock_instant thread-local); logical counters "
    "near u64::MAX are left out (only reachable after 2^64 increments within one microsecond). "
    + MIRI_NOTE,
    quick=[st("vh-core")],
    thorough=[st("vh-core"), st("vh-core", mode="miri", timeout=3 * 3600)],
    design_ref="DESIGN.md §1 C18")
