# Quick-tier depth: measured on an idle box most quick checks finish in 1-15 s; scale the case counts
# of the cheap ones so that every quick check spends roughly 10-60 s (harness binaries honour --scale).
_QUICK_SCALE = {
    "C03": 2, "C05": 2, "C08": 3, "C09": 3, "C10": 2, "C11": 4, "C12": 3, "C13": 3,
    "C16": 3, "C17": 3, "C19": 2, "C20": 2, "C21": 2, "C22": 3, "C23": 3, "C25": 3, "C26": 3,
    "C28": 5, "C30": 4, "C31": 2, "C32": 2, "C33": 4, "C35": 8, "C36": 4, "C37": 6, "C39": 2, "C40": 10,
}
for _pid, _k in _QUICK_SCALE.items():
    if _pid in CHECKS:
        for _st in CHECKS[_pid]["stages"]["quick"]:
            if _st.get("mode", "native") == "native" and "scale" not in _st:
                _st["scale"] = _k
