# vh-auth: p2panda-auth properties (features test_utils + serde; hook H6
# `p2panda_auth::group::verif::{add, create, demote, merge, promote, remove}`). Pure Rust.

add("C31", "exploration",
    "runtime oracle over executions of GroupCrdt::process + members/root_members/groups: seeded "
    "concurrent group histories (generator adapted from the repo's fuzz target: partitions, nested "
    "groups, with and without totally ordered conditions) replayed on 6-12 fresh replicas in random "
    "causal orders, each queried 8 times; normalised answers compared across replicas and queries",
    "1 000 / 30 000 random histories (3-7 actors with their own replica, 2-4 rounds of random partitions, "
    "0-3 nested sub-groups, add / remove / promote / demote / self-remove valid in the author's view; every "
    "second history uses u8 access conditions) are fed to 6-12 fresh replicas each in a different random "
    "causal order; root_members, members and groups of every group are asked 8 times per replica and must "
    "be equal across replicas and across repeated queries; a replica refusing an operation its author "
    "accepted is reported too. Differences are classified (membership / level / conditions only; history "
    "without conditions / equal-counter tie with conditions / transitive queries only / other) so that only "
    "the known shapes are matched by known findings. Exploration over the histories and orders it generated.",
    "Histories are small (5-60 operations). With conditions the answers depend on per-instance "
    "HashSet/HashMap iteration order, so a replay of a witness reproduces the divergence with high "
    "probability, not deterministically; the harness repeats queries for that reason. Operation ids, "
    "heads, filters and the stored per-operation states are recorded, not judged. A transitive query "
    "whose recursion (members_inner: no visited set, depth cap 1000) is predicted from the direct "
    "memberships to need > 2e5 visits is not issued; the prediction is backed by one real probe per "
    "process (query on a helper thread, 2 s) and, when > 2^40 visits and the probe did not return, "
    "reported on state as 'query-does-not-return:nested-group-cycle' (never decided by a timeout alone).",
    quick=[st("vh-auth")],
    thorough=[st("vh-auth")],
    design_ref="DESIGN.md §1 C31")

add("C32", "exploration",
    "algebraic-law checker over executions of the real state::merge (hook H6): membership states "
    "built through the crate's serde feature, enumerated over a small domain (complete sub-spaces "
    "listed in the evidence) plus states derived by the real create/add/remove/promote/demote; "
    "commutativity, associativity, idempotence on normalised results; Miri underneath",
    "All states over member ids <= 2, member_counter 1..3, access_counter 0..2, 4 levels, conditions none or "
    "{None, Some(0), Some(1)}: single-member space complete for pairs and triples (with conditions: triples "
    "complete in the thorough tier), two-member space complete for pairs without conditions in the thorough "
    "tier, seeded samples (1.5e5-3e6 pairs, 6e4-1.5e6 triples) elsewhere, plus 4e4 / 1e6 tuples of states "
    "derived from a common ancestor by the real state functions. merge(a,b)==merge(b,a), "
    "merge(merge(a,b),c)==merge(a,merge(b,c)), merge(a,a)==a on (member_counter, access_counter, level, "
    "conditions) per member id. Violations are classified by the shape of the inputs (no conditions / "
    "equal counters with differing accesses carrying conditions / other).",
    "The enumerated domain contains states no history can produce (e.g. removed member with access_counter "
    "> 0); the laws are stated for all states. Conditions are a totally ordered u8 newtype. " + MIRI_NOTE,
    quick=[st("vh-auth")],
    thorough=[st("vh-auth"), st("vh-auth", mode="miri", timeout=2 * 3600)],
    design_ref="DESIGN.md §1 C32")

add("C33", "exploration",
    "runtime oracle over executions of GroupCrdt::process under hostile histories (30 % arbitrary "
    "actions by members, ex-members and strangers, some on stale dependencies): accepted => authorised "
    "on a prefix replica that processed exactly the operation's causal past; refused => replica "
    "unchanged; provenance of every reported member",
    "1 000 / 30 000 random histories from C31's generator in which 30 % of the steps are arbitrary "
    "create/add/remove/promote/demote operations on arbitrary targets by members, ex-members and strangers "
    "(30 % of them declared on earlier heads of the author's replica, a few re-using an operation id or "
    "naming an unknown group). Every process call on every replica is observed. For every accepted "
    "operation a fresh replica processes exactly its transitive dependencies; there root_members(group) "
    "must list the author as an individual with Manage level (or the operation removes its own author, who "
    "is listed), the target must be absent (add) / listed (remove, promote, demote), and a Create must not "
    "name a group that already exists there. Refused calls must leave answers, heads and the stored state "
    "unchanged; every member a replica reports must be reachable through Create/Add operations it accepted. "
    "Independent bookkeeping: when the causal past of an accepted operation is conflict-free (no two "
    "concurrent operations of one group share a target, target the other's author or create the group - "
    "then nothing can be filtered and operations on different targets commute; every 4th history is fully "
    "linear) the prefix replica's root_members of every group must equal the membership, level and "
    "conditions that the accepted create/add/remove/promote/demote operations themselves declare (~10^4 "
    "such comparisons per quick run). Managers regularly remove a member and re-add it with a different "
    "access, after which that member authors an add/remove regardless of its rights (~10^3 per quick run). "
    "A state-level stage runs 4e4 / 1e6 random sequences of the real create/add/remove/promote/demote (hook "
    "H6, biased to remove -> re-add with another level) against the same bookkeeping.",
    "The converse (authorised => accepted) is not judged. Panics are recorded and count only when the "
    "operation targets a group that exists at its dependencies (operations on unknown groups panic in "
    "apply_action: recorded, not judged). With conditions a prefix replica whose own view of the author "
    "flips between queries (C31 known finding) is counted as ambiguous, not judged. 'Refused => unchanged' "
    "is structurally guaranteed by the by-value API (the caller keeps its clone); it is checked anyway.",
    quick=[st("vh-auth")],
    thorough=[st("vh-auth")],
    design_ref="DESIGN.md §1 C33",
    assumptions=["A Create operation for a group that already exists at its declared dependencies is not a valid action",
                 "'Active manager' = listed by root_members as an individual with level Manage, whatever the conditions"])
