# vh-sync: the log-sync protocol of p2panda-sync (real LogSync state machines, real SQLite stores,
# monitored channels, sessions polled by hand) and its de-duplication buffer.

add("C19", "exploration",
    "runtime oracle over executions of two real LogSync sessions joined by monitored channels over "
    "two real SQLite stores: expected-set oracle computed from the model of what each replica "
    "holds (cross-checked against a store read-back), applied to the Operation messages on each "
    "sink and to the OperationReceived events; received operations then go through the real "
    "ingest_operation (+prune_entries) and the heights of both stores are compared",
    "Hundreds (quick) to tens of thousands (thorough) of seeded replica pairs — several authors and "
    "logs, overlapping prefixes, pruned prefixes starting at prune-flagged operations, deleted "
    "payloads, body-less operations, stored logs outside the shared set, shared logs nobody holds, "
    "empty sides — each run through a complete session; every delivered operation is compared "
    "with the set the statement demands (each once, per log ascending, body as stored, nothing "
    "else) and the heights after ingestion must agree. Exploration: speaks for the pairs it ran.",
    "The 'bounded model of the protocol state machine' in the quantifier is outside this technique "
    "family: only executions are examined. Both sessions are started with the same `logs` argument "
    "(the shared logs). A session pair that errors or stalls is not a completed session and is "
    "reported as inconclusive here (termination is C21's subject). PreSync totals are recorded, "
    "not judged. tokio::select! draws its branch order from a thread-local RNG, so a replay "
    "reproduces the inputs and the poll order but not necessarily the exact interleaving.",
    quick=[st("vh-sync")],
    thorough=[st("vh-sync")],
    design_ref="DESIGN.md §1 C19",
    assumptions=["Honest authors: every log is a single chain; a replica holds a contiguous segment of it "
                 "that starts at seq 0 or at a prune-flagged operation",
                 "Both sides pass the same `logs` argument (the statement's 'shared logs')"])

add("C20", "fault_enumeration",
    "store mutation (prune whole log / prune prefix / delete one operation / append / prune every "
    "announced log the peer lacks / append-then-prune so that the announced range is empty but the "
    "log is not, through the real store API) injected immediately before every "
    "LogStore call a fault-free dry run reaches, on the sending side, the receiving side and both; "
    "grammar monitor `have (done | pre_sync operation* done)` on every message handed to each "
    "sink, judged at the pair's final state (both returned / stalled for good / a side loops without "
    "awaiting): every side that did not fail must have sent exactly one done; second stage with the real TopicLogSync + live mode on top",
    "For every replica pair the dry run fixes the list of store calls of each side; every index in "
    "that list is then a fault point, for each of six mutation kinds and three side choices "
    "(thousands of faulted sessions in quick). The monitor reads the actual sink traffic; the "
    "TopicLogSync stage additionally checks that no Sync(_) follows a side's Sync(Done) and that no "
    "live phase fails on a left-over sync message. Every fault point reached is injected once per "
    "kind; mutations between two *sub-steps* of one store call are not reachable through the trait.",
    "The mutation is atomic and placed at store-call boundaries of the session (the only points "
    "where the session yields to the store). Faulted sessions that stall, spin or return an error are "
    "judged only for the message grammar (a side that never sent done at the final state = "
    "C20:no-done-sent); termination as such is C21's subject. Stores are restored from the model "
    "after each faulted run.",
    quick=[st("vh-sync")],
    thorough=[st("vh-sync")],
    design_ref="DESIGN.md §1 C20")

add("C21", "exploration",
    "capacity x volume grid over real LogSync pairs on monitored Sink/Stream wrappers that publish "
    "per-side state {idle, blocked_in_send, blocked_in_recv} and buffer occupancy; sessions are "
    "polled by hand, so a stall is decided on state (exact quiescence with the in-memory LogStore; "
    "two observations 100 ms apart with unchanged counters and no wake-up with SQLite stores); a "
    "counting tracing subscriber unwinds a poll that re-enters spans 200 000 times without one "
    "transport/store call (busy select! loop), with a CPU-time monitor as backstop; extra stage: one "
    "of two announced logs is emptied by a concurrent prune before every store-call index",
    "Transports: futures-mpsc with capacities 0,1,2,8,64,512 and unbounded, tokio-mpsc with "
    "1,2,8,64,512; operations per side {0,1,cap,cap+2,10*cap} on either side; body sizes 0 B..64 KiB; "
    "1-3 authors per side; poll order drawn from the seed. Liveness is restated as bounded "
    "progress: 'both sides returned' or 'no side can ever run again' are both final, observable "
    "states. The unbounded 'eventually' of the statement is not claimed beyond that.",
    "Deadlock signature = both sides blocked_in_send (their current send cannot return) with both "
    "directions at the measured capacity; any other stalled shape, a session error between honest "
    "peers, or a session looping without awaiting (C21:spin:session-loops-without-awaiting) is "
    "reported under its own signature. The concurrent-prune stage (A announces two logs, one is "
    "emptied before A's k-th store call, k=0..6, B holds 0 or 3 operations, four transports) must "
    "terminate as well. A wall-clock watchdog firing "
    "without such a state is inconclusive. The tokio::io::duplex + p2panda_net::codec byte-stream "
    "variant is served by vh-net, not here.",
    quick=[st("vh-sync")],
    thorough=[st("vh-sync")],
    design_ref="DESIGN.md §1 C21")

add("C24", "exploration",
    "last-k reference list against the real DeduplicationBuffer<Hash>, obtained through the public "
    "API as the Output of a trivial LogSync session (in-memory LogStore, block_on): exhaustive "
    "small domain + seeded long sequences; Miri underneath in the thorough tier",
    "Every insertion sequence of length <= 7 (quick) / <= 8 (thorough) over 5 distinct hashes for "
    "every capacity 1..4 (complete for that sub-space), plus hundreds to thousands of random "
    "sequences (capacity <= 64, up to 10^4 inserts, bursts that revisit the window edges). After "
    "every insert the return value and `contains` for the whole alphabet are compared with a FIFO "
    "list of the last `capacity` accepted items, which also bounds the number of held items.",
    "Only T = Hash is reachable through the public API. 'Last capacity distinct items inserted' is "
    "read as: a rejected duplicate is not an insertion and does not refresh the item's age (the "
    "documented eviction rule, 'the oldest item will be evicted'); the number of steps at which a "
    "recency reading would differ is recorded in the evidence, not judged. " + MIRI_NOTE,
    quick=[st("vh-sync")],
    thorough=[st("vh-sync"), st("vh-sync", mode="miri", timeout=3 * 3600)],
    design_ref="DESIGN.md §1 C24",
    assumptions=["capacity >= 1 (the statement's domain); capacity 0 is not exercised"])
