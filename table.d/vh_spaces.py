# vh-spaces: p2panda-spaces message processing (C39).

add("C39", "exploration",
    "runtime oracle over executions of the real spaces Manager::process on the crate's own "
    "test_utils peers (in-memory SQLite): canonical digests of every persisted state (shared auth "
    "state, every space state field by field, key registry, pre-key secrets) and of the API views "
    "(Space::members, Group::members) before/after a second processing, returned events, and "
    "catch_unwind around every call; seeded random multi-peer histories + adversarial well-typed "
    "messages",
    "Stage A builds seeded random histories with 2-4 peers (key bundles with pre-key rotation: "
    "authors publish 2-4 distinct bundles over time, so older bundle messages are re-delivered "
    "after newer ones; create space/group, "
    "add/remove members and nested groups at random access levels, publish, repair, peers lagging "
    "behind so that concurrent operations arise); every peer processes every message of the global "
    "log once in causal order and every (peer, message) pair is re-delivered exactly once at a "
    "random later position. A second processing after a first that returned Ok must leave every "
    "digest unchanged and return no events. Stage B signs and delivers hostile but well-typed "
    "messages of all five SpacesArgs variants and all five auth actions (unknown / foreign / "
    "swapped ids, outsider and member authors, empty / duplicated / oversized vectors, wrong "
    "dependencies, stolen / re-addressed / multiplied direct messages, tampered ciphertexts, "
    "extreme key-bundle lifetimes, attacker-built auth chains, CBOR-level mutants of real "
    "messages) to a victim peer; any panic is a violation, and an accepted hostile message is "
    "processed again and judged for idempotence. Exploration: speaks for the histories and "
    "messages it generated.",
    "Idempotence is judged only for messages whose first processing by that peer returned Ok (a "
    "message that failed first may legitimately apply on the second attempt); a second processing "
    "that returns an error is recorded, not judged. All persisted state is judged, the key "
    "registry and pre-key secrets included (space state is assembled from them on every load). "
    "Digests are canonical (maps sorted; a pure "
    "re-ordering of set-like arrays is recorded, not judged). Local API calls (create/add/remove/"
    "publish/repair) only shape the histories; their errors and panics are recorded, not judged. "
    "Stack overflows / aborts cannot be caught in-process: a dead worker makes the run "
    "inconclusive.",
    quick=[st("vh-spaces", timeout=1500)],
    thorough=[st("vh-spaces", timeout=4 * 3600)],
    design_ref="DESIGN.md §1 C39",
    assumptions=["Messages reach Manager::process in a causal order (creation order of one global "
                 "log), as the manager's documentation requires",
                 "A peer's own messages count as 'processed' from their first Manager::process "
                 "call, not from their local creation"])
