# Properties served by several harness crates: merged here (fragments are exec'd in name order,
# this one last).

add("C02", "exploration",
    "byte/hash/verify equality oracle over repeated decodes and rebuilt values of real headers, for "
    "generic extension types (incl. the ZST mem::zeroed path) and the Node API Basic/Causal "
    "extensions; Miri underneath the generic part",
    "Thousands of valid signed headers per extension type are encoded, decoded several times into "
    "fresh values, re-encoded and compared byte-for-byte, hash-for-hash and by signature validity; "
    "Causal extensions are decoded into >=16 fresh HashSet instances each, so a per-instance "
    "iteration order shows up as differing bytes. Exploration over generated headers.",
    "Causal extension values are obtained through the public Deserialize impl (private fields). "
    + MIRI_NOTE,
    quick=[st("vh-core"), st("vh-node2")],
    thorough=[st("vh-core"), st("vh-node2"), st("vh-core", mode="miri", timeout=3 * 3600)],
    design_ref="DESIGN.md §1 C02")

add("C07", "exploration",
    "pointwise-max oracle over Cursor::advance sequences (all permutations of short ones); persisted "
    "cursor read back after every ack call on a real Node (monotone, foreign-topic acks rejected)",
    "Pure part: every permutation of advance sequences up to length 6 plus long random ones must end "
    "in the pointwise maximum and be monotone at every step. Persisted part: ack histories (random "
    "order, concurrent tasks, foreign-topic operations) against a real Node with explicit ack policy; "
    "the cursor row is read back from the shared database after every call.",
    "Two independent streams on one topic have independent semaphores; that race is outside the "
    "statement's quantifier and only recorded. " + MIRI_NOTE,
    quick=[st("vh-core"), st("vh-node2")],
    thorough=[st("vh-core"), st("vh-node2"), st("vh-core", mode="miri", timeout=3 * 3600)],
    design_ref="DESIGN.md §1 C07")

# C18: second half (self-published transport records accepted as newer) lives in vh-net.
CHECKS["C18"]["stages"]["quick"].append(st("vh-net"))
CHECKS["C18"]["stages"]["thorough"].insert(1, st("vh-net"))

# C01: Node-level half (tampered operations through a real Node's import).
if "C01" in CHECKS:
    CHECKS["C01"]["stages"]["quick"].append(st("vh-node"))
    CHECKS["C01"]["stages"]["thorough"].append(st("vh-node"))
    CHECKS["C01"]["technique"] += ("; node level: every single-field mutant imported into a real Node "
                                   "must never be reported as Processed and must leave the raw dump unchanged")

# C21: codec variant (real LogSync over tokio::io::duplex(n) with the real p2panda_net codec framing).
CHECKS["C21"]["stages"]["quick"].append(st("vh-net"))
CHECKS["C21"]["stages"]["thorough"].append(st("vh-net"))
