# vh-store: the SQLite store and the ingest step built on it (C01 ingest-level part, C03, C05, C08,
# C09). C03/C08/C09 cross into the bundled C SQLite, so their thorough tier has a valgrind stage.

VALGRIND_NOTE = ("The valgrind stage runs the same command machine (about 50 machines, 2 threads) "
                 "under memcheck because the store crosses into the bundled C SQLite; a memcheck "
                 "tool failure is inconclusive, never a verdict.")

# C01 is shared: this crate decides the ingest-level part (ingest_operation on a real SqliteStore);
# the Node-level part (StreamPublisher::import -> Processed / ProcessingFailed) belongs to the
# Node harness. Whoever registers first owns the entry, the other one appends its stage.
_c01_stage = st("vh-store", sub="C01")
if "C01" in CHECKS:
    CHECKS["C01"]["stages"]["quick"].insert(0, dict(_c01_stage))
    CHECKS["C01"]["stages"]["thorough"].insert(0, dict(_c01_stage))
    CHECKS["C01"]["technique"] += (
        "; ingest level: single-field / single-bit mutants and arbitrary-field headers through the "
        "real ingest_operation on SqliteStore vs a reference validator with its own CBOR encoder, "
        "full table dump before/after every rejected ingest")
else:
    add("C01", "exploration",
        "runtime oracle over executions of p2panda_stream::ingest::ingest_operation on a real "
        "SqliteStore: reference validator written from the statement (own CBOR encoder for the "
        "canonical unsigned header bytes + ed25519 verify, version, payload info, backlink/seq, body "
        "hash/size, log position from the harness' own model) + byte-level diff of operations_v1 / "
        "topics_v1 before and after every rejected ingest",
        "Valid logs over three extension types (zero-sized, named struct, tuple) are mutated field by "
        "field (kept signature and re-signed), signature / key / wire bytes bit by bit, bodies "
        "truncated / extended / flipped / dropped / attached, plus headers with arbitrary field "
        "combinations; quick ~13 000 candidates, thorough ~230 000. Each goes through the real ingest "
        "against a store that holds the log prefix (and again with the original stored). Exploration "
        "over the mutants it generated; the Node-level half (import -> Processed/ProcessingFailed) is "
        "the Node harness' stage.",
        "ed25519 and BLAKE3 primitives are shared with the code under test (VerifyingKey::verify, "
        "Hash::digest); the serializer is not. The `hash` field of `Operation` is not a wire field; "
        "that ingest does not compare it with header.hash() is recorded, not judged. A debug-profile "
        "overflow panic in validate_backlink after a stored seq u32::MAX entry is recorded, not judged.",
        quick=[_c01_stage],
        thorough=[dict(_c01_stage)],
        design_ref="DESIGN.md §1 C01")

add("C03", "exploration",
    "online chain invariants over executions of ingest_operation (+ the pipeline's prune_entries "
    "step) on a real SqliteStore, observed through LogStore::get_log_entries / get_log_heights after "
    "every delivery; acceptance of unflagged operations compared with a 30-line reference log model",
    "Seeded multi-author, multi-log histories with prune points are delivered in perturbed orders "
    "with duplicates, drops, forged copies (bad signature, altered seq/backlink, re-signed by an "
    "attacker) and author-signed malformed continuations; small histories in every permutation "
    "(2 sets quick / 40 thorough, 720 orders each). After each delivery: seqs unique and ascending, "
    "every stored unflagged entry with seq > 0 links to the stored entry before it, heights never "
    "decrease, rejected operations left no entry. Exploration over the orders it ran (quick ~17 000 "
    "deliveries, thorough ~700 000); every 10th history on a file database. The thorough tier repeats ~25 histories and one "
    "all-permutations set under valgrind memcheck (bundled C SQLite underneath). A second stage "
    "(mode=concurrent) lets 2-4 concurrent writers on clones of one file-backed, multi-connection "
    "store deliver slices / permutations of the same log (400 rounds quick, 12 000 thorough) and "
    "checks the chain invariants once all writers have joined.",
    "Authors (and the attacker key) never equivocate, as the statement requires. Acceptance of "
    "prune-flagged operations is C05's subject and not judged here. The prune step is applied only "
    "after a completed ingest (C04 covers the pipeline doing otherwise).",
    quick=[st("vh-store"), st("vh-store", args=["mode=concurrent"])],
    thorough=[st("vh-store", timeout=3 * 3600),
              st("vh-store", args=["mode=concurrent"], timeout=3 * 3600),
              st("vh-store", mode="valgrind", scale=0.002, args=["threads=2"], timeout=3 * 3600)],
    design_ref="DESIGN.md §1 C03")

add("C05", "exploration",
    "prune-point invariant over executions of ingest_operation + prune_entries on a real "
    "SqliteStore: per log P = highest ingested prune-flagged seq; after every delivery no stored "
    "entry has seq < P",
    "Logs with 2-4 prune points are cut at the prune points and the segments delivered in permuted "
    "(mostly reversed) order, with duplicates, late lone prune-flagged operations and, right after a "
    "prune point was applied, rogue operations signed by the log's own author (seq tip-1 / tip / below "
    "the prune point, flagged or not, backlink = tip / other stored entry / pruned predecessor / "
    "random; ~5 000 per quick run); small logs in every permutation. Exploration over the delivery orders it ran; the case the statement singles "
    "out (older prune-flagged operation after a newer prune point) is what counts as non-trivial "
    "(quick >= 1 000 distinct such histories). A second stage (mode=concurrent): 2-4 concurrent "
    "writers on clones of one file-backed, multi-connection store, one delivering the newer prune "
    "point while another delivers the older prune-flagged operation of the same log (400 rounds "
    "quick, 12 000 thorough, random yields/sleeps); judged only at quiescence: no entry below the "
    "highest prune point whose ingest and prune step completed. Interleavings are the ones the "
    "scheduler produced (counts of overlapped / ordered rounds are in the evidence), not all.",
    "The prune step is issued by the harness exactly as the pipeline does after a completed ingest. "
    "Node-level delivery (import) is not part of this stage.",
    quick=[st("vh-store"), st("vh-store", args=["mode=concurrent"])],
    thorough=[st("vh-store", timeout=3 * 3600),
              st("vh-store", args=["mode=concurrent"], timeout=3 * 3600)],
    design_ref="DESIGN.md §1 C05")

add("C08", "exploration",
    "reference-model command machine over the SQLite LogStore / OperationStore (every call under "
    "catch_unwind), compared after every command; valgrind memcheck underneath in the thorough tier",
    "300 (quick) / 10 000 (thorough) machines of 40 random commands over 3 authors x 3 logs (insert "
    "in any order incl. gaps and foreign log ids, duplicates, rolled-back inserts, delete, payload "
    "deletion, prune at boundary values). After every command latest entry, heights for [] / unknown "
    "/ subsets / duplicates, ranged entries and ranged sizes for (after, until) in {None, 0, h-1, h, "
    "h+1, u32::MAX}^2 are compared with a BTreeMap model (~1 100 comparisons per machine). "
    "Exploration over the sequences it generated. " + VALGRIND_NOTE,
    "Where the trait docs are silent the oracle accepts both shapes: heights of an empty / unknown "
    "set may be None or an empty map, size of an empty range may be None or (0, 0). Two different "
    "operations at the same (author, log, seq) are never inserted (latest would be ambiguous).",
    quick=[st("vh-store")],
    thorough=[st("vh-store", timeout=3 * 3600),
              st("vh-store", mode="valgrind", scale=0.005, args=["threads=2"], timeout=3 * 3600)],
    design_ref="DESIGN.md §1 C08")

add("C09", "exploration",
    "reference-model command machine over the SQLite OperationStore / TopicStore / CursorStore vs "
    "HashMap / HashSet models, every boolean and every read compared; valgrind memcheck underneath "
    "in the thorough tier",
    "300 (quick) / 10 000 (thorough) machines of 40 random commands: insert (fresh, duplicate, same "
    "id with another body, rolled back), delete, payload deletion, has/get (plain and _tx), "
    "associate / remove / resolve over 4 topics, set / get / delete cursor over 6 names (empty, case "
    "variants, unicode, SQL wildcards, embedded NUL). Touched key + random sample read back after "
    "every command, everything every 8th command. Exploration over the sequences it generated. "
    + VALGRIND_NOTE,
    "delete_operation_payload on a present row whose payload is already gone counts as true (the "
    "docs say false only when the operation is not found).",
    quick=[st("vh-store")],
    thorough=[st("vh-store", timeout=3 * 3600),
              st("vh-store", mode="valgrind", scale=0.005, args=["threads=2"], timeout=3 * 3600)],
    design_ref="DESIGN.md §1 C09")
