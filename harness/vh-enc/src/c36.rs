//! C36 — the latest group secret is chosen deterministically and new secrets are newer.
//!
//! Oracle (from the statement): `latest` is the maximum by (timestamp, id) of the bundle's current
//! content after every insert / remove / extend / from_secrets / CBOR round-trip, for every
//! insertion order; `SecretBundle::generate` returns a secret strictly later than the bundle's
//! latest, including bundles whose latest lies years ahead of the (real) wall clock.

use p2panda_core::cbor::{decode_cbor, encode_cbor};
use p2panda_encryption::data_scheme::{GroupSecret, GroupSecretId, SecretBundle, SecretBundleState};
use vh_common::{Args, Report, Rng, catch, hex, json, permutations, quiet_panics};

use crate::util::{enc_rng, now_secs};

type Key = (u64, GroupSecretId);

fn key(s: &GroupSecret) -> Key {
    (s.timestamp(), s.id())
}

/// Maximum by (timestamp, id) over what the bundle currently holds.
fn oracle(y: &SecretBundleState) -> Option<Key> {
    y.secrets().map(key).max()
}

fn show(k: Option<Key>) -> vh_common::Value {
    match k {
        Some((ts, id)) => json!({"timestamp": ts, "id": hex(&id)}),
        None => json!(null),
    }
}

struct Ctx<'a> {
    rep: &'a mut Report,
    seed: u64,
}

impl Ctx<'_> {
    /// Judge `latest` against the oracle. Returns false on a violation.
    fn check(&mut self, y: &SecretBundleState, op: &str, witness: &dyn Fn() -> vh_common::Value) -> bool {
        self.rep.bump("latest_checks", 1);
        let got = y.latest().map(key);
        let want = oracle(y);
        if got != want {
            self.rep.violation(
                "C36:latest-not-maximum",
                format!("after {op}: latest() = {} but the maximum by (timestamp, id) of the bundle is {}", show(got), show(want)),
                json!({"seed": self.seed, "after": op, "latest": show(got), "maximum": show(want),
                    "content": y.secrets().map(|s| json!({"timestamp": s.timestamp(), "id": hex(&s.id())})).collect::<Vec<_>>(),
                    "case": witness()}),
            );
            return false;
        }
        true
    }
}

fn describe(set: &[([u8; 32], u64)]) -> vh_common::Value {
    json!(set.iter().map(|(b, ts)| json!({"secret_bytes": hex(b), "timestamp": ts})).collect::<Vec<_>>())
}

fn gen_set(rng: &mut Rng, n: usize, now: u64) -> Vec<([u8; 32], u64)> {
    // Small timestamp pools so that collisions are the rule.
    let base = match rng.below(5) {
        0 => 0,
        1 => now,
        2 => now + 10 * 365 * 86_400,
        3 => u64::MAX - 3,
        _ => rng.mag(40),
    };
    let spread = *rng.pick(&[1u64, 1, 2, 3]);
    (0..n).map(|_| (rng.array32(), base + rng.below(spread))).collect()
}

/// Encoding of the bundle `y` with its list of secrets rearranged to follow `perm` (indices into
/// `secrets`). Built from the decoded structure of a real encoding, never from the encoder's order.
fn permuted_encoding(y: &SecretBundleState, perm: &[usize], secrets: &[GroupSecret]) -> Option<Vec<u8>> {
    let real = encode_cbor(y).ok()?;
    let value: ciborium::Value = ciborium::de::from_reader(&real[..]).ok()?;
    let items = value.as_array()?.clone();
    if items.len() != secrets.len() {
        return None;
    }
    // Identify each encoded item by decoding it on its own.
    let mut by_id: Vec<(GroupSecretId, ciborium::Value)> = Vec::new();
    for item in items {
        let mut buf = Vec::new();
        ciborium::ser::into_writer(&item, &mut buf).ok()?;
        let s: GroupSecret = decode_cbor(&buf[..]).ok()?;
        by_id.push((s.id(), item));
    }
    let mut out = Vec::new();
    for &i in perm {
        let id = secrets[i].id();
        out.push(by_id.iter().find(|(k, _)| *k == id)?.1.clone());
    }
    let mut bytes = Vec::new();
    ciborium::ser::into_writer(&ciborium::Value::Array(out), &mut bytes).ok()?;
    Some(bytes)
}

fn part_orders(ctx: &mut Ctx, rng_seed: u64, sets: u64, max_n: usize) {
    let now = now_secs();
    let erng = enc_rng(&mut Rng::fork(rng_seed, 0x36D));
    for case in 0..sets {
        let mut rng = Rng::fork(rng_seed, case);
        let n = 2 + rng.usize_below(max_n - 1);
        let set = gen_set(&mut rng, n, now);
        let secrets: Vec<GroupSecret> = set.iter().map(|(b, ts)| GroupSecret::new(*b, *ts)).collect();
        let mut sorted: Vec<Key> = secrets.iter().map(key).collect();
        sorted.sort();
        let has_tie = sorted.windows(2).any(|w| w[0].0 == w[1].0);
        let want_final = sorted.last().cloned();
        let mut finals: Vec<(Vec<usize>, Option<Key>)> = Vec::new();
        let mut ok = true;
        for perm in permutations(n) {
            let witness = || json!({"part": "orders", "case": case, "set": describe(&set), "insertion_order": perm});
            // (a) one by one
            let mut y = SecretBundle::init();
            for &i in &perm {
                y = SecretBundle::insert(y, secrets[i].clone());
                ok &= ctx.check(&y, "insert", &witness);
            }
            let fin = y.latest().map(key);
            // (b) from_secrets in this order
            let y2 = SecretBundle::from_secrets(perm.iter().map(|&i| secrets[i].clone()).collect());
            ok &= ctx.check(&y2, "from_secrets", &witness);
            // (c) split and extend both ways
            let k = 1 + (case as usize + perm[0]) % (n - 1).max(1);
            let a = SecretBundle::from_secrets(perm[..k.min(n)].iter().map(|&i| secrets[i].clone()).collect());
            let b = SecretBundle::from_secrets(perm[k.min(n)..].iter().map(|&i| secrets[i].clone()).collect());
            let ab = SecretBundle::extend(a.clone(), b.clone());
            let ba = SecretBundle::extend(b, a);
            ok &= ctx.check(&ab, "extend(a,b)", &witness);
            ok &= ctx.check(&ba, "extend(b,a)", &witness);
            // (d) CBOR round-trip of the full bundle
            let bytes = encode_cbor(&y).expect("encode bundle");
            let back: SecretBundleState = decode_cbor(&bytes[..]).expect("decode bundle");
            ok &= ctx.check(&back, "cbor round-trip", &witness);
            if back.latest().map(key) != fin {
                ctx.rep.violation(
                    "C36:latest-changed-by-cbor-roundtrip",
                    "latest differs before and after a CBOR round-trip of the same bundle",
                    json!({"seed": ctx.seed, "case": witness(), "before": show(fin), "after": show(back.latest().map(key))}),
                );
                ok = false;
            }
            // (d') decode a hand-built encoding whose list is in *this* order (a peer, or an older
            // version of the library, need not write the list in any particular order): take the
            // structure of a real encoding, permute the array, re-encode, decode.
            if let Some(bytes) = permuted_encoding(&y, &perm, &secrets) {
                match decode_cbor::<SecretBundleState, _>(&bytes[..]) {
                    Ok(dec) => {
                        ctx.rep.bump("decodes_of_permuted_encodings", 1);
                        let got = dec.latest().map(key);
                        if got != oracle(&dec) || got != want_final {
                            ctx.rep.violation(
                                "C36:latest-not-maximum:after-decode-of-permuted-encoding",
                                format!("a bundle decoded from an encoding that lists the secrets in order {perm:?} has latest() = {} but the maximum by (timestamp, id) is {}", show(got), show(want_final)),
                                json!({"seed": ctx.seed, "case": witness(), "encoding_hex": hex(&bytes), "latest": show(got), "maximum": show(want_final)}),
                            );
                            ok = false;
                        }
                        // generate on the decoded bundle must be strictly later than the true maximum.
                        if let (Some(maxk), Ok(fresh)) = (want_final, SecretBundle::generate(&dec, &erng)) {
                            ctx.rep.bump("generate_calls", 1);
                            if key(&fresh) <= maxk {
                                ctx.rep.violation(
                                    "C36:generated-secret-not-later:after-decode-of-permuted-encoding",
                                    format!("generate on a bundle decoded from list order {perm:?} returned timestamp {} which is not later than the bundle's maximum {}", fresh.timestamp(), maxk.0),
                                    json!({"seed": ctx.seed, "case": witness(), "encoding_hex": hex(&bytes), "generated": show(Some(key(&fresh))), "maximum": show(want_final)}),
                                );
                                ok = false;
                            }
                        }
                    }
                    Err(e) => ctx.rep.inconclusive(format!("hand-built permuted encoding does not decode: {e}")),
                }
            } else {
                ctx.rep.inconclusive("could not rebuild a permuted encoding from the structure of a real one");
            }
            // (e) remove the current latest, then the rest in this order
            let mut yr = y.clone();
            for &i in &perm {
                let (y_i, _) = SecretBundle::remove(yr, &secrets[i].id());
                yr = y_i;
                ok &= ctx.check(&yr, "remove", &witness);
            }
            for other in [ab.latest().map(key), ba.latest().map(key), y2.latest().map(key)] {
                if other != fin {
                    finals.push((perm.clone(), other));
                }
            }
            finals.push((perm.clone(), fin));
            let distinct_key = (sorted.clone(), perm.clone());
            if has_tie {
                ctx.rep.case(Some(distinct_key));
            } else {
                ctx.rep.case(None::<()>);
            }
            if !ok {
                break;
            }
        }
        // Order independence: every way of building the same set ends with the same latest.
        if let Some((perm, other)) = finals.iter().find(|(_, f)| *f != want_final) {
            ctx.rep.violation(
                "C36:latest-depends-on-order",
                format!("the same {n} secrets give latest {} for one insertion/merge order, the maximum is {}", show(*other), show(want_final)),
                json!({"seed": ctx.seed, "part": "orders", "case": case, "set": describe(&set), "order": perm,
                    "latest": show(*other), "maximum": show(want_final)}),
            );
        }
        if ctx.rep.want_sample() && has_tie {
            ctx.rep.sample(json!({"part": "orders", "case": case, "set": describe(&set), "orders_tried": finals.len(),
                "latest": show(want_final)}));
        }
    }
}

fn part_random_ops(ctx: &mut Ctx, rng_seed: u64, runs: u64, steps: usize) {
    let now = now_secs();
    for case in 0..runs {
        let mut rng = Rng::fork(rng_seed ^ 0x0036_0002, case);
        let pool_n = 2 + rng.usize_below(9);
        let mut pool = gen_set(&mut rng, pool_n, now);
        // Same secret bytes under a second timestamp (same id): observation about content, the
        // latest-is-maximum oracle still applies to whatever the bundle then holds.
        if rng.chance(0.3) {
            let (b, ts) = pool[0];
            pool.push((b, ts.saturating_add(1 + rng.below(3))));
        }
        let mut y = SecretBundle::init();
        let mut trace: Vec<String> = Vec::new();
        let mut ties = false;
        for _ in 0..steps {
            let op = rng.below(10);
            let (b, ts) = *rng.pick(&pool);
            let opname;
            if op < 5 {
                opname = format!("insert({}.., {ts})", &hex(&b)[..8]);
                y = SecretBundle::insert(y, GroupSecret::new(b, ts));
            } else if op < 7 {
                opname = format!("remove({}..)", &hex(&b)[..8]);
                let (y_i, _) = SecretBundle::remove(y, &GroupSecret::new(b, ts).id());
                y = y_i;
            } else if op < 9 {
                let k = 1 + rng.usize_below(pool.len());
                let mut idx: Vec<usize> = (0..pool.len()).collect();
                rng.shuffle(&mut idx);
                let other = SecretBundle::from_secrets(idx[..k].iter().map(|&i| GroupSecret::new(pool[i].0, pool[i].1)).collect());
                opname = format!("extend({:?})", &idx[..k]);
                y = if rng.bool() { SecretBundle::extend(y, other) } else { SecretBundle::extend(other, y) };
            } else {
                opname = "cbor round-trip".to_string();
                let bytes = encode_cbor(&y).expect("encode bundle");
                y = decode_cbor(&bytes[..]).expect("decode bundle");
            }
            trace.push(opname.clone());
            let mut tss: Vec<u64> = y.secrets().map(|s| s.timestamp()).collect();
            tss.sort();
            ties |= tss.windows(2).any(|w| w[0] == w[1]);
            let witness = || json!({"part": "random-ops", "case": case, "pool": describe(&pool), "ops": trace});
            if !ctx.check(&y, &opname, &witness) {
                break;
            }
        }
        if ties {
            ctx.rep.case(Some((case, trace.clone())));
        } else {
            ctx.rep.case(None::<()>);
        }
    }
}

fn part_generate(ctx: &mut Ctx, rng_seed: u64, runs: u64) {
    for case in 0..runs {
        let mut rng = Rng::fork(rng_seed ^ 0x0036_0003, case);
        let erng = enc_rng(&mut rng);
        let now = now_secs();
        let class = rng.below(8);
        let (label, latest_ts): (&str, Option<u64>) = match class {
            0 => ("empty bundle", None),
            1 => ("latest in the past", Some(now - 1 - rng.mag(30).min(now - 1))),
            2 => ("latest == now", Some(now)),
            3 => ("latest == now + 1", Some(now + 1)),
            4 => ("latest ten years ahead of the wall clock", Some(now + 10 * 365 * 86_400 + rng.below(1000))),
            5 => ("latest far ahead", Some(now + rng.mag(62))),
            6 => ("latest == u64::MAX - 1", Some(u64::MAX - 1)),
            _ => ("latest == now, several secrets tie", Some(now)),
        };
        let mut y = SecretBundle::init();
        if let Some(ts) = latest_ts {
            let extra = if class == 7 { 3 } else { rng.usize_below(3) };
            y = SecretBundle::insert(y, GroupSecret::new(rng.array32(), ts));
            for _ in 0..extra {
                let t = if class == 7 { ts } else { ts - rng.below(ts.min(5) + 1).min(ts) };
                y = SecretBundle::insert(y, GroupSecret::new(rng.array32(), t));
            }
        }
        // A chain of generate + insert within (most likely) the same wall-clock second.
        let chain = if class == 6 { 1 } else { 1 + rng.usize_below(4) };
        let mut all_ok = true;
        for link in 0..chain {
            let before = y.latest().map(key);
            let fresh = match SecretBundle::generate(&y, &erng) {
                Ok(s) => s,
                Err(err) => {
                    ctx.rep.inconclusive(format!("SecretBundle::generate failed: {err}"));
                    break;
                }
            };
            ctx.rep.bump("generate_calls", 1);
            let fresh_key = key(&fresh);
            let witness = json!({"seed": ctx.seed, "part": "generate", "case": case, "class": label, "link": link,
                "wall_clock_s": now_secs(), "latest_before": show(before), "generated": show(Some(fresh_key))});
            if let Some(b) = before {
                if fresh_key <= b {
                    ctx.rep.violation(
                        "C36:generated-secret-not-later",
                        format!("generate ({label}) returned timestamp {} which is not strictly later than the bundle's latest {}", fresh_key.0, b.0),
                        witness.clone(),
                    );
                    all_ok = false;
                }
                if fresh_key.0 <= b.0 {
                    // Later only through the id tie-break: still "later" by (timestamp, id); noted.
                    ctx.rep.bump("generated_later_only_by_id(observation)", 1);
                }
            }
            y = SecretBundle::insert(y, fresh);
            if y.latest().map(key) != Some(fresh_key) {
                ctx.rep.violation(
                    "C36:generated-secret-not-latest-after-insert",
                    format!("after inserting the freshly generated secret ({label}) latest() is {}", show(y.latest().map(key))),
                    witness,
                );
                all_ok = false;
            }
            if !all_ok {
                break;
            }
        }
        let behind = matches!(class, 2..=7);
        if behind {
            ctx.rep.case(Some(("generate", case, latest_ts)));
        } else {
            ctx.rep.case(None::<()>);
        }
        if ctx.rep.want_sample() && class == 4 {
            ctx.rep.sample(json!({"part": "generate", "case": case, "class": label, "latest_before": latest_ts,
                "chain": chain, "final_latest": show(y.latest().map(key)), "wall_clock_s": now}));
        }
    }
    // Observation (not judged): no u64 is strictly greater than u64::MAX, the statement cannot be
    // met there; record what the code does.
    let mut rng = Rng::fork(rng_seed, 0xFFFF);
    let erng = enc_rng(&mut rng);
    let y = SecretBundle::insert(SecretBundle::init(), GroupSecret::new(rng.array32(), u64::MAX));
    let obs = match catch(std::panic::AssertUnwindSafe(|| SecretBundle::generate(&y, &erng).map(|s| s.timestamp()))) {
        Ok(Ok(ts)) => format!("returned timestamp {ts}"),
        Ok(Err(e)) => format!("error {e}"),
        Err(p) => format!("panic: {p}"),
    };
    ctx.rep.extra("generate_with_latest_at_u64_max(observation, not judged)", json!(obs));
}

pub fn run(args: &Args) {
    quiet_panics();
    let miri = cfg!(miri);
    let sets = if miri { 4 } else { args.n(150, 5_000) };
    let max_n = if miri { 4 } else { 6 };
    let runs = if miri { 6 } else { args.n(400, 30_000) };
    let gens = if miri { 16 } else { args.n(2_000, 200_000) };
    let mut rep = Report::new(
        args,
        &format!(
            "part 1: {sets} sets of 2..={max_n} secrets with timestamps from pools of 1-3 values (around 0, now, \
             now+10y, u64::MAX-3, random), every insertion order, checked after each insert / from_secrets / extend \
             both ways / CBOR round-trip / decode of a hand-built encoding whose list follows that order (+ generate on it) / remove; one case per (set, order), non-trivial = the set has a timestamp \
             collision; part 2: {runs} random op sequences (insert/remove/extend/round-trip) over pools of 2-11 \
             secrets, non-trivial = the bundle held tied timestamps; part 3: {gens} generate chains against the real \
             wall clock with the bundle's latest in the past / at now / ahead by 1 s, 10 years, up to 2^62 s, \
             u64::MAX-1, non-trivial = latest >= wall clock"
        ),
        if miri { 10 } else { 500 },
    );
    let seed = args.seed;
    {
        let mut ctx = Ctx { rep: &mut rep, seed };
        part_orders(&mut ctx, seed, sets, max_n);
        part_random_ops(&mut ctx, seed, runs, if miri { 8 } else { 30 });
        part_generate(&mut ctx, seed, gens);
    }
    rep.finish(args);
}
