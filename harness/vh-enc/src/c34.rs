//! C34 — message ratchet yields the sender's key for any delivery order.
//!
//! Oracle (from the statement): the sender chain is the crate's own `RatchetSecret::ratchet_forward`
//! on the same secret; the receiver is the real `DecryptionRatchet::secret_for_decryption`. A small
//! window model (head, set of generations still available) written from the statement says for
//! every request whether the windows dictate "key" or "reject"; a returned key must equal the
//! sender's key material of that generation and no generation is handed out twice.
//!
//! The window configuration is fixed per ratchet (as in `message_scheme::group`, where it is a
//! group-wide constant). Generations near `u32::MAX` are left out (DESIGN.md §1 C34).

use std::collections::BTreeSet;

use p2panda_encryption::message_scheme::ratchet::RatchetKeyMaterial;
use p2panda_encryption::message_scheme::{
    DecryptionRatchet, DecryptionRatchetState, Generation, RatchetError, RatchetSecret,
};
use vh_common::{Args, Report, Rng, Tier, catch, hash_of, json, quiet_panics};

use crate::util::{secret32, to_json, workers};

const WINDOWS: [u32; 5] = [0, 1, 2, 5, 100];

#[derive(Clone, Debug, PartialEq, Eq)]
enum Expect {
    Key,
    RejectFuture,
    RejectPast,
    RejectReuse,
}

/// Reference window model written from the statement.
#[derive(Clone, Debug, Default)]
struct Model {
    /// Next generation the chain head would produce.
    head: u64,
    /// Generations below `head`, inside the out-of-order window, whose key was not handed out yet.
    avail: BTreeSet<u64>,
    /// Every generation whose key was handed out.
    handed: BTreeSet<u64>,
}

impl Model {
    fn expect(&self, g: u64, mfd: u64, ooo: u64) -> Expect {
        if g > self.head + mfd {
            Expect::RejectFuture
        } else if g < self.head && self.head - g > ooo {
            Expect::RejectPast
        } else if g >= self.head || self.avail.contains(&g) {
            Expect::Key
        } else {
            // Inside the past window but not available: by construction it was handed out before.
            debug_assert!(self.handed.contains(&g));
            Expect::RejectReuse
        }
    }

    fn handed_out(&mut self, g: u64, ooo: u64) {
        if g >= self.head {
            for x in self.head..g {
                self.avail.insert(x);
            }
            self.head = g + 1;
            let head = self.head;
            self.avail.retain(|x| head - *x <= ooo);
        } else {
            self.avail.remove(&g);
        }
        self.handed.insert(g);
    }
}

fn sender_chain(secret: [u8; 32], n: usize) -> Vec<RatchetKeyMaterial> {
    let mut y = RatchetSecret::init(secret32(secret));
    let mut out = Vec::with_capacity(n);
    for i in 0..n {
        let (y_i, generation, material) = RatchetSecret::ratchet_forward(y).expect("sender hkdf");
        assert_eq!(generation as usize, i);
        out.push(material);
        y = y_i;
    }
    out
}

#[derive(Default)]
struct Counters {
    calls: u64,
    ok_head: u64,
    ok_skip: u64,
    ok_past: u64,
    rej_future: u64,
    rej_past: u64,
    rej_reuse: u64,
    error_class_differs: u64,
    panics: u64,
}

struct Viol {
    sig: &'static str,
    what: String,
    witness: vh_common::Value,
}

enum Outcome {
    Key(DecryptionRatchetState),
    Rejected,
}

/// One request against the real ratchet, judged against the model. Returns the new state on
/// success (the real function consumes the state on error; the caller keeps its clone).
#[allow(clippy::too_many_arguments)]
fn step(
    y: &DecryptionRatchetState,
    model: &mut Model,
    sender: &[RatchetKeyMaterial],
    g: u64,
    mfd: u32,
    ooo: u32,
    c: &mut Counters,
    viol: &mut Vec<Viol>,
    ctx: &dyn Fn() -> vh_common::Value,
) -> Outcome {
    c.calls += 1;
    let want = model.expect(g, mfd as u64, ooo as u64);
    let y_in = y.clone();
    let got = catch(std::panic::AssertUnwindSafe(|| {
        DecryptionRatchet::secret_for_decryption(y_in, g as Generation, mfd, ooo)
    }));
    let head_before = model.head;
    match got {
        Err(panic) => {
            c.panics += 1;
            viol.push(Viol {
                sig: "C34:panic-in-secret_for_decryption",
                what: format!("secret_for_decryption panicked for generation {g} (head {head_before}, windows {mfd}/{ooo}): {panic}"),
                witness: json!({"context": ctx(), "request": g, "model_head": head_before, "expected": format!("{want:?}"), "panic": panic}),
            });
            Outcome::Rejected
        }
        Ok(Ok((y_next, material))) => {
            if want != Expect::Key {
                let sig = match want {
                    Expect::RejectReuse => "C34:key-handed-out-twice",
                    _ => "C34:accepted-outside-window",
                };
                viol.push(Viol {
                    sig,
                    what: format!("generation {g} returned a key although the model says {want:?} (head {head_before}, windows future={mfd} ooo={ooo})"),
                    witness: json!({"context": ctx(), "request": g, "model_head": head_before, "expected": format!("{want:?}"), "got": "Ok"}),
                });
                // Keep following the real state; the model cannot meaningfully continue.
                return Outcome::Rejected;
            }
            if material != sender[g as usize] {
                viol.push(Viol {
                    sig: "C34:wrong-key-material",
                    what: format!("generation {g}: receiver key material differs from the sender's"),
                    witness: json!({"context": ctx(), "request": g, "model_head": head_before,
                        "receiver": to_json(&material), "sender": to_json(&sender[g as usize])}),
                });
            }
            if g > head_before {
                c.ok_skip += 1;
            } else if g == head_before {
                c.ok_head += 1;
            } else {
                c.ok_past += 1;
            }
            model.handed_out(g, ooo as u64);
            Outcome::Key(y_next)
        }
        Ok(Err(err)) => {
            match want {
                Expect::Key => {
                    viol.push(Viol {
                        sig: "C34:rejected-inside-window",
                        what: format!("generation {g} is inside the windows and was never handed out, but was rejected with {err:?} (head {head_before}, windows future={mfd} ooo={ooo})"),
                        witness: json!({"context": ctx(), "request": g, "model_head": head_before, "expected": "Key", "got": format!("{err:?}")}),
                    });
                }
                Expect::RejectFuture => {
                    c.rej_future += 1;
                    if !matches!(err, RatchetError::TooDistantInTheFuture) {
                        c.error_class_differs += 1;
                    }
                }
                Expect::RejectPast => {
                    c.rej_past += 1;
                    if !matches!(err, RatchetError::TooDistantInThePast) {
                        c.error_class_differs += 1;
                    }
                }
                Expect::RejectReuse => {
                    c.rej_reuse += 1;
                    if !matches!(err, RatchetError::SecretReuse) {
                        c.error_class_differs += 1;
                    }
                }
            }
            Outcome::Rejected
        }
    }
}

struct EnumResult {
    keys: Vec<(u64, bool)>,
    counters: Counters,
    viol: Vec<Viol>,
}

/// Depth-first enumeration of every request sequence of length <= depth over 0..alphabet for one
/// window configuration (prefixes share the ratchet state by value).
#[allow(clippy::too_many_arguments)]
fn dfs(
    y: &DecryptionRatchetState,
    model: &Model,
    sender: &[RatchetKeyMaterial],
    seq: &mut Vec<u64>,
    alphabet: u64,
    depth: usize,
    mfd: u32,
    ooo: u32,
    out: &mut EnumResult,
) {
    if seq.len() == depth {
        return;
    }
    for g in 0..alphabet {
        let mut m = model.clone();
        seq.push(g);
        let snapshot = seq.clone();
        let ctx = move || json!({"part": "enumeration", "future_window": mfd, "ooo_window": ooo, "requests_so_far": snapshot});
        let res = step(y, &mut m, sender, g, mfd, ooo, &mut out.counters, &mut out.viol, &ctx);
        let in_order = seq.iter().enumerate().all(|(i, x)| *x == i as u64);
        out.keys.push((hash_of(&(mfd, ooo, &*seq)), !in_order));
        match res {
            Outcome::Key(y_next) => dfs(&y_next, &m, sender, seq, alphabet, depth, mfd, ooo, out),
            Outcome::Rejected => dfs(y, &m, sender, seq, alphabet, depth, mfd, ooo, out),
        }
        seq.pop();
        if out.viol.len() > 200 {
            return;
        }
    }
}

struct SessionResult {
    key: u64,
    nontrivial: bool,
    counters: Counters,
    viol: Vec<Viol>,
    sample: vh_common::Value,
    max_retained_beyond_ooo: i64,
}

fn random_session(seed: u64, case: u64, len: u64) -> SessionResult {
    let mut rng = Rng::fork(seed, case);
    let pick_window = |rng: &mut Rng| -> u32 {
        if cfg!(miri) {
            *rng.pick(&WINDOWS[..4])
        } else if rng.chance(0.7) {
            *rng.pick(&WINDOWS)
        } else {
            rng.below(121) as u32
        }
    };
    let mfd = pick_window(&mut rng);
    let ooo = pick_window(&mut rng);
    let secret = rng.array32();
    let p_loss = *rng.pick(&[0.0, 0.02, 0.1, 0.3]);
    let p_dup = *rng.pick(&[0.0, 0.05, 0.2]);
    let disp = *rng.pick(&[0u64, 1, 2, ooo as u64, ooo as u64 + 2, 2 * ooo as u64 + 5, 50]);
    let p_probe = *rng.pick(&[0.0, 0.01, 0.03]);

    // Delivery plan: (sort position, generation).
    let mut plan: Vec<(u64, u64)> = Vec::new();
    for g in 0..len {
        if rng.chance(p_loss) {
            continue;
        }
        plan.push((g + rng.below(disp + 1), g));
        if rng.chance(p_dup) {
            plan.push((g + rng.below(disp + 20), g));
        }
    }
    plan.sort();
    let max_gen = if cfg!(miri) { (len + 3 * mfd as u64 + 16) as usize } else { (len + 40 * mfd as u64 + 400) as usize };
    let sender = sender_chain(secret, max_gen);

    let mut y = DecryptionRatchet::init(secret32(secret));
    let mut model = Model::default();
    let mut c = Counters::default();
    let mut viol = Vec::new();
    let mut requests: Vec<u64> = Vec::new();
    let mut max_retained: i64 = i64::MIN;

    let issue = |g: u64, y: &mut DecryptionRatchetState, model: &mut Model, requests: &mut Vec<u64>, c: &mut Counters, viol: &mut Vec<Viol>| {
        if g as usize >= sender.len() {
            return;
        }
        requests.push(g);
        let snapshot_len = requests.len();
        let reqs: &Vec<u64> = requests;
        let ctx = || json!({"part": "random", "seed": seed, "case": case, "future_window": mfd, "ooo_window": ooo,
            "chain_secret": vh_common::hex(&secret), "requests_so_far": reqs[..snapshot_len].to_vec()});
        if let Outcome::Key(y_next) = step(y, model, &sender, g, mfd, ooo, c, viol, &ctx) {
            *y = y_next;
        }
    };

    for (i, (_, g)) in plan.iter().enumerate() {
        if viol.len() > 5 {
            break;
        }
        if rng.chance(p_probe) {
            // Boundary probes relative to the current head.
            let h = model.head;
            let probe = match rng.below(7) {
                0 => h + mfd as u64,
                1 => h + mfd as u64 + 1,
                2 => h.saturating_sub(ooo as u64),
                3 => h.saturating_sub(ooo as u64 + 1),
                4 => h.saturating_sub(1),
                5 => h + mfd as u64 + 1 + rng.below(100),
                _ => rng.below(len + 200),
            };
            issue(probe, &mut y, &mut model, &mut requests, &mut c, &mut viol);
        }
        issue(*g, &mut y, &mut model, &mut requests, &mut c, &mut viol);
        if i % 64 == 63 {
            // Observation only: how many entries the persisted state retains beyond the window.
            if let Some(n) = to_json(&y).get("past_secrets").and_then(|p| p.as_array()).map(|a| a.len()) {
                max_retained = max_retained.max(n as i64 - ooo as i64);
            }
        }
    }
    let nontrivial = c.ok_past > 0 && c.ok_skip > 0 && (c.rej_future + c.rej_past + c.rej_reuse) > 0;
    let sample = json!({"part": "random", "case": case, "future_window": mfd, "ooo_window": ooo, "requests": requests.len(),
        "first_requests": requests.iter().take(24).collect::<Vec<_>>(),
        "ok_head": c.ok_head, "ok_skip": c.ok_skip, "ok_past": c.ok_past,
        "rej_future": c.rej_future, "rej_past": c.rej_past, "rej_reuse": c.rej_reuse});
    SessionResult {
        key: hash_of(&(mfd, ooo, &requests)),
        nontrivial,
        counters: c,
        viol,
        sample,
        max_retained_beyond_ooo: max_retained,
    }
}

fn merge(rep: &mut Report, c: &Counters) {
    rep.bump("calls", c.calls);
    rep.bump("key_at_head", c.ok_head);
    rep.bump("key_after_skipping_ahead", c.ok_skip);
    rep.bump("key_from_past_window", c.ok_past);
    rep.bump("rejected_beyond_future_window", c.rej_future);
    rep.bump("rejected_beyond_past_window", c.rej_past);
    rep.bump("rejected_reuse", c.rej_reuse);
    rep.bump("error_variant_differs_from_expected_class(not judged)", c.error_class_differs);
    rep.bump("panics", c.panics);
}

pub fn run(args: &Args) {
    quiet_panics();
    let (alphabet, depth, windows): (u64, usize, Vec<u32>) = if cfg!(miri) {
        (4, 3, vec![0, 1, 2])
    } else if args.tier == Tier::Quick {
        (8, 5, WINDOWS.to_vec())
    } else {
        (8, 6, WINDOWS.to_vec())
    };
    let sessions = if cfg!(miri) { 2 } else { args.n(300, 20_000) };
    let session_len: u64 = if cfg!(miri) { 40 } else { 500 };

    let mut rep = Report::new(
        args,
        &format!(
            "part 1: every request sequence of length <= {depth} over generations 0..{alphabet} (order, loss, \
             duplication) for every window pair (future, out-of-order) in {windows:?}^2, one case per (windows, \
             sequence), non-trivial = the sequence is not the in-order prefix 0,1,2,..; part 2: {sessions} random \
             sessions of ~{session_len} generations with loss, duplication, bounded displacement and boundary probes, \
             windows from {WINDOWS:?} or random 0..=120, non-trivial = the session saw a key from the past window, a \
             skip ahead and a rejection; distinct = hash of (windows, request sequence)"
        ),
        if cfg!(miri) { 50 } else { 1000 },
    );

    // ---- part 1: enumeration -----------------------------------------------------------------
    let secret = Rng::fork(args.seed, 0xC34).array32();
    let sender = sender_chain(secret, alphabet as usize + 1);
    let mut configs: Vec<(u32, u32)> = Vec::new();
    for &m in &windows {
        for &o in &windows {
            configs.push((m, o));
        }
    }
    let results: Vec<EnumResult> = {
        let nthreads = workers();
        let chunks: Vec<Vec<(u32, u32)>> = (0..nthreads)
            .map(|t| configs.iter().cloned().enumerate().filter(|(i, _)| i % nthreads == t).map(|(_, c)| c).collect())
            .collect();
        let sender = &sender;
        std::thread::scope(|s| {
            let hs: Vec<_> = chunks
                .into_iter()
                .map(|chunk| {
                    s.spawn(move || {
                        let mut out = Vec::new();
                        for (mfd, ooo) in chunk {
                            let mut r = EnumResult { keys: Vec::new(), counters: Counters::default(), viol: Vec::new() };
                            let y = DecryptionRatchet::init(secret32(secret));
                            dfs(&y, &Model::default(), sender, &mut Vec::new(), alphabet, depth, mfd, ooo, &mut r);
                            out.push(r);
                        }
                        out
                    })
                })
                .collect();
            hs.into_iter().flat_map(|h| h.join().expect("enumeration thread")).collect()
        })
    };
    let mut enum_nodes = 0u64;
    let mut enum_complete = true;
    for r in results {
        for (k, nontrivial) in &r.keys {
            enum_nodes += 1;
            if *nontrivial {
                rep.case(Some(k));
            } else {
                rep.case(None::<()>);
            }
        }
        merge(&mut rep, &r.counters);
        if !r.viol.is_empty() {
            enum_complete = false;
        }
        for v in r.viol {
            rep.violation(v.sig, v.what, v.witness);
        }
    }
    rep.extra("enumerated_sequences", json!(enum_nodes));
    rep.extra("enumeration", json!({"alphabet": alphabet, "max_len": depth, "window_pairs": configs.len(), "complete": enum_complete}));
    rep.sample(json!({"part": "enumeration", "chain_secret": vh_common::hex(&secret), "alphabet": alphabet, "max_len": depth,
        "window_pairs": configs.len(), "sequences": enum_nodes}));

    // ---- part 2: random sessions ---------------------------------------------------------------
    let nthreads = workers();
    let seed = args.seed;
    let all: Vec<SessionResult> = std::thread::scope(|s| {
        let hs: Vec<_> = (0..nthreads as u64)
            .map(|t| {
                s.spawn(move || {
                    let mut out = Vec::new();
                    let mut case = t;
                    while case < sessions {
                        out.push(random_session(seed, case, session_len));
                        case += nthreads as u64;
                    }
                    out
                })
            })
            .collect();
        hs.into_iter().flat_map(|h| h.join().expect("session thread")).collect()
    });
    let mut max_retained = i64::MIN;
    for r in all {
        if r.nontrivial {
            rep.case(Some(r.key));
            rep.sample(r.sample);
        } else {
            rep.case(None::<()>);
        }
        merge(&mut rep, &r.counters);
        max_retained = max_retained.max(r.max_retained_beyond_ooo);
        for v in r.viol {
            rep.violation(v.sig, v.what, v.witness);
        }
    }
    rep.extra("random_sessions", json!(sessions));
    rep.extra(
        "max_persisted_past_entries_minus_ooo_window(observation, not judged)",
        json!(if max_retained == i64::MIN { None } else { Some(max_retained) }),
    );
    // The enumeration is a complete sub-space; the property as a whole stays exploration.
    rep.exhaustive = false;
    rep.finish(args);
}
