//! Harness over `p2panda-encryption` (features `test_utils` = data_scheme + message_scheme;
//! `p2panda-core` without `test_utils`, i.e. the wall clock is the real `SystemTime`).
//!
//! C34 message ratchet windows, C35 group data encryption agreement / exclusion, C36 latest group
//! secret, C37 two-party messaging interleavings and replays, C38 key-bundle validity.

mod c34;
mod c35;
mod c36;
mod c37;
mod c38;
mod util;

use vh_common::Args;

fn main() {
    let args = Args::parse();
    match args.prop.as_str() {
        "C34" => c34::run(&args),
        "C35" => c35::run(&args),
        "C36" => c36::run(&args),
        "C37" => c37::run(&args),
        "C38" => c38::run(&args),
        other => panic!("vh-enc does not serve {other}"),
    }
}
