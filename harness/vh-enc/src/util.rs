//! Small helpers shared by the vh-enc monitors.

use p2panda_encryption::Rng as EncRng;
use serde::Serialize;
use vh_common::Rng;

/// The crate's own ChaCha `Rng`, seeded deterministically from the harness PRNG.
pub fn enc_rng(rng: &mut Rng) -> EncRng {
    EncRng::from_seed(rng.array32())
}

pub fn to_json<T: Serialize>(t: &T) -> serde_json::Value {
    serde_json::to_value(t).expect("serialise value through serde")
}

/// Wall clock in whole seconds since the UNIX epoch (the unit the code under test uses).
pub fn now_secs() -> u64 {
    std::time::SystemTime::now()
        .duration_since(std::time::UNIX_EPOCH)
        .expect("clock after epoch")
        .as_secs()
}

/// Number of worker threads for embarrassingly parallel workloads.
pub fn workers() -> usize {
    if cfg!(miri) {
        1
    } else {
        std::thread::available_parallelism().map(|n| n.get()).unwrap_or(4).clamp(1, 12)
    }
}

/// `Secret<32>` from raw bytes (its constructor is crate-private; CBOR byte string of length 32).
pub fn secret32(bytes: [u8; 32]) -> p2panda_encryption::crypto::Secret<32> {
    let mut cbor = vec![0x58u8, 0x20];
    cbor.extend_from_slice(&bytes);
    p2panda_core::cbor::decode_cbor(&cbor[..]).expect("decode Secret<32> from CBOR")
}
