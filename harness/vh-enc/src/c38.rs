//! C38 — expired or invalid key bundles are never accepted or used.
//!
//! Oracle (from the statement): `KeyRegistry::add_{longterm,onetime}_bundle` returns `Ok` only for a
//! bundle whose lifetime is valid now and whose signature verifies; `key_bundle()` never returns a
//! bundle whose lifetime is invalid at return time or whose signature does not verify, and only
//! bundles that were added for that member.
//!
//! "Invalid lifetime" is judged only when it is invalid for the whole duration of the call
//! (wall-clock second read before and after) and never on the boundary seconds `not_before` /
//! `not_after` themselves — the statement does not fix whether the bounds are inclusive.
//!
//! Time: the crate reads the real `SystemTime`. Expiry while a bundle is stored is produced by a
//! real wait (bundles valid for ~2 s, one common 3 s wait for the whole batch) and, in the
//! thorough tier, additionally by an `LD_PRELOAD` shim over `clock_gettime(CLOCK_REALTIME)` that
//! the harness builds with clang and re-executes itself under.

use std::collections::HashMap;
use std::time::Duration;

use p2panda_encryption::crypto::x25519::PublicKey;
use p2panda_encryption::crypto::xeddsa::{XSignature, xeddsa_verify};
use p2panda_encryption::key_bundle::{Lifetime, LongTermKeyBundle, OneTimeKeyBundle, OneTimePreKey, PreKey};
use p2panda_encryption::key_registry::{KeyRegistry, KeyRegistryState};
use p2panda_encryption::test_utils::crypto::SecretKey;
use p2panda_encryption::traits::{KeyBundle, PreKeyRegistry};
use vh_common::{Args, Report, Rng, Tier, Value, catch, hash_of, hex, json, quiet_panics};

use crate::util::{enc_rng, now_secs};

type Id = usize;
type Reg = KeyRegistryState<Id>;

#[derive(Clone, Copy, Debug, PartialEq, Eq, Hash)]
enum SigClass {
    Good,
    SignedByOtherIdentity,
    SignatureOfOtherPrekey,
    BitFlip,
    IdentityKeyReplaced,
}

#[derive(Clone, Debug)]
struct Meta {
    owner: Id,
    not_before: u64,
    not_after: u64,
    sig: SigClass,
    /// Verdict of the crate's own XEdDSA primitive on (prekey, identity key, signature).
    sig_verifies: bool,
    onetime: bool,
}

impl Meta {
    /// Invalid for the whole call (boundary seconds are not judged).
    fn lifetime_invalid(&self, t0: u64, t1: u64) -> bool {
        let inv = |t: u64| t < self.not_before || t > self.not_after;
        inv(t0) && inv(t1)
    }
    fn lifetime_surely_valid(&self, t0: u64, t1: u64) -> bool {
        let ok = |t: u64| self.not_before < t && t < self.not_after;
        ok(t0) && ok(t1)
    }
    fn json(&self) -> Value {
        json!({"owner": self.owner, "not_before": self.not_before, "not_after": self.not_after,
            "signature": format!("{:?}", self.sig), "signature_verifies": self.sig_verifies, "onetime": self.onetime})
    }
}

struct Member {
    identity: SecretKey,
    identity_key: PublicKey,
}

struct Factory {
    erng: p2panda_encryption::Rng,
    next_onetime_id: u64,
}

enum Bundle {
    Long(LongTermKeyBundle),
    One(OneTimeKeyBundle),
}

impl Factory {
    #[allow(clippy::too_many_arguments)]
    fn make(&mut self, rng: &mut Rng, m: &Member, owner: Id, nb: u64, na: u64, sig: SigClass, onetime: bool) -> (Bundle, Meta, [u8; 32]) {
        let prekey_secret = SecretKey::from_bytes(rng.array32());
        let prekey = PreKey::new(prekey_secret.verifying_key().expect("prekey"), Lifetime::from_range(nb, na));
        let other = SecretKey::from_bytes(rng.array32());
        let mut identity_key = m.identity_key;
        let signature: XSignature = match sig {
            SigClass::Good | SigClass::IdentityKeyReplaced => prekey.sign(&m.identity, &self.erng).expect("sign"),
            SigClass::SignedByOtherIdentity => prekey.sign(&other, &self.erng).expect("sign"),
            SigClass::SignatureOfOtherPrekey => {
                let p2 = PreKey::new(other.verifying_key().expect("prekey"), Lifetime::from_range(nb, na));
                p2.sign(&m.identity, &self.erng).expect("sign")
            }
            SigClass::BitFlip => {
                let mut b = prekey.sign(&m.identity, &self.erng).expect("sign").to_bytes();
                let bit = rng.usize_below(512);
                b[bit / 8] ^= 1 << (bit % 8);
                XSignature::from_bytes(b)
            }
        };
        if sig == SigClass::IdentityKeyReplaced {
            identity_key = other.verifying_key().expect("identity");
        }
        let sig_verifies = xeddsa_verify(prekey.as_bytes(), &identity_key, &signature).is_ok();
        let key_bytes = *prekey.as_bytes();
        let meta = Meta { owner, not_before: nb, not_after: na, sig, sig_verifies, onetime };
        let bundle = if onetime {
            let ot = SecretKey::from_bytes(rng.array32());
            let id = self.next_onetime_id;
            self.next_onetime_id += 1;
            Bundle::One(OneTimeKeyBundle::new(identity_key, prekey, signature, Some(OneTimePreKey::new(ot.verifying_key().expect("onetime"), id))))
        } else {
            Bundle::Long(LongTermKeyBundle::new(identity_key, prekey, signature))
        };
        (bundle, meta, key_bytes)
    }
}

#[derive(Default)]
struct Obs {
    adds: u64,
    adds_ok: u64,
    adds_rejected: u64,
    valid_rejected: u64,
    queries: u64,
    returned: u64,
    returned_none_or_err: u64,
    identity_mismatch_panics: u64,
    bitflip_still_verifies: u64,
    expired_while_stored: u64,
    viol: Vec<(&'static str, String, Value)>,
}

/// Add one bundle and judge the registry's decision. Returns whether it was accepted.
fn add(reg: &mut Reg, b: Bundle, meta: &Meta, o: &mut Obs, ctx: &Value) -> bool {
    o.adds += 1;
    let y = reg.clone();
    let t0 = now_secs();
    let res = catch(std::panic::AssertUnwindSafe(|| match b {
        Bundle::Long(b) => KeyRegistry::add_longterm_bundle(y, meta.owner, b),
        Bundle::One(b) => KeyRegistry::add_onetime_bundle(y, meta.owner, b),
    }));
    let t1 = now_secs();
    match res {
        Err(_) => {
            // `assert_eq!` "sanity check" on a differing identity key for a known member.
            o.identity_mismatch_panics += 1;
            false
        }
        Ok(Err(_)) => {
            o.adds_rejected += 1;
            if meta.sig_verifies && meta.sig == SigClass::Good && meta.lifetime_surely_valid(t0, t1) {
                o.valid_rejected += 1;
            }
            false
        }
        Ok(Ok(y_i)) => {
            *reg = y_i;
            o.adds_ok += 1;
            if meta.lifetime_invalid(t0, t1) {
                o.viol.push((
                    "C38:accepted-bundle-with-invalid-lifetime",
                    format!("add_{}_bundle returned Ok for lifetime [{}, {}] at wall clock {t0}", if meta.onetime { "onetime" } else { "longterm" }, meta.not_before, meta.not_after),
                    json!({"context": ctx, "bundle": meta.json(), "wall_clock_before": t0, "wall_clock_after": t1}),
                ));
            }
            // A flipped bit that the primitive ignores (the masked top bit of `s`) leaves a signature
            // that verifies: judged by the primitive's verdict, counted as an observation.
            if meta.sig == SigClass::BitFlip && meta.sig_verifies {
                o.bitflip_still_verifies += 1;
            }
            if !meta.sig_verifies || !matches!(meta.sig, SigClass::Good | SigClass::BitFlip) {
                o.viol.push((
                    "C38:accepted-bundle-with-bad-signature",
                    format!("add_{}_bundle returned Ok for a bundle whose signature is {:?} (primitive says verifies={})", if meta.onetime { "onetime" } else { "longterm" }, meta.sig, meta.sig_verifies),
                    json!({"context": ctx, "bundle": meta.json()}),
                ));
            }
            true
        }
    }
}

/// Query the registry for `id` and judge what comes back.
fn query(reg: &mut Reg, id: Id, onetime: bool, table: &HashMap<[u8; 32], Meta>, o: &mut Obs, ctx: &Value) -> Option<Meta> {
    o.queries += 1;
    let y = reg.clone();
    let t0 = now_secs();
    let got: Option<[u8; 32]> = if onetime {
        let (y_i, b) = <KeyRegistry<Id> as PreKeyRegistry<Id, OneTimeKeyBundle>>::key_bundle(y, &id).expect("infallible");
        *reg = y_i;
        b.map(|b| *b.signed_prekey().as_bytes())
    } else {
        match <KeyRegistry<Id> as PreKeyRegistry<Id, LongTermKeyBundle>>::key_bundle(y, &id) {
            Ok((y_i, b)) => {
                *reg = y_i;
                b.map(|b| *b.signed_prekey().as_bytes())
            }
            Err(_) => None,
        }
    };
    let t1 = now_secs();
    let Some(k) = got else {
        o.returned_none_or_err += 1;
        return None;
    };
    o.returned += 1;
    let kind = if onetime { "onetime" } else { "longterm" };
    let Some(meta) = table.get(&k) else {
        o.viol.push((
            "C38:returned-unknown-bundle",
            format!("key_bundle({id}) returned a {kind} bundle that was never created by the workload"),
            json!({"context": ctx, "prekey": hex(&k)}),
        ));
        return None;
    };
    if meta.owner != id || meta.onetime != onetime {
        o.viol.push((
            "C38:returned-bundle-of-other-member",
            format!("key_bundle({id}) returned a bundle added for member {}", meta.owner),
            json!({"context": ctx, "bundle": meta.json(), "queried": id}),
        ));
    }
    if meta.lifetime_invalid(t0, t1) {
        o.viol.push((
            if onetime { "C38:onetime-bundle-returned-after-expiry" } else { "C38:longterm-bundle-returned-with-invalid-lifetime" },
            format!("key_bundle({id}) returned a {kind} bundle with lifetime [{}, {}] at wall clock {t0}", meta.not_before, meta.not_after),
            json!({"context": ctx, "bundle": meta.json(), "wall_clock_before": t0, "wall_clock_after": t1}),
        ));
    }
    if !meta.sig_verifies {
        o.viol.push((
            "C38:returned-bundle-with-bad-signature",
            format!("key_bundle({id}) returned a {kind} bundle whose signature does not verify"),
            json!({"context": ctx, "bundle": meta.json()}),
        ));
    }
    Some(meta.clone())
}

fn lifetime_class(rng: &mut Rng, now: u64) -> (&'static str, u64, u64) {
    let far = 1 + rng.mag(28);
    match rng.below(12) {
        0 | 1 | 2 => ("valid", now - 10 - rng.mag(24).min(now - 10), now + 10 + far),
        3 => ("expired", now - 10 - far.min(now - 10), now - 2 - rng.below(5)),
        4 => ("expired long ago", 0, now - far.min(now)),
        5 => ("not yet valid", now + 2 + rng.below(5), now + 10 + far),
        6 => ("not_after around now", now - 100, now - 1 + rng.below(3)),
        7 => ("not_before around now", now - 1 + rng.below(3), now + 100),
        8 => ("inverted", now + 50, now - 50),
        9 => ("zero", 0, 0),
        10 => ("everything", 0, u64::MAX),
        _ => ("default-like", now - 3600, now + 60 * 60 * 24 * 28 * 3),
    }
}

fn sig_class(rng: &mut Rng) -> SigClass {
    match rng.below(10) {
        0..=5 => SigClass::Good,
        6 => SigClass::SignedByOtherIdentity,
        7 => SigClass::SignatureOfOtherPrekey,
        8 => SigClass::BitFlip,
        _ => SigClass::IdentityKeyReplaced,
    }
}

fn members(rng: &mut Rng, n: usize) -> Vec<Member> {
    (0..n)
        .map(|_| {
            let identity = SecretKey::from_bytes(rng.array32());
            let identity_key = identity.verifying_key().expect("identity");
            Member { identity, identity_key }
        })
        .collect()
}

/// Part A: static scenarios — random bundles of all lifetime / signature classes, then queries.
fn scenario(rep: &mut Report, seed: u64, case: u64) {
    let mut rng = Rng::fork(seed, case);
    let mut f = Factory { erng: enc_rng(&mut rng), next_onetime_id: 0 };
    let n_members = 1 + rng.usize_below(3);
    let ms = members(&mut rng, n_members);
    let mut reg: Reg = KeyRegistry::init();
    let mut table: HashMap<[u8; 32], Meta> = HashMap::new();
    let mut o = Obs::default();
    let mut plan: Vec<Value> = Vec::new();
    let n = 2 + rng.usize_below(9);
    let mut any_invalid = false;
    for _ in 0..n {
        let owner = rng.usize_below(ms.len());
        let now = now_secs();
        let (label, nb, na) = lifetime_class(&mut rng, now);
        let sig = sig_class(&mut rng);
        let onetime = rng.bool();
        let (b, meta, k) = f.make(&mut rng, &ms[owner], owner, nb, na, sig, onetime);
        plan.push(json!({"lifetime_class": label, "bundle": meta.json()}));
        any_invalid |= sig != SigClass::Good || !matches!(label, "valid" | "everything" | "default-like");
        table.insert(k, meta.clone());
        let ctx = json!({"seed": seed, "part": "static", "case": case, "added_so_far": plan});
        add(&mut reg, b, &meta, &mut o, &ctx);
    }
    // A valid bundle under a different identity key for a known member: recorded, not judged
    // (the registry's `assert_eq!` sanity check panics).
    if rng.chance(0.1) {
        let stranger = &members(&mut rng, 1)[0];
        let now = now_secs();
        let onetime = rng.bool();
        let (b, meta, k) = f.make(&mut rng, stranger, 0, now - 100, now + 1000, SigClass::Good, onetime);
        table.insert(k, meta.clone());
        let ctx = json!({"seed": seed, "part": "static", "case": case, "note": "other identity key for member 0"});
        add(&mut reg, b, &meta, &mut o, &ctx);
    }
    if rng.chance(0.3) {
        reg = KeyRegistry::remove_expired(reg);
    }
    let ctx = json!({"seed": seed, "part": "static", "case": case, "added": plan});
    let mut returned_valid = 0;
    for id in 0..ms.len() {
        // Long-term: one query (non-consuming); one-time: pop until exhausted.
        if query(&mut reg, id, false, &table, &mut o, &ctx).is_some() {
            returned_valid += 1;
        }
        for _ in 0..(n + 2) {
            if query(&mut reg, id, true, &table, &mut o, &ctx).is_none() {
                break;
            }
            returned_valid += 1;
        }
    }
    finish_case(rep, o, any_invalid && returned_valid > 0, hash_of(&format!("{plan:?}")), || json!({"part": "static", "case": case, "added": plan}));
}

fn finish_case(rep: &mut Report, o: Obs, nontrivial: bool, key: u64, sample: impl FnOnce() -> Value) {
    if nontrivial {
        rep.case(Some(key));
        if rep.want_sample() {
            rep.sample(sample());
        }
    } else {
        rep.case(None::<()>);
    }
    rep.bump("add_calls", o.adds);
    rep.bump("add_ok", o.adds_ok);
    rep.bump("add_rejected", o.adds_rejected);
    rep.bump("valid_bundle_rejected(observation, not judged)", o.valid_rejected);
    rep.bump("key_bundle_calls", o.queries);
    rep.bump("key_bundle_returned_some", o.returned);
    rep.bump("key_bundle_returned_none_or_err", o.returned_none_or_err);
    rep.bump("identity_key_mismatch_panics(assert_eq sanity check, observation)", o.identity_mismatch_panics);
    rep.bump("bit_flipped_signature_still_verifies_by_primitive(malleable bit, observation)", o.bitflip_still_verifies);
    rep.bump("bundles_that_expired_while_stored", o.expired_while_stored);
    for (sig, what, w) in o.viol {
        rep.violation(sig, what, w);
    }
}

/// One stored-expiry case: what is added before the time passes.
struct Stored {
    case: u64,
    reg: Reg,
    table: HashMap<[u8; 32], Meta>,
    o: Obs,
    plan: Vec<Value>,
    short_accepted: u64,
    members: usize,
    deadline: u64,
}

fn stored_setup(seed: u64, case: u64, short_not_after: u64, part: &str) -> Stored {
    let mut rng = Rng::fork(seed ^ 0x0038_000B, case);
    let mut f = Factory { erng: enc_rng(&mut rng), next_onetime_id: 0 };
    let n_members = 1 + rng.usize_below(2);
    let ms = members(&mut rng, n_members);
    let mut reg: Reg = KeyRegistry::init();
    let mut table = HashMap::new();
    let mut o = Obs::default();
    let mut plan = Vec::new();
    let mut short_accepted = 0;
    let n = 1 + rng.usize_below(5);
    // Positions of the short-lived bundles: first, last (popped first) or mixed.
    for i in 0..n {
        let owner = rng.usize_below(ms.len());
        let now = now_secs();
        let short = match rng.below(3) {
            0 => i == n - 1,
            1 => i == 0,
            _ => rng.bool(),
        } || n == 1;
        let (nb, na) = if short { (now - 3600, short_not_after) } else { (now - 3600, now + 1_000_000 + rng.below(1000)) };
        let onetime = rng.chance(0.7);
        let (b, meta, k) = f.make(&mut rng, &ms[owner], owner, nb, na, SigClass::Good, onetime);
        plan.push(json!({"short_lived": short, "bundle": meta.json()}));
        table.insert(k, meta.clone());
        let ctx = json!({"seed": seed, "part": part, "case": case, "added_so_far": plan});
        if add(&mut reg, b, &meta, &mut o, &ctx) && short {
            short_accepted += 1;
        }
    }
    Stored { case, reg, table, o, plan, short_accepted, members: ms.len(), deadline: short_not_after }
}

fn stored_query(rep: &mut Report, seed: u64, mut s: Stored, part: &str) {
    let now = now_secs();
    let passed = now > s.deadline;
    let ctx = json!({"seed": seed, "part": part, "case": s.case, "added": s.plan, "queried_at": now,
        "short_lived_not_after": s.deadline});
    if passed {
        s.o.expired_while_stored += s.short_accepted;
    }
    let total = s.plan.len();
    for id in 0..s.members {
        query(&mut s.reg, id, false, &s.table, &mut s.o, &ctx);
        for _ in 0..(total + 2) {
            if query(&mut s.reg, id, true, &s.table, &mut s.o, &ctx).is_none() {
                break;
            }
        }
    }
    let plan = s.plan;
    let case = s.case;
    finish_case(rep, s.o, passed && s.short_accepted > 0, hash_of(&(part, format!("{plan:?}"))), || {
        json!({"part": part, "case": case, "added": plan, "short_lived_not_after": s.deadline, "queried_at": now})
    });
}

/// Part B: bundles valid for ~2 s are stored, one common real wait, then the queries.
fn part_real_wait(rep: &mut Report, seed: u64, cases: u64) {
    // Start right after a second boundary so that the whole set-up fits before `not_after`.
    let s0 = now_secs();
    while now_secs() == s0 {
        std::thread::sleep(Duration::from_millis(5));
    }
    let start = now_secs();
    let short_not_after = start + 2;
    let mut stored: Vec<Stored> = Vec::new();
    for case in 0..cases {
        if now_secs() >= short_not_after {
            rep.extra("real_wait_cases_cut_short", json!(cases - case));
            break;
        }
        stored.push(stored_setup(seed, case, short_not_after, "real-wait"));
    }
    // Wait until the wall clock is strictly past not_after.
    let mut guard = 0;
    while now_secs() <= short_not_after && guard < 200 {
        std::thread::sleep(Duration::from_millis(100));
        guard += 1;
    }
    std::thread::sleep(Duration::from_millis(150));
    rep.extra("real_wait_s", json!(now_secs() - start));
    for s in stored {
        stored_query(rep, seed, s, "real-wait");
    }
}

// ---------------------------------------------------------------------------------------------
// Clock shim (thorough tier): LD_PRELOAD library offsetting clock_gettime(CLOCK_REALTIME).
// ---------------------------------------------------------------------------------------------

const SHIM_C: &str = r#"
#define _GNU_SOURCE
#include <time.h>
#include <dlfcn.h>
#include <stdint.h>
static volatile int64_t vh_off = 0;
void vh_clock_offset_set(int64_t s) { vh_off = s; }
int64_t vh_clock_offset_get(void) { return vh_off; }
int clock_gettime(clockid_t id, struct timespec *ts) {
    static int (*real)(clockid_t, struct timespec *) = 0;
    if (!real) real = (int (*)(clockid_t, struct timespec *))dlsym(RTLD_NEXT, "clock_gettime");
    int r = real(id, ts);
    if (r == 0 && id == CLOCK_REALTIME) ts->tv_sec += vh_off;
    return r;
}
"#;

fn shim_setter() -> Option<extern "C" fn(i64)> {
    // SAFETY: dlsym on the global scope with a NUL-terminated name; the symbol, if present, is the
    // shim's `void vh_clock_offset_set(int64_t)`.
    unsafe {
        let p = libc::dlsym(libc::RTLD_DEFAULT, c"vh_clock_offset_set".as_ptr());
        if p.is_null() { None } else { Some(std::mem::transmute::<*mut libc::c_void, extern "C" fn(i64)>(p)) }
    }
}

/// Child side: runs under the shim. Bundles are stored, the clock is moved, the registry queried.
fn part_shim_child(rep: &mut Report, seed: u64, cases: u64, set: extern "C" fn(i64)) {
    // Does the shim really move the crate's clock?
    let before = now_secs();
    set(1000);
    let moved = now_secs();
    set(0);
    if moved < before + 999 {
        rep.inconclusive("clock shim loaded but SystemTime::now() did not move");
        return;
    }
    let mut offset: i64 = 0;
    for case in 0..cases {
        let mut rng = Rng::fork(seed ^ 0x5417, case);
        let validity = 2 + rng.below(100_000);
        let s = stored_setup(seed ^ 0x5417, case, now_secs() + validity, "clock-shim");
        // Move the clock forward past the short-lived bundles (or, sometimes, not quite).
        let jump = match rng.below(6) {
            0 => validity - 1,         // boundary second - 1: still valid
            1 => validity,             // boundary second: not judged
            2 => validity + 1,
            3 => validity + 2 + rng.mag(30),
            4 => validity + 86_400 * 365,
            _ => validity + 1 + rng.below(10),
        };
        offset += jump as i64;
        set(offset);
        stored_query(rep, seed, s, "clock-shim");
        // Sometimes step the clock back again (bundles that were valid stay acceptable).
        if rng.chance(0.2) {
            offset -= (jump / 2) as i64;
            set(offset);
        }
    }
    set(0);
    rep.extra("clock_shim_total_offset_s", json!(offset));
}

/// Parent side: build the shim, re-execute this binary under it, fold the child's record in.
fn part_shim_parent(rep: &mut Report, args: &Args) {
    let fail = |rep: &mut Report, why: String| rep.extra("clock_shim", json!(format!("not used: {why}")));
    let exe = match std::env::current_exe() {
        Ok(e) => e,
        Err(e) => return fail(rep, format!("current_exe: {e}")),
    };
    let dir = exe.parent().map(|p| p.to_path_buf()).unwrap_or_else(std::env::temp_dir);
    let c_path = dir.join("vh_clock_shim.c");
    let so_path = dir.join("vh_clock_shim.so");
    if let Err(e) = std::fs::write(&c_path, SHIM_C) {
        return fail(rep, format!("write shim source: {e}"));
    }
    match std::process::Command::new("clang").args(["-shared", "-fPIC", "-O1", "-o"]).arg(&so_path).arg(&c_path).arg("-ldl").output() {
        Ok(o) if o.status.success() => {}
        Ok(o) => return fail(rep, format!("clang failed: {}", String::from_utf8_lossy(&o.stderr))),
        Err(e) => return fail(rep, format!("clang not runnable: {e}")),
    }
    let out = dir.join(format!("vh_clock_shim_child_{}.json", std::process::id()));
    let status = std::process::Command::new(&exe)
        .arg("C38")
        .args(["--tier", "thorough", "--seed", &args.seed.to_string(), "--scale", &args.scale.to_string(), "--out"])
        .arg(&out)
        .arg("shim_child=1")
        .env("LD_PRELOAD", &so_path)
        .status();
    match status {
        Ok(s) if s.success() => {}
        Ok(s) => return fail(rep, format!("child exited with {s}")),
        Err(e) => return fail(rep, format!("cannot spawn child: {e}")),
    }
    let child: Value = match std::fs::read_to_string(&out).ok().and_then(|s| serde_json::from_str(&s).ok()) {
        Some(v) => v,
        None => return fail(rep, "child record unreadable".into()),
    };
    let _ = std::fs::remove_file(&out);
    // Fold the child's observations in.
    let n_cases = child["evaluations"].as_u64().unwrap_or(0);
    let n_distinct = child["distinct_nontrivial"].as_u64().unwrap_or(0);
    for i in 0..n_cases {
        if i < n_distinct {
            rep.case(Some(("clock-shim-child", i)));
        } else {
            rep.case(None::<()>);
        }
    }
    if let Some(extra) = child["extra"].as_object() {
        let mut shim_obs = serde_json::Map::new();
        for (k, v) in extra {
            shim_obs.insert(k.clone(), v.clone());
        }
        rep.extra("clock_shim_child_observed", Value::Object(shim_obs));
    }
    for w in child["inconclusive"].as_array().cloned().unwrap_or_default() {
        rep.extra("clock_shim", json!(format!("child inconclusive: {w}")));
    }
    let counts = child["violation_counts"].as_object().cloned().unwrap_or_default();
    let mut seen: HashMap<String, u64> = HashMap::new();
    for v in child["violations"].as_array().cloned().unwrap_or_default() {
        let sig = v["signature"].as_str().unwrap_or("C38:?").to_string();
        let first = !seen.contains_key(&sig);
        *seen.entry(sig.clone()).or_insert(0) += 1;
        rep.violation(&sig, v["what"].as_str().unwrap_or("").to_string(), v["witness"].clone());
        if first {
            // Keep the child's per-signature totals.
            let total = counts.get(&sig).and_then(|n| n.as_u64()).unwrap_or(1);
            rep.extra(&format!("clock_shim_child_violations[{sig}]"), json!(total));
        }
    }
    if let Some(s) = child["samples"].as_array().and_then(|a| a.first()) {
        rep.sample(s.clone());
    }
    rep.extra("clock_shim", json!("used: child re-executed under LD_PRELOAD"));
}

pub fn run(args: &Args) {
    quiet_panics();
    let seed = args.seed;
    if args.param("shim_child").is_some() {
        let mut rep = Report::new(args, "clock-shim child (folded into the parent's record)", 0);
        match shim_setter() {
            Some(set) => part_shim_child(&mut rep, seed, args.n(200, 10_000), set),
            None => rep.inconclusive("clock shim symbol not found in child"),
        }
        rep.finish(args);
        return;
    }
    let scenarios = args.n(400, 20_000);
    let waits = args.n(48, 500);
    let mut rep = Report::new(
        args,
        &format!(
            "part A: {scenarios} registries of 1-3 members with 2-10 long-term / one-time bundles whose lifetimes are \
             valid, expired, not yet valid, around now (+-1 s), inverted, zero or unbounded and whose signatures are good, \
             made by another identity, made for another pre-key, bit-flipped, or whose identity key was replaced; every \
             add and every key_bundle() result (one-time popped until exhausted) is judged; non-trivial = the registry \
             was offered at least one invalid bundle and returned at least one bundle; part B: {waits} registries that \
             store bundles valid for ~2 s (first / last / mixed among long-lived ones), one common real wait of ~3 s, then \
             the queries; non-trivial = a short-lived bundle was accepted and the wall clock passed its not_after before \
             the query{}",
            if args.tier == Tier::Thorough { "; part C (thorough): the same stored-expiry cases under an LD_PRELOAD clock_gettime shim, 10^4 clock jumps" } else { "" }
        ),
        (scenarios / 4 + waits / 2).max(20),
    );
    for case in 0..scenarios {
        scenario(&mut rep, seed, case);
    }
    part_real_wait(&mut rep, seed, waits);
    if args.tier == Tier::Thorough {
        part_shim_parent(&mut rep, args);
    }
    rep.finish(args);
}
