//! C37 — two-party messaging decrypts in any interleaving and rejects replays.
//!
//! Workload: the repository's own fuzz target `fuzz/fuzz_targets/groups_2sm.rs` (Alice and Bob,
//! random send/receive actions, per-direction FIFO inboxes) for the one-time and the long-term
//! pre-key variant, extended with replays: any already processed message is processed again on a
//! clone of the receiver's current state (2SM state and key manager are pure values).
//!
//! Oracle (from the statement): every message processed in send order per direction decrypts to
//! exactly its plaintext; processing an already processed message again returns `Err`. The replay
//! requirement is judged for the one-time variant (all messages) and for every HPKE round of both
//! variants. A replay of the first X3DH message under *long-term* pre-keys decrypts again by
//! documented design and is only recorded (DESIGN.md §1 C37).

use std::collections::VecDeque;

use p2panda_encryption::key_bundle::{Lifetime, LongTermKeyBundle, OneTimeKeyBundle};
use p2panda_encryption::key_manager::{KeyManager, KeyManagerState};
use p2panda_encryption::test_utils::crypto::SecretKey;
use p2panda_encryption::traits::{KeyBundle, PreKeyManager};
use p2panda_encryption::two_party::{TwoParty, TwoPartyMessage, TwoPartyState};
use vh_common::{Args, Report, Rng, Value, catch, hash_of, hex, json, quiet_panics};

use crate::util::{enc_rng, to_json, workers};

struct Msg {
    plaintext: Vec<u8>,
    wire: TwoPartyMessage,
    is_prekey: bool,
    /// Index in the sender's direction.
    n: usize,
}

#[derive(Default, Clone)]
struct Counters {
    sent: u64,
    delivered: u64,
    x3dh_delivered: u64,
    hpke_delivered: u64,
    replays_judged: u64,
    replays_rejected: u64,
    longterm_x3dh_replays_recorded: u64,
    longterm_x3dh_replays_accepted: u64,
    replay_panics: u64,
    crossings: u64,
    send_refused_before_first_receive: u64,
}

struct Viol {
    sig: &'static str,
    what: String,
    witness: Value,
}

struct SessionResult {
    key: u64,
    nontrivial: bool,
    c: Counters,
    viol: Vec<Viol>,
    sample: Value,
    note: Option<String>,
}

struct Party<KB: KeyBundle> {
    name: &'static str,
    y: Option<TwoPartyState<KB>>,
    mgr: Option<KeyManagerState>,
    inbox: VecDeque<Msg>,
    processed: Vec<Msg>,
    sent: usize,
}

fn is_prekey(m: &TwoPartyMessage) -> bool {
    to_json(m).get("key_used").map(|k| k == "PreKey").unwrap_or(false)
}

trait Variant: KeyBundle + Clone + 'static {
    const NAME: &'static str;
    const ONE_TIME: bool;
    fn bundle(mgr: KeyManagerState, rng: &p2panda_encryption::Rng) -> (KeyManagerState, Self);
}

impl Variant for OneTimeKeyBundle {
    const NAME: &'static str = "one-time";
    const ONE_TIME: bool = true;
    fn bundle(mgr: KeyManagerState, rng: &p2panda_encryption::Rng) -> (KeyManagerState, Self) {
        KeyManager::generate_onetime_bundle(mgr, rng).expect("one-time bundle")
    }
}

impl Variant for LongTermKeyBundle {
    const NAME: &'static str = "long-term";
    const ONE_TIME: bool = false;
    fn bundle(mgr: KeyManagerState, _rng: &p2panda_encryption::Rng) -> (KeyManagerState, Self) {
        let b = KeyManager::prekey_bundle(&mgr).expect("long-term bundle");
        (mgr, b)
    }
}

fn session<KB: Variant>(seed: u64, case: u64, max_actions: usize) -> SessionResult {
    let mut rng = Rng::fork(seed, case);
    let erng = enc_rng(&mut rng);
    let mut c = Counters::default();
    let mut viol: Vec<Viol> = Vec::new();
    let mut trace: Vec<String> = Vec::new();

    let mk = |rng: &mut Rng| {
        let id = SecretKey::from_bytes(rng.array32());
        KeyManager::init_and_generate_prekey(&id, Lifetime::default(), &erng).expect("key manager")
    };
    let a_mgr = mk(&mut rng);
    let b_mgr = mk(&mut rng);
    let (a_mgr, a_bundle) = KB::bundle(a_mgr, &erng);
    let (b_mgr, b_bundle) = KB::bundle(b_mgr, &erng);

    // Either both sides may start (as in the fuzz target) or Bob only answers.
    let bob_answers_only = rng.chance(0.3);
    let mut parties = [
        Party::<KB> {
            name: "alice",
            y: Some(TwoParty::<KeyManager, KB>::init_to_send(b_bundle)),
            mgr: Some(a_mgr),
            inbox: VecDeque::new(),
            processed: Vec::new(),
            sent: 0,
        },
        Party::<KB> {
            name: "bob",
            y: Some(if bob_answers_only {
                TwoParty::<KeyManager, KB>::init_to_receive()
            } else {
                TwoParty::<KeyManager, KB>::init_to_send(a_bundle)
            }),
            mgr: Some(b_mgr),
            inbox: VecDeque::new(),
            processed: Vec::new(),
            sent: 0,
        },
    ];

    let actions = 4 + rng.usize_below(max_actions - 3);
    let p_replay = *rng.pick(&[0.1, 0.25, 0.5]);
    let ctx = |trace: &Vec<String>| json!({"seed": seed, "case": case, "variant": KB::NAME, "bob_answers_only": bob_answers_only, "actions": trace});
    let mut dead = false;

    // Replay message `idx` of `who`'s processed list on a clone of the current state.
    let replay = |parties: &[Party<KB>; 2], who: usize, idx: usize, c: &mut Counters, viol: &mut Vec<Viol>, trace: &mut Vec<String>| {
        let p = &parties[who];
        let m = &p.processed[idx];
        trace.push(format!("{} replays #{}{}", p.name, m.n, if m.is_prekey { " (x3dh)" } else { "" }));
        let y = p.y.clone().expect("state");
        let mgr = p.mgr.clone().expect("manager");
        let wire = m.wire.clone();
        let res = catch(std::panic::AssertUnwindSafe(|| TwoParty::<KeyManager, KB>::receive(y, mgr, wire)));
        let judged = KB::ONE_TIME || !m.is_prekey;
        if judged {
            c.replays_judged += 1;
        } else {
            c.longterm_x3dh_replays_recorded += 1;
        }
        match res {
            Err(_) => {
                c.replay_panics += 1;
                if judged {
                    c.replays_rejected += 1;
                }
            }
            Ok(Err(_)) => {
                if judged {
                    c.replays_rejected += 1;
                }
            }
            Ok(Ok((_, _, plain))) => {
                if judged {
                    viol.push(Viol {
                        sig: if m.is_prekey { "C37:replayed-x3dh-message-accepted" } else { "C37:replayed-hpke-message-accepted" },
                        what: format!(
                            "{} ({} pre-keys) processed its already processed message #{} again and got Ok ({} bytes, {} the original plaintext)",
                            p.name, KB::NAME, m.n, plain.len(), if plain == m.plaintext { "equal to" } else { "different from" }
                        ),
                        witness: json!({"context": ctx(trace), "receiver": p.name, "message_index": m.n, "x3dh": m.is_prekey,
                            "processed_so_far": p.processed.len(), "message": to_json(&m.wire)}),
                    });
                } else {
                    c.longterm_x3dh_replays_accepted += 1;
                }
            }
        }
    };

    for step in 0..(actions + 1) {
        if dead || viol.len() > 3 {
            break;
        }
        let draining = step == actions;
        let mut todo: Vec<u64> = if draining {
            // Deliver everything still in flight, in send order per direction, randomly interleaved.
            let mut v: Vec<u64> = Vec::new();
            v.extend(std::iter::repeat_n(2, parties[0].inbox.len()));
            v.extend(std::iter::repeat_n(3, parties[1].inbox.len()));
            rng.shuffle(&mut v);
            v
        } else {
            vec![rng.below(4)]
        };
        for action in todo.drain(..) {
            match action {
                0 | 1 => {
                    let s = action as usize;
                    let r = 1 - s;
                    let plaintext = {
                        let n = rng.usize_below(65);
                        rng.bytes(n)
                    };
                    let y = parties[s].y.take().expect("state");
                    let backup = y.clone();
                    match TwoParty::<KeyManager, KB>::send(y, parties[s].mgr.as_ref().expect("manager"), &plaintext, &erng) {
                        Ok((y_i, wire)) => {
                            parties[s].y = Some(y_i);
                            if !parties[s].inbox.is_empty() {
                                c.crossings += 1;
                            }
                            let n = parties[s].sent;
                            parties[s].sent += 1;
                            c.sent += 1;
                            let pk = is_prekey(&wire);
                            trace.push(format!("{} sends #{n} ({} bytes{})", parties[s].name, plaintext.len(), if pk { ", x3dh" } else { "" }));
                            parties[r].inbox.push_back(Msg { plaintext, wire, is_prekey: pk, n });
                        }
                        Err(err) => {
                            parties[s].y = Some(backup);
                            if s == 1 && bob_answers_only && parties[1].processed.is_empty() {
                                // Expected: a responder without a bundle cannot start the session.
                                c.send_refused_before_first_receive += 1;
                                trace.push("bob cannot send yet".into());
                            } else {
                                viol.push(Viol {
                                    sig: "C37:send-failed",
                                    what: format!("{} could not send its message #{}: {err}", parties[s].name, parties[s].sent),
                                    witness: json!({"context": ctx(&trace), "error": err.to_string()}),
                                });
                                dead = true;
                            }
                        }
                    }
                }
                _ => {
                    let r = (action - 2) as usize;
                    let Some(m) = parties[r].inbox.pop_front() else {
                        continue;
                    };
                    trace.push(format!("{} receives #{}", parties[r].name, m.n));
                    let y = parties[r].y.take().expect("state");
                    let mgr = parties[r].mgr.take().expect("manager");
                    let (y_bak, mgr_bak) = (y.clone(), mgr.clone());
                    let wire = m.wire.clone();
                    let res = catch(std::panic::AssertUnwindSafe(|| TwoParty::<KeyManager, KB>::receive(y, mgr, wire)));
                    match res {
                        Ok(Ok((y_i, mgr_i, plain))) => {
                            parties[r].y = Some(y_i);
                            parties[r].mgr = Some(mgr_i);
                            c.delivered += 1;
                            if m.is_prekey {
                                c.x3dh_delivered += 1;
                            } else {
                                c.hpke_delivered += 1;
                            }
                            if plain != m.plaintext {
                                viol.push(Viol {
                                    sig: "C37:wrong-plaintext",
                                    what: format!("{} decrypted message #{} to a different plaintext", parties[r].name, m.n),
                                    witness: json!({"context": ctx(&trace), "expected": hex(&m.plaintext), "got": hex(&plain)}),
                                });
                            }
                            parties[r].processed.push(m);
                            // Replays: immediately and / or of any older message.
                            if rng.chance(p_replay) {
                                let idx = parties[r].processed.len() - 1;
                                replay(&parties, r, idx, &mut c, &mut viol, &mut trace);
                            }
                            if rng.chance(p_replay) {
                                let idx = rng.usize_below(parties[r].processed.len());
                                replay(&parties, r, idx, &mut c, &mut viol, &mut trace);
                            }
                        }
                        other => {
                            parties[r].y = Some(y_bak);
                            parties[r].mgr = Some(mgr_bak);
                            let why = match other {
                                Ok(Err(e)) => format!("error: {e}"),
                                Err(p) => format!("panic: {p}"),
                                Ok(Ok(_)) => unreachable!(),
                            };
                            viol.push(Viol {
                                sig: "C37:in-order-message-failed",
                                what: format!("{} could not decrypt message #{} although it was processed in send order ({why})", parties[r].name, m.n),
                                witness: json!({"context": ctx(&trace), "failure": why, "x3dh": m.is_prekey}),
                            });
                            dead = true;
                        }
                    }
                }
            }
            if dead {
                break;
            }
        }
        // Occasionally replay at a random moment (also after the receiver itself has sent).
        if !dead && !draining && rng.chance(p_replay / 2.0) {
            let who = rng.usize_below(2);
            if !parties[who].processed.is_empty() {
                let idx = rng.usize_below(parties[who].processed.len());
                replay(&parties, who, idx, &mut c, &mut viol, &mut trace);
            }
        }
    }
    // At the end every processed message is replayed once more against the final state.
    if !dead {
        for who in 0..2 {
            for idx in 0..parties[who].processed.len() {
                if viol.len() > 3 {
                    break;
                }
                replay(&parties, who, idx, &mut c, &mut viol, &mut trace);
            }
        }
    }
    let both_directions = !parties[0].processed.is_empty() && !parties[1].processed.is_empty();
    let nontrivial = both_directions && c.replays_judged > 0 && c.hpke_delivered > 0;
    let sample = json!({"case": case, "variant": KB::NAME, "bob_answers_only": bob_answers_only,
        "sent": c.sent, "delivered": c.delivered, "crossings": c.crossings, "replays_judged": c.replays_judged,
        "first_actions": trace.iter().take(30).collect::<Vec<_>>()});
    SessionResult {
        key: hash_of(&(KB::NAME, bob_answers_only, &trace)),
        nontrivial,
        c,
        viol,
        sample,
        note: None,
    }
}

pub fn run(args: &Args) {
    quiet_panics();
    let sessions = args.n(300, 30_000);
    let max_actions: usize = 96;
    let mut rep = Report::new(
        args,
        &format!(
            "{sessions} sessions between two parties (half with one-time, half with long-term pre-key bundles; 30% with a \
             responder that may only answer), each 4..={max_actions} random actions (A sends, B sends, A receives next, B \
             receives next; FIFO per direction) followed by a drain, plaintexts of 0-64 random bytes; after a receive \
             and at random moments an already processed message is re-processed on a clone of the current state, and \
             every processed message once more at the end; non-trivial = messages were delivered in both directions, \
             at least one HPKE round happened and at least one replay was judged; distinct = hash of the action trace"
        ),
        (sessions / 3).max(20),
    );
    let seed = args.seed;
    let nthreads = workers();
    let all: Vec<SessionResult> = std::thread::scope(|s| {
        let hs: Vec<_> = (0..nthreads as u64)
            .map(|t| {
                s.spawn(move || {
                    let mut out = Vec::new();
                    let mut case = t;
                    while case < sessions {
                        out.push(if case % 2 == 0 {
                            session::<OneTimeKeyBundle>(seed, case, max_actions)
                        } else {
                            session::<LongTermKeyBundle>(seed, case, max_actions)
                        });
                        case += nthreads as u64;
                    }
                    out
                })
            })
            .collect();
        hs.into_iter().flat_map(|h| h.join().expect("session thread")).collect()
    });
    for r in all {
        if r.nontrivial {
            rep.case(Some(r.key));
            rep.sample(r.sample);
        } else {
            rep.case(None::<()>);
        }
        let c = &r.c;
        rep.bump("messages_sent", c.sent);
        rep.bump("messages_delivered_in_order", c.delivered);
        rep.bump("x3dh_messages_delivered", c.x3dh_delivered);
        rep.bump("hpke_messages_delivered", c.hpke_delivered);
        rep.bump("sends_while_own_inbox_non_empty(crossing messages)", c.crossings);
        rep.bump("replays_judged", c.replays_judged);
        rep.bump("replays_rejected", c.replays_rejected);
        rep.bump("replay_panics(counted as rejected, observation)", c.replay_panics);
        rep.bump("longterm_first_x3dh_replays(recorded, not judged)", c.longterm_x3dh_replays_recorded);
        rep.bump("longterm_first_x3dh_replays_that_decrypted_again(by documented design)", c.longterm_x3dh_replays_accepted);
        rep.bump("responder_send_refused_before_first_receive(expected)", c.send_refused_before_first_receive);
        if let Some(n) = r.note {
            rep.inconclusive(n);
        }
        for v in r.viol {
            rep.violation(v.sig, v.what, v.witness);
        }
    }
    rep.finish(args);
}
