//! Shared machinery for C39: test peers (the crate's own `test_utils`), a global message log,
//! delivery of a message through the real `Manager::process` under `catch_unwind`, and canonical
//! digests of everything a peer persists (groups state, every space state, key registry, pre-key
//! secrets) plus what the public API reports (`Space::members`, `Group::members`).

use std::borrow::Borrow;
use std::cell::RefCell;
use std::collections::{BTreeMap, HashMap, HashSet};
use std::panic::AssertUnwindSafe;
use std::time::Duration;

use ciborium::Value as Cbor;
use futures_util::FutureExt;
use p2panda_core::{Hash, Header, Operation, SigningKey};
use p2panda_encryption::Rng as CryptoRng;
use p2panda_spaces::test_utils::{TestOperation, TestPeer, TestSpacesStore};
use p2panda_spaces::{AuthMessage, Config, Credentials, Event, SpacesArgs};
use p2panda_store::Transaction;
use p2panda_store::groups::GroupsStore;
use p2panda_store::key_registry::KeyRegistryStore;
use p2panda_store::key_secrets::KeySecretsStore;
use p2panda_store::spaces::SpacesStore;
use vh_common::{Rng, Value, hex, json};

pub type Msg = TestOperation;
pub type Args = SpacesArgs<()>;

/// Same constant as `p2panda-spaces/src/manager.rs` (`GLOBAL_GROUPS_CONTEXT_ID`); it names the row
/// the manager persists the shared auth state under.
const GLOBAL_GROUPS_CONTEXT_ID: &[u8] = b"global-groups-context";

// ---------------------------------------------------------------------------------------------
// Panic capture: message + location of the last panic on this thread.
// ---------------------------------------------------------------------------------------------

/// Set by `case=N` replays: samples then carry the complete trace.
pub static FULL_TRACE: std::sync::atomic::AtomicBool = std::sync::atomic::AtomicBool::new(false);

/// `--tier .. big=.. hostile_per_case=..` of this run, for replay hints in witnesses.
pub static RUN_PARAMS: std::sync::OnceLock<String> = std::sync::OnceLock::new();

pub fn replay_hint(seed: u64, stage: &str, case: u64) -> String {
    format!(
        "vh-spaces C39 {} --seed {seed} stage={stage} case={case}   (re-runs exactly this case; sample carries the full trace)",
        RUN_PARAMS.get().map(|s| s.as_str()).unwrap_or("")
    )
}

thread_local! {
    static LAST_PANIC: RefCell<Option<(String, String)>> = const { RefCell::new(None) };
}

pub fn install_panic_hook() {
    std::panic::set_hook(Box::new(|info| {
        let msg = if let Some(s) = info.payload().downcast_ref::<&str>() {
            s.to_string()
        } else if let Some(s) = info.payload().downcast_ref::<String>() {
            s.clone()
        } else {
            "panic (non-string payload)".to_string()
        };
        let loc = info
            .location()
            .map(|l| format!("{}:{}", l.file(), l.line()))
            .unwrap_or_default();
        LAST_PANIC.with(|p| *p.borrow_mut() = Some((msg, loc)));
    }));
}

fn take_panic() -> (String, String) {
    LAST_PANIC
        .with(|p| p.borrow_mut().take())
        .unwrap_or_else(|| ("panic".into(), String::new()))
}

/// Stable slug of a panic message: words without digits, first six.
pub fn slug(msg: &str) -> String {
    let words: Vec<String> = msg
        .split(|c: char| !c.is_ascii_alphanumeric())
        .filter(|w| !w.is_empty() && !w.chars().any(|c| c.is_ascii_digit()))
        .take(6)
        .map(|w| w.to_ascii_lowercase())
        .collect();
    if words.is_empty() { "panic".into() } else { words.join("-") }
}

// ---------------------------------------------------------------------------------------------
// Message helpers
// ---------------------------------------------------------------------------------------------

pub fn args_of(m: &Msg) -> &Args {
    m.borrow()
}

/// Variant name, used in signatures.
pub fn kind(a: &Args) -> &'static str {
    match a {
        SpacesArgs::KeyBundle { .. } => "KeyBundle",
        SpacesArgs::Auth { .. } => "Auth",
        SpacesArgs::SpaceMembership { .. } => "SpaceMembership",
        SpacesArgs::SpaceUpdate { .. } => "SpaceUpdate",
        SpacesArgs::Application { .. } => "Application",
    }
}

pub fn action_kind(a: &Args) -> Option<&'static str> {
    use p2panda_auth::group::GroupAction as A;
    match a {
        SpacesArgs::Auth { group_action, .. } => Some(match group_action {
            A::Create { .. } => "Create",
            A::Add { .. } => "Add",
            A::Remove { .. } => "Remove",
            A::Promote { .. } => "Promote",
            A::Demote { .. } => "Demote",
        }),
        _ => None,
    }
}

pub fn args_cbor_hex(a: &Args) -> String {
    let mut v = Vec::new();
    let _ = ciborium::ser::into_writer(a, &mut v);
    if v.len() > 6000 {
        format!("{}..(+{} bytes)", hex(&v[..6000]), v.len() - 6000)
    } else {
        hex(&v)
    }
}

pub fn short(h: &Hash) -> String {
    h.to_hex()[..10].to_string()
}

/// Forge a signed operation carrying `args` (same shape as the crate's `TestForge`, but for any key
/// and without touching a store).
pub fn forge(sk: &SigningKey, seq_num: u32, backlink: Option<Hash>, args: Args) -> Msg {
    let mut header = Header {
        version: 1,
        verifying_key: sk.verifying_key(),
        signature: None,
        payload_size: 0,
        payload_hash: None,
        seq_num,
        backlink,
        extensions: args,
    };
    header.sign(sk);
    let hash = header.hash();
    Operation {
        hash,
        header,
        body: None,
    }
}

// ---------------------------------------------------------------------------------------------
// Peers
// ---------------------------------------------------------------------------------------------

#[derive(Clone, Debug)]
#[allow(dead_code)] // the error class is shown through Debug in traces
pub enum First {
    Ok,
    Err(String),
    Panic,
}

pub struct Peer {
    #[allow(dead_code)]
    pub idx: usize,
    pub tp: TestPeer,
    pub sstore: TestSpacesStore,
    /// Next index of the global log to deliver.
    pub cursor: usize,
    /// Outcome of the first `Manager::process` call per message id.
    pub first: HashMap<Hash, First>,
    /// Messages processed once and not yet re-delivered (log indices).
    pub pending_redelivery: Vec<usize>,
    pub redelivered: HashSet<Hash>,
}

impl Peer {
    /// `rotate`: the peer rotates its pre-key on every `key_bundle_message()` (rotation window far
    /// beyond the lifetime, as in the crate's own rotation test), so successive key-bundle
    /// messages of that author carry distinct bundles.
    pub async fn new(idx: usize, rng: &mut Rng, rotate: bool) -> Peer {
        let crng = CryptoRng::from_seed(rng.array32());
        let credentials = Credentials::from_rng(&crng).expect("credentials");
        let mut config = Config::default();
        if rotate {
            config.pre_key_rotate_after = Duration::from_secs(60 * 60 * 24 * 1024);
        }
        let tp = TestPeer::new_with_config(idx as u8, credentials, &config, crng).await;
        let sstore = TestSpacesStore::new(tp.store.clone());
        Peer {
            idx,
            tp,
            sstore,
            cursor: 0,
            first: HashMap::new(),
            pending_redelivery: Vec::new(),
            redelivered: HashSet::new(),
        }
    }

    pub fn id(&self) -> p2panda_core::VerifyingKey {
        self.tp.manager.id()
    }
}

#[derive(Debug)]
pub enum Outcome {
    Ok { events: Vec<Event<()>>, returned_groups: bool, returned_space: bool },
    Err(String),
    Panic { msg: String, loc: String },
    Timeout,
}

impl Outcome {
    pub fn brief(&self) -> String {
        match self {
            Outcome::Ok { events, .. } => format!("ok/{}ev", events.len()),
            Outcome::Err(e) => format!("err:{}", err_class(e)),
            Outcome::Panic { msg, .. } => format!("PANIC:{}", slug(msg)),
            Outcome::Timeout => "TIMEOUT".into(),
        }
    }
}

/// Error class from the Debug rendering: nested variant names, e.g. `Space.EncryptionGroup.Dcgka`.
pub fn err_class(dbg: &str) -> String {
    let mut out = Vec::new();
    let mut cur = String::new();
    for c in dbg.chars() {
        if c.is_ascii_alphanumeric() || c == '_' {
            cur.push(c);
        } else if c == '(' || c == '{' || c == ' ' {
            if !cur.is_empty() {
                out.push(std::mem::take(&mut cur));
            }
            if c != '(' || out.len() >= 4 {
                break;
            }
        } else {
            break;
        }
    }
    if !cur.is_empty() && out.len() < 4 {
        out.push(cur);
    }
    out.join(".")
}

/// Persist the operation on the peer (what a node does before handing it to spaces) and run the
/// real `Manager::process`, persisting returned states exactly like the crate's
/// `process_persisted` helper. Panics are caught and returned.
pub async fn process(peer: &Peer, msg: &Msg) -> Outcome {
    let _ = peer.tp.persist_operation(msg).await;
    let manager = peer.tp.manager.clone();
    let fut = async {
        match manager.process(msg).await {
            Ok((groups_y, space_y, events)) => {
                let rg = groups_y.is_some();
                let rs = space_y.is_some();
                if let Some(g) = groups_y {
                    if let Err(e) = manager.set_groups_state(&g).await {
                        return Err(format!("Harness.SetGroupsState({e:?})"));
                    }
                }
                if let Some(s) = space_y {
                    let id = s.space_id;
                    if let Err(e) = manager.set_space_state(&id, &s.into()).await {
                        return Err(format!("Harness.SetSpaceState({e:?})"));
                    }
                }
                Ok((events, rg, rs))
            }
            Err(e) => Err(format!("{e:?}")),
        }
    };
    match tokio::time::timeout(Duration::from_secs(300), AssertUnwindSafe(fut).catch_unwind()).await
    {
        Err(_) => Outcome::Timeout,
        Ok(Err(_payload)) => {
            let (msg, loc) = take_panic();
            Outcome::Panic { msg, loc }
        }
        Ok(Ok(Ok((events, rg, rs)))) => Outcome::Ok {
            events,
            returned_groups: rg,
            returned_space: rs,
        },
        Ok(Ok(Err(e))) => Outcome::Err(e),
    }
}

/// Run a local (non-judged) operation, catching panics.
pub async fn local<T, E: std::fmt::Debug>(
    fut: impl std::future::Future<Output = Result<T, E>>,
) -> Result<T, String> {
    match AssertUnwindSafe(fut).catch_unwind().await {
        Ok(Ok(t)) => Ok(t),
        Ok(Err(e)) => Err(format!("err:{}", err_class(&format!("{e:?}")))),
        Err(_) => {
            let (msg, loc) = take_panic();
            Err(format!("PANIC:{msg} @ {loc}"))
        }
    }
}

// ---------------------------------------------------------------------------------------------
// Canonical digests
// ---------------------------------------------------------------------------------------------

/// Canonical byte rendering of a CBOR value. Maps are always sorted by key (the persisted states are
/// full of `HashMap`s whose iteration order changes on every load). With `sort_arrays` arrays that
/// are not plain integer tuples are sorted as multisets too (`HashSet`s are encoded as arrays).
fn canon(v: &Cbor, sort_arrays: bool, out: &mut Vec<u8>) {
    match v {
        Cbor::Integer(i) => {
            out.push(b'i');
            out.extend_from_slice(i128::from(*i).to_string().as_bytes());
            out.push(b';');
        }
        Cbor::Bytes(b) => {
            out.push(b'b');
            out.extend_from_slice(&(b.len() as u64).to_le_bytes());
            out.extend_from_slice(b);
        }
        Cbor::Text(t) => {
            out.push(b't');
            out.extend_from_slice(&(t.len() as u64).to_le_bytes());
            out.extend_from_slice(t.as_bytes());
        }
        Cbor::Bool(b) => out.push(if *b { b'T' } else { b'F' }),
        Cbor::Null => out.push(b'N'),
        Cbor::Float(f) => {
            out.push(b'f');
            out.extend_from_slice(&f.to_bits().to_le_bytes());
        }
        Cbor::Tag(t, inner) => {
            out.push(b'#');
            out.extend_from_slice(&t.to_le_bytes());
            canon(inner, sort_arrays, out);
        }
        Cbor::Array(xs) => {
            let mut parts: Vec<Vec<u8>> = xs
                .iter()
                .map(|x| {
                    let mut o = Vec::new();
                    canon(x, sort_arrays, &mut o);
                    o
                })
                .collect();
            let all_ints = xs.iter().all(|x| matches!(x, Cbor::Integer(_)));
            if sort_arrays && !all_ints {
                parts.sort();
            }
            out.push(b'[');
            out.extend_from_slice(&(parts.len() as u64).to_le_bytes());
            for p in parts {
                out.extend_from_slice(&(p.len() as u64).to_le_bytes());
                out.extend_from_slice(&p);
            }
        }
        Cbor::Map(kvs) => {
            let mut parts: Vec<(Vec<u8>, Vec<u8>)> = kvs
                .iter()
                .map(|(k, v)| {
                    let mut ko = Vec::new();
                    canon(k, sort_arrays, &mut ko);
                    let mut vo = Vec::new();
                    canon(v, sort_arrays, &mut vo);
                    (ko, vo)
                })
                .collect();
            parts.sort();
            out.push(b'{');
            out.extend_from_slice(&(parts.len() as u64).to_le_bytes());
            for (k, v) in parts {
                out.extend_from_slice(&(k.len() as u64).to_le_bytes());
                out.extend_from_slice(&k);
                out.extend_from_slice(&(v.len() as u64).to_le_bytes());
                out.extend_from_slice(&v);
            }
        }
        _ => out.push(b'?'),
    }
}

/// (ordered digest, multiset digest)
#[derive(Clone, Debug, PartialEq, Eq)]
pub struct D {
    pub ordered: String,
    pub multiset: String,
}

fn d_of(v: &Cbor) -> D {
    let mut a = Vec::new();
    canon(v, false, &mut a);
    let mut b = Vec::new();
    canon(v, true, &mut b);
    D {
        ordered: Hash::digest(&a).to_hex()[..16].to_string(),
        multiset: Hash::digest(&b).to_hex()[..16].to_string(),
    }
}

fn to_cbor<T: serde::Serialize>(t: &T) -> Cbor {
    Cbor::serialized(t).unwrap_or(Cbor::Text("<<unserialisable>>".into()))
}

pub type Digest = BTreeMap<String, D>;

/// Everything the peer persists plus what its public API reports, component by component.
pub async fn digest(peer: &Peer, group_ids: &[p2panda_core::VerifyingKey]) -> Digest {
    let mut out = Digest::new();
    let st = &peer.sstore;

    // Shared auth ("groups") state and all space states, read inside one transaction.
    let mut space_ids: Vec<Hash> =
        <TestSpacesStore as SpacesStore<Cbor>>::space_ids(st).await.unwrap_or_default();
    space_ids.sort();
    out.insert("space_ids".into(), d_of(&to_cbor(&space_ids)));

    let permit = st.begin().await.expect("begin");
    let groups = <TestSpacesStore as GroupsStore<AuthMessage<()>, ()>>::get_groups_state_tx(
        st,
        Hash::digest(GLOBAL_GROUPS_CONTEXT_ID),
    )
    .await;
    match groups {
        Ok(Some(g)) => {
            // Component-wise so that a witness can say which part moved.
            if let Cbor::Map(kvs) = to_cbor(&g.inner) {
                for (k, v) in kvs {
                    let name = k.as_text().unwrap_or("?").to_string();
                    out.insert(format!("groups_y.{name}"), d_of(&v));
                }
            }
        }
        Ok(None) => {
            out.insert("groups_y".into(), d_of(&Cbor::Null));
        }
        Err(e) => {
            out.insert("groups_y".into(), d_of(&Cbor::Text(format!("error {e}"))));
        }
    }
    for id in &space_ids {
        let y = <TestSpacesStore as SpacesStore<Cbor>>::get_space_state_tx(st, id).await;
        match y {
            Ok(Some(Cbor::Map(kvs))) => {
                for (k, v) in kvs {
                    let name = k.as_text().unwrap_or("?").to_string();
                    out.insert(format!("space[{}].{name}", short(id)), d_of(&v));
                }
            }
            Ok(other) => {
                out.insert(format!("space[{}]", short(id)), d_of(&to_cbor(&other.is_some())));
            }
            Err(e) => {
                out.insert(format!("space[{}]", short(id)), d_of(&Cbor::Text(format!("error {e}"))));
            }
        }
    }
    st.commit(permit).await.expect("commit");

    match st.get_key_registry().await {
        Ok(r) => out.insert("key_registry".into(), d_of(&to_cbor(&r))),
        Err(e) => out.insert("key_registry".into(), d_of(&Cbor::Text(format!("error {e}")))),
    };
    match st.get_prekey_secrets().await {
        Ok(r) => out.insert("prekey_secrets".into(), d_of(&to_cbor(&r))),
        Err(e) => out.insert("prekey_secrets".into(), d_of(&Cbor::Text(format!("error {e}")))),
    };

    // Public API view.
    for id in &space_ids {
        let v = match peer.tp.manager.space(*id).await {
            Ok(Some(space)) => match space.members().await {
                Ok(m) => to_cbor(&m),
                Err(e) => Cbor::Text(format!("err {}", err_class(&format!("{e:?}")))),
            },
            Ok(None) => Cbor::Null,
            Err(e) => Cbor::Text(format!("err {}", err_class(&format!("{e:?}")))),
        };
        out.insert(format!("api.space_members[{}]", short(id)), d_of(&v));
    }
    for gid in group_ids {
        let v = match peer.tp.manager.group(*gid).await {
            Ok(Some(group)) => match group.members().await {
                Ok(m) => to_cbor(&m),
                Err(e) => Cbor::Text(format!("err {}", err_class(&format!("{e:?}")))),
            },
            Ok(None) => Cbor::Null,
            Err(e) => Cbor::Text(format!("err {}", err_class(&format!("{e:?}")))),
        };
        out.insert(format!("api.group_members[{}]", &gid.to_hex()[..10]), d_of(&v));
    }
    out
}

/// Components that differ: (really changed, only re-ordered).
pub fn diff(a: &Digest, b: &Digest) -> (Vec<String>, Vec<String>) {
    let mut changed = Vec::new();
    let mut reordered = Vec::new();
    let keys: std::collections::BTreeSet<&String> = a.keys().chain(b.keys()).collect();
    for k in keys {
        match (a.get(k), b.get(k)) {
            (Some(x), Some(y)) => {
                if x.multiset != y.multiset {
                    changed.push(k.clone());
                } else if x.ordered != y.ordered {
                    reordered.push(k.clone());
                }
            }
            (Some(_), None) => changed.push(format!("{k} (vanished)")),
            (None, Some(_)) => changed.push(format!("{k} (appeared)")),
            (None, None) => {}
        }
    }
    (changed, reordered)
}

// ---------------------------------------------------------------------------------------------
// Per-case result handed back to the reporting thread.
// ---------------------------------------------------------------------------------------------

#[derive(Default)]
pub struct CaseResult {
    /// `Some(key)` when the case is non-trivial by the stage's rule.
    pub keys: Vec<Option<u64>>,
    pub violations: Vec<(String, String, Value)>,
    pub bumps: BTreeMap<String, u64>,
    pub sample: Option<Value>,
    pub inconclusive: Vec<String>,
}

impl CaseResult {
    pub fn bump(&mut self, k: &str, n: u64) {
        *self.bumps.entry(k.to_string()).or_insert(0) += n;
    }
}

pub struct Judge {
    pub seed: u64,
    pub case: u64,
    pub stage: &'static str,
    pub res: CaseResult,
}

/// What a (re-)delivery looked like, for witnesses and traces.
pub fn describe(m: &Msg) -> Value {
    let a = args_of(m);
    json!({
        "id": m.hash.to_hex(),
        "author": m.header.verifying_key.to_hex(),
        "kind": kind(a),
        "action": action_kind(a),
        "args_cbor": args_cbor_hex(a),
    })
}

/// Judge one re-delivery of `msg` to `peer` (first processing returned Ok earlier): state digests
/// must not move and no event may be returned. Panics are judged for every delivery elsewhere.
#[allow(clippy::too_many_arguments)]
pub fn judge_redelivery(
    j: &mut Judge,
    peer_idx: usize,
    self_authored: bool,
    msg: &Msg,
    before: &Digest,
    after: &Digest,
    out: &Outcome,
    context: &Value,
) {
    let k = kind(args_of(msg));
    let sub = action_kind(args_of(msg)).map(|s| format!(":{s}")).unwrap_or_default();
    // All persisted state is judged, the key registry and the pre-key secrets included (the spaces
    // state is assembled from them on every load).
    let (changed, reordered) = diff(before, after);
    j.res.bump("redeliveries_judged", 1);
    j.res.bump(&format!("redeliveries_judged.{k}"), 1);
    if self_authored {
        j.res.bump("redeliveries_judged.self_authored", 1);
    }
    if !reordered.is_empty() {
        j.res.bump("redelivery_reordered_only_not_judged", 1);
    }
    let base = json!({
        "seed": j.seed, "case": j.case, "stage": j.stage, "peer": peer_idx,
        "replay": replay_hint(j.seed, j.stage, j.case),
        "self_authored": self_authored, "message": describe(msg), "context": context,
        "second_outcome": out.brief(),
    });
    if !changed.is_empty() {
        let mut w = base.clone();
        w["changed_components"] = json!(changed);
        w["reordered_components"] = json!(reordered);
        j.res.violations.push((
            format!("C39:reprocess-changed-state:{k}{sub}"),
            format!(
                "second processing of an already processed {k}{sub} message changed persisted state: {}",
                changed.join(", ")
            ),
            w,
        ));
    }
    match out {
        Outcome::Ok { events, .. } if !events.is_empty() => {
            let mut w = base.clone();
            w["events"] = json!(events.iter().map(|e| format!("{e:?}")).map(|s| trunc(&s, 400)).collect::<Vec<_>>());
            j.res.violations.push((
                format!("C39:reprocess-emitted-events:{k}{sub}"),
                format!(
                    "second processing of an already processed {k}{sub} message returned {} event(s)",
                    events.len()
                ),
                w,
            ));
        }
        Outcome::Ok { returned_groups, returned_space, .. } => {
            if *returned_groups || *returned_space {
                j.res.bump("redelivery_returned_state_without_change_not_judged", 1);
            }
        }
        Outcome::Err(e) => {
            // An error on a duplicate is a result, not a panic; recorded, not judged.
            j.res.bump("redelivery_returned_err_not_judged", 1);
            j.res.bump(&format!("redelivery_err.{k}.{}", err_class(e)), 1);
        }
        Outcome::Panic { .. } | Outcome::Timeout => {}
    }
}

/// Judge totality for any delivery.
pub fn judge_total(j: &mut Judge, peer_idx: usize, msg: &Msg, out: &Outcome, nth: &str, context: &Value) {
    let a = args_of(msg);
    match out {
        Outcome::Panic { msg: pmsg, loc } => {
            let k = kind(a);
            // The auth action is part of the failure shape only where the action itself is what is
            // not handled (`unimplemented!()` arms); the panics inside p2panda-auth do not depend on
            // which non-create action carried the unknown group / dangling dependency.
            let sub = if slug(pmsg) == "not-implemented" {
                action_kind(a).map(|s| format!(":{s}")).unwrap_or_default()
            } else {
                String::new()
            };
            j.res.violations.push((
                format!("C39:panic:{k}{sub}:{}", slug(pmsg)),
                format!(
                    "Manager::process panicked on a well-typed {k}{} message: \"{}\" at {loc}",
                    action_kind(a).map(|s| format!(":{s}")).unwrap_or_default(),
                    trunc(pmsg, 160)
                ),
                json!({
                    "seed": j.seed, "case": j.case, "stage": j.stage, "peer": peer_idx, "delivery": nth,
                    "replay": replay_hint(j.seed, j.stage, j.case),
                    "message": describe(msg), "panic": pmsg, "location": loc, "context": context,
                }),
            ));
        }
        Outcome::Timeout => {
            j.res.inconclusive.push(format!(
                "watchdog: Manager::process did not return within 300 s (seed {} case {} stage {})",
                j.seed, j.case, j.stage
            ));
        }
        _ => {}
    }
}

pub fn trunc(s: &str, n: usize) -> String {
    if s.len() <= n {
        s.to_string()
    } else {
        let mut end = n;
        while !s.is_char_boundary(end) {
            end -= 1;
        }
        format!("{}…", &s[..end])
    }
}
