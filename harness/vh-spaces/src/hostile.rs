//! Stage B of C39: adversarial but well-typed messages. A short real history gives every peer real
//! spaces, groups, key material and messages; then messages of every `SpacesArgs` variant with
//! hostile field values (unknown / foreign / swapped ids, foreign and member authors, empty,
//! duplicated and oversized vectors, wrong dependencies, every auth action, stolen / mutated direct
//! messages and ciphertexts, extreme key-bundle lifetimes, CBOR-level mutations of real messages)
//! are signed, persisted and handed to the real `Manager::process` of a victim peer. A panic is a
//! violation; a hostile message that was accepted (Ok) is processed a second time and judged for
//! idempotence like any other message.

use std::time::{SystemTime, UNIX_EPOCH};

use ciborium::Value as Cbor;
use p2panda_auth::Access;
use p2panda_auth::group::{GroupAction, GroupMember};
use p2panda_core::{Hash, SigningKey, VerifyingKey};
use p2panda_encryption::Rng as CryptoRng;
use p2panda_encryption::crypto::x25519::{PublicKey, SecretKey};
use p2panda_encryption::key_bundle::{Lifetime, LongTermKeyBundle, PreKey};
use p2panda_spaces::SpacesArgs;
use vh_common::{Rng, Value, hash_of, json};

use crate::history::{World, random_local_step};
use crate::world::*;

struct Hostile {
    label: &'static str,
    author: SigningKey,
    args: Args,
}

struct Ctx {
    spaces: Vec<Hash>,
    groups: Vec<VerifyingKey>,
    peer_ids: Vec<VerifyingKey>,
    peer_keys: Vec<SigningKey>,
    outsider: SigningKey,
    auth_ids: Vec<Hash>,
    membership_ids: Vec<Hash>,
    app_ids: Vec<Hash>,
    bundle_ids: Vec<Hash>,
    all_ids: Vec<Hash>,
    real: Vec<Msg>,
    big: usize,
    crng: CryptoRng,
    /// The outsider's long-lived identity secret: its successive bundles are rotations, not
    /// identity changes.
    outsider_identity: SecretKey,
    /// Ids of auth messages the attacker sent in this case (usable as pointers / dependencies).
    sent_auth: Vec<(Hash, &'static str)>,
}

fn rand_hash(rng: &mut Rng) -> Hash {
    Hash::digest(rng.bytes(12))
}

fn rand_key(rng: &mut Rng) -> VerifyingKey {
    SigningKey::from_bytes(&rng.array32()).verifying_key()
}

impl Ctx {
    fn space(&self, rng: &mut Rng) -> Hash {
        if !self.spaces.is_empty() && rng.chance(0.7) { *rng.pick(&self.spaces) } else { rand_hash(rng) }
    }

    fn group(&self, rng: &mut Rng) -> VerifyingKey {
        match rng.below(10) {
            0..=5 if !self.groups.is_empty() => *rng.pick(&self.groups),
            6 | 7 => *rng.pick(&self.peer_ids),
            8 => self.outsider.verifying_key(),
            _ => rand_key(rng),
        }
    }

    fn actor(&self, rng: &mut Rng, this_group: VerifyingKey) -> GroupMember<VerifyingKey> {
        let id = match rng.below(10) {
            0..=3 => *rng.pick(&self.peer_ids),
            4 | 5 if !self.groups.is_empty() => *rng.pick(&self.groups),
            6 => this_group,
            7 => self.outsider.verifying_key(),
            _ => rand_key(rng),
        };
        if rng.bool() { GroupMember::Individual(id) } else { GroupMember::Group(id) }
    }

    fn author(&self, rng: &mut Rng) -> SigningKey {
        if rng.chance(0.45) { self.outsider.clone() } else { rng.pick(&self.peer_keys).clone() }
    }

    /// Dependency vectors: empty, right-looking, wrong kind, unknown, duplicated, oversized.
    fn deps(&self, rng: &mut Rng, natural: &[Hash]) -> Vec<Hash> {
        match rng.below(12) {
            0 | 1 => vec![],
            2 | 3 if !natural.is_empty() => vec![*rng.pick(natural)],
            4 if !natural.is_empty() => {
                let n = 1 + rng.usize_below(natural.len().min(5));
                (0..n).map(|_| *rng.pick(natural)).collect()
            }
            5 if !self.all_ids.is_empty() => vec![*rng.pick(&self.all_ids)],
            6 => vec![rand_hash(rng)],
            7 => {
                let h = if natural.is_empty() { rand_hash(rng) } else { *rng.pick(natural) };
                vec![h; 2 + rng.usize_below(40)]
            }
            8 => {
                let n = self.big / 2 + rng.usize_below(self.big / 2 + 1);
                (0..n).map(|_| rand_hash(rng)).collect()
            }
            9 if !self.all_ids.is_empty() => {
                let mut v: Vec<Hash> = self.all_ids.clone();
                rng.shuffle(&mut v);
                v
            }
            _ => {
                let mut v = vec![rand_hash(rng)];
                if !natural.is_empty() {
                    v.push(*rng.pick(natural));
                }
                v
            }
        }
    }

    fn access(&self, rng: &mut Rng) -> Access<()> {
        match rng.below(4) {
            0 => Access::pull(),
            1 => Access::read(),
            2 => Access::write(),
            _ => Access::manage(),
        }
    }

    fn real_of(&self, kind_name: &str, rng: &mut Rng) -> Option<Args> {
        let c: Vec<&Msg> = self.real.iter().filter(|m| kind(args_of(m)) == kind_name).collect();
        if c.is_empty() { None } else { Some(args_of(c[rng.usize_below(c.len())]).clone()) }
    }
}

fn now_secs() -> u64 {
    SystemTime::now().duration_since(UNIX_EPOCH).map(|d| d.as_secs()).unwrap_or(0)
}

fn gen_space_update(c: &Ctx, rng: &mut Rng) -> Vec<Hostile> {
    vec![Hostile {
        label: "space_update",
        author: c.author(rng),
        args: SpacesArgs::SpaceUpdate {
            space_id: c.space(rng),
            group_id: c.group(rng),
            space_dependencies: c.deps(rng, &c.membership_ids),
        },
    }]
}

fn gen_key_bundle(c: &Ctx, rng: &mut Rng) -> Vec<Hostile> {
    let author = c.author(rng);
    let which = rng.below(7);
    if which == 0 {
        // A real bundle replayed under somebody else's signature.
        if let Some(args) = c.real_of("KeyBundle", rng) {
            return vec![Hostile { label: "key_bundle.replayed_foreign_author", author, args }];
        }
    }
    let identity = if author.verifying_key() == c.outsider.verifying_key() && rng.chance(0.8) {
        c.outsider_identity.clone()
    } else {
        SecretKey::from_rng(&c.crng).expect("rng")
    };
    let prekey_secret = SecretKey::from_rng(&c.crng).expect("rng");
    let now = now_secs();
    let (label, lifetime): (&'static str, Lifetime) = match which {
        1 => ("key_bundle.lifetime_zero", Lifetime::from_range(0, 0)),
        2 => ("key_bundle.lifetime_max", Lifetime::from_range(0, u64::MAX)),
        3 => ("key_bundle.lifetime_inverted", Lifetime::from_range(u64::MAX, 0)),
        4 => ("key_bundle.lifetime_future", Lifetime::from_range(now + 10_000, now + 20_000)),
        5 => ("key_bundle.lifetime_expired", Lifetime::from_range(now - 20_000, now - 10_000)),
        _ => ("key_bundle.fresh_valid", Lifetime::from_range(now - 100, now + 100_000)),
    };
    let prekey_pk = if rng.chance(0.15) {
        PublicKey::from_bytes([0u8; 32])
    } else {
        prekey_secret.verifying_key().expect("public key")
    };
    let prekey = PreKey::new(prekey_pk, lifetime);
    let (label, signer) = if rng.chance(0.2) {
        ("key_bundle.bad_signature", SecretKey::from_rng(&c.crng).expect("rng"))
    } else {
        (label, identity.clone())
    };
    let Ok(signature) = prekey.sign(&signer, &c.crng) else {
        return vec![];
    };
    let identity_pk = if rng.chance(0.1) {
        PublicKey::from_bytes([0u8; 32])
    } else {
        identity.verifying_key().expect("public key")
    };
    let bundle = LongTermKeyBundle::new(identity_pk, prekey, signature);
    vec![Hostile { label, author, args: SpacesArgs::KeyBundle { key_bundle: bundle } }]
}

fn action(c: &Ctx, rng: &mut Rng, group_id: VerifyingKey, which: u64) -> (GroupAction<VerifyingKey, ()>, &'static str) {
    match which {
        0 => {
            let n = match rng.below(5) {
                0 => 0,
                1 => 1,
                2 => 3,
                3 => 12,
                _ => c.big / 4,
            };
            let mut members: Vec<(GroupMember<VerifyingKey>, Access<()>)> =
                (0..n).map(|_| (c.actor(rng, group_id), c.access(rng))).collect();
            if rng.chance(0.3) && !members.is_empty() {
                let d = members[0].clone();
                members.push(d);
            }
            (GroupAction::Create { initial_members: members }, "auth.create")
        }
        1 => (GroupAction::Add { member: c.actor(rng, group_id), access: c.access(rng) }, "auth.add"),
        2 => (GroupAction::Remove { member: c.actor(rng, group_id) }, "auth.remove"),
        3 => (GroupAction::Promote { member: c.actor(rng, group_id), access: c.access(rng) }, "auth.promote"),
        _ => (GroupAction::Demote { member: c.actor(rng, group_id), access: c.access(rng) }, "auth.demote"),
    }
}

fn gen_auth(c: &Ctx, rng: &mut Rng) -> Vec<Hostile> {
    let group_id = c.group(rng);
    let which = rng.below(5);
    let (group_action, label) = action(c, rng, group_id, which);
    vec![Hostile {
        label,
        author: c.author(rng),
        args: SpacesArgs::Auth {
            group_id,
            group_action,
            auth_dependencies: c.deps(rng, &c.auth_ids),
        },
    }]
}

fn gen_membership(c: &Ctx, rng: &mut Rng) -> Vec<Hostile> {
    let auth_message_id = match rng.below(10) {
        0..=3 if !c.auth_ids.is_empty() => *rng.pick(&c.auth_ids),
        4 | 5 if !c.sent_auth.is_empty() => rng.pick(&c.sent_auth).0,
        6 if !c.app_ids.is_empty() => *rng.pick(&c.app_ids),
        7 if !c.bundle_ids.is_empty() => *rng.pick(&c.bundle_ids),
        8 if !c.membership_ids.is_empty() => *rng.pick(&c.membership_ids),
        _ => rand_hash(rng),
    };
    // Direct messages: none, stolen from a real message, multiplied, re-addressed.
    let mut direct_messages = Vec::new();
    let stolen: Vec<_> = c
        .real
        .iter()
        .filter_map(|m| match args_of(m) {
            SpacesArgs::SpaceMembership { direct_messages, .. } if !direct_messages.is_empty() => {
                Some(direct_messages.clone())
            }
            _ => None,
        })
        .collect();
    let mut label = "membership.no_dm";
    if !stolen.is_empty() {
        match rng.below(5) {
            0 => {}
            1 => {
                direct_messages = rng.pick(&stolen).clone();
                label = "membership.stolen_dm";
            }
            2 => {
                let dm = rng.pick(&stolen)[0].clone();
                direct_messages = vec![dm; 2 + rng.usize_below(c.big / 8 + 1)];
                label = "membership.multiplied_dm";
            }
            3 => {
                for mut dm in rng.pick(&stolen).clone() {
                    dm.recipient = *rng.pick(&c.peer_ids);
                    direct_messages.push(dm);
                }
                label = "membership.readdressed_dm";
            }
            _ => {
                for s in &stolen {
                    direct_messages.extend(s.clone());
                }
                rng.shuffle(&mut direct_messages);
                label = "membership.all_dm";
            }
        }
    }
    vec![Hostile {
        label,
        author: c.author(rng),
        args: SpacesArgs::SpaceMembership {
            space_id: c.space(rng),
            group_id: c.group(rng),
            space_dependencies: c.deps(rng, &c.membership_ids),
            auth_message_id,
            direct_messages,
        },
    }]
}

fn gen_application(c: &Ctx, rng: &mut Rng) -> Vec<Hostile> {
    let real = c.real_of("Application", rng);
    let (mut secret_id, mut nonce, mut ciphertext, real_space) = match &real {
        Some(SpacesArgs::Application { group_secret_id, nonce, ciphertext, space_id, .. }) => {
            (*group_secret_id, *nonce, ciphertext.clone(), Some(*space_id))
        }
        _ => (rng.array32(), [0u8; 24], rng.bytes(32), None),
    };
    let mut label = "application.replayed_new_id";
    match rng.below(9) {
        0 => {}
        1 => {
            secret_id = rng.array32();
            label = "application.unknown_secret";
        }
        2 => {
            nonce.copy_from_slice(&rng.bytes(24));
            label = "application.wrong_nonce";
        }
        3 => {
            if !ciphertext.is_empty() {
                let i = rng.usize_below(ciphertext.len());
                ciphertext[i] ^= 1 << rng.below(8);
            }
            label = "application.flipped_ciphertext";
        }
        4 => {
            ciphertext.clear();
            label = "application.empty_ciphertext";
        }
        5 => {
            let n = rng.usize_below(ciphertext.len().max(1));
            ciphertext.truncate(n);
            label = "application.truncated_ciphertext";
        }
        6 => {
            ciphertext = rng.bytes(c.big * 64);
            label = "application.oversized_ciphertext";
        }
        7 => {
            secret_id = [0u8; 32];
            nonce = [0u8; 24];
            label = "application.zero_ids";
        }
        _ => {}
    }
    let space_id = match (real_space, rng.below(4)) {
        (Some(s), 0 | 1) => s,
        _ => c.space(rng),
    };
    vec![Hostile {
        label,
        author: c.author(rng),
        args: SpacesArgs::Application {
            space_id,
            space_dependencies: c.deps(rng, &c.membership_ids),
            group_secret_id: secret_id,
            nonce,
            ciphertext,
        },
    }]
}

/// Attacker-built auth chains with correct dependencies: own group, then promote / demote /
/// self-nesting / mutual nesting, then a pointer into a real space.
fn gen_chain(c: &Ctx, rng: &mut Rng) -> Vec<Hostile> {
    let author = c.author(rng);
    let me = author.verifying_key();
    let g1 = rand_key(rng);
    let other = *rng.pick(&c.peer_ids);
    let mut out = vec![Hostile {
        label: "chain.create",
        author: author.clone(),
        args: SpacesArgs::Auth {
            group_id: g1,
            group_action: GroupAction::Create {
                initial_members: vec![
                    (GroupMember::Individual(me), Access::manage()),
                    (GroupMember::Individual(other), Access::read()),
                ],
            },
            // Filled in by the driver: heads = previous hostile auth message of this chain.
            auth_dependencies: if rng.chance(0.5) { c.auth_ids.iter().rev().take(1).cloned().collect() } else { vec![] },
        },
    }];
    let second: (GroupAction<VerifyingKey, ()>, &'static str) = match rng.below(6) {
        0 => (GroupAction::Promote { member: GroupMember::Individual(other), access: Access::write() }, "chain.promote"),
        1 => (GroupAction::Demote { member: GroupMember::Individual(other), access: Access::pull() }, "chain.demote"),
        2 => (GroupAction::Add { member: GroupMember::Group(g1), access: Access::read() }, "chain.add_self_group"),
        3 => (GroupAction::Remove { member: GroupMember::Individual(me) }, "chain.remove_self"),
        4 => (GroupAction::Add { member: GroupMember::Individual(other), access: Access::manage() }, "chain.add_existing"),
        _ => (GroupAction::Remove { member: GroupMember::Individual(rand_key(rng)) }, "chain.remove_stranger"),
    };
    out.push(Hostile {
        label: second.1,
        author: author.clone(),
        args: SpacesArgs::Auth { group_id: g1, group_action: second.0, auth_dependencies: vec![] },
    });
    // Pointer to the second message into a real or new space.
    out.push(Hostile {
        label: "chain.pointer",
        author,
        args: SpacesArgs::SpaceMembership {
            space_id: c.space(rng),
            group_id: if rng.bool() { g1 } else { c.group(rng) },
            space_dependencies: c.deps(rng, &c.membership_ids),
            auth_message_id: Hash::digest(b"placeholder"),
            direct_messages: vec![],
        },
    });
    out
}

// -- CBOR-level mutation of real messages ------------------------------------------------------

fn count_nodes(v: &Cbor) -> usize {
    match v {
        Cbor::Array(xs) => 1 + xs.iter().map(count_nodes).sum::<usize>(),
        Cbor::Map(kvs) => 1 + kvs.iter().map(|(_, v)| count_nodes(v)).sum::<usize>(),
        Cbor::Tag(_, inner) => 1 + count_nodes(inner),
        _ => 1,
    }
}

fn mutate_at(v: &mut Cbor, target: &mut usize, rng: &mut Rng, big: usize) -> bool {
    if *target == 0 {
        match v {
            Cbor::Integer(_) => {
                let c: [i128; 8] = [0, 1, -1, 255, 65536, u32::MAX as i128, i64::MAX as i128, u64::MAX as i128];
                let x = *rng.pick(&c);
                *v = Cbor::Integer(ciborium::value::Integer::try_from(x).unwrap_or(0.into()));
            }
            Cbor::Bytes(b) => match rng.below(6) {
                0 => b.clear(),
                1 => {
                    if !b.is_empty() {
                        let i = rng.usize_below(b.len());
                        b[i] ^= 1 << rng.below(8);
                    }
                }
                2 => b.iter_mut().for_each(|x| *x = 0),
                3 => b.iter_mut().for_each(|x| *x = 0xff),
                4 => {
                    let n = b.len();
                    *b = rng.bytes(n);
                }
                _ => {
                    let n = 1 + rng.usize_below(big);
                    b.extend(rng.bytes(n));
                }
            },
            Cbor::Text(t) => {
                let names = ["Create", "Add", "Remove", "Promote", "Demote", "Individual", "Group", "Welcome", "TwoParty", "Pull", "Read", "Write", "Manage", "PreKey", "Hpke"];
                *t = rng.pick(&names).to_string();
            }
            Cbor::Array(xs) => match rng.below(5) {
                0 => xs.clear(),
                1 => {
                    if !xs.is_empty() {
                        let x = xs[rng.usize_below(xs.len())].clone();
                        let n = 1 + rng.usize_below(big / 4 + 1);
                        xs.extend(std::iter::repeat_n(x, n));
                    }
                }
                2 => {
                    if !xs.is_empty() {
                        xs.remove(rng.usize_below(xs.len()));
                    }
                }
                3 => xs.reverse(),
                _ => {
                    if xs.len() > 1 {
                        let a = rng.usize_below(xs.len());
                        let b = rng.usize_below(xs.len());
                        let t = xs[a].clone();
                        xs[a] = xs[b].clone();
                        xs[b] = t;
                    }
                }
            },
            Cbor::Map(kvs) => {
                if kvs.len() > 1 {
                    let a = rng.usize_below(kvs.len());
                    let b = rng.usize_below(kvs.len());
                    let t = kvs[a].1.clone();
                    kvs[a].1 = kvs[b].1.clone();
                    kvs[b].1 = t;
                }
            }
            Cbor::Bool(b) => *b = !*b,
            _ => {}
        }
        return true;
    }
    *target -= 1;
    match v {
        Cbor::Array(xs) => {
            for x in xs {
                if mutate_at(x, target, rng, big) {
                    return true;
                }
            }
            false
        }
        Cbor::Map(kvs) => {
            for (_, x) in kvs {
                if mutate_at(x, target, rng, big) {
                    return true;
                }
            }
            false
        }
        Cbor::Tag(_, inner) => mutate_at(inner, target, rng, big),
        _ => false,
    }
}

fn gen_cbor_mutation(c: &Ctx, rng: &mut Rng, res: &mut CaseResult) -> Vec<Hostile> {
    if c.real.is_empty() {
        return vec![];
    }
    let base = args_of(rng.pick(&c.real)).clone();
    let Ok(mut v) = Cbor::serialized(&base) else { return vec![] };
    let n = 1 + rng.usize_below(3);
    for _ in 0..n {
        let nodes = count_nodes(&v);
        let mut t = rng.usize_below(nodes);
        mutate_at(&mut v, &mut t, rng, c.big);
    }
    match v.deserialized::<Args>() {
        Ok(args) => {
            res.bump("cbor_mutants_well_typed", 1);
            vec![Hostile { label: "cbor_mutation", author: c.author(rng), args }]
        }
        Err(_) => {
            res.bump("cbor_mutants_ill_typed_discarded", 1);
            vec![]
        }
    }
}

pub async fn run_case(seed: u64, case: u64, n_msgs: usize, big: usize, want_sample: bool) -> CaseResult {
    let mut rng = Rng::fork(seed ^ 0xB0B, case);
    // Oversized vectors are expensive for everything that follows in the case (every later state
    // carries them); most cases use moderate sizes, one in ten the full size.
    let big = match rng.below(10) {
        0 => big,
        1..=3 => (big / 10).max(40),
        _ => 40,
    };
    let n_peers = 2 + rng.usize_below(2);
    let mut w = World::new(n_peers, &mut rng).await;
    let mut j = Judge { seed, case, stage: "hostile", res: CaseResult::default() };

    // Real base history.
    for p in 0..n_peers {
        w.op_key_bundle(p).await;
    }
    for p in 0..n_peers {
        w.sync_some(&mut j, p, usize::MAX / 2).await;
    }
    w.op_create_space(0, &mut rng, &mut j.res).await;
    if rng.chance(0.6) {
        w.op_create_group(rng.usize_below(n_peers), &mut rng, &mut j.res).await;
    }
    let steps = 6 + rng.usize_below(10);
    for _ in 0..steps {
        let p = rng.usize_below(n_peers);
        if rng.chance(0.8) {
            w.sync_some(&mut j, p, usize::MAX / 2).await;
        }
        random_local_step(&mut w, p, &mut rng, &mut j.res).await;
    }
    for p in 0..n_peers {
        w.op_publish(p, &mut rng, &mut j.res).await;
    }
    for p in 0..n_peers {
        w.sync_some(&mut j, p, usize::MAX / 2).await;
    }

    let mut groups = w.groups.clone();
    for p in 0..n_peers {
        for g in w.all_group_ids(p).await {
            if !groups.contains(&g) {
                groups.push(g);
            }
        }
    }
    let ids_of = |k: &str| -> Vec<Hash> {
        w.log.iter().filter(|m| kind(args_of(m)) == k).map(|m| m.hash).collect()
    };
    let mut c = Ctx {
        spaces: w.spaces.clone(),
        groups,
        peer_ids: w.peers.iter().map(|p| p.id()).collect(),
        peer_keys: w.peers.iter().map(|p| p.tp.credentials.signing_key()).collect(),
        outsider: SigningKey::from_bytes(&rng.array32()),
        auth_ids: ids_of("Auth"),
        membership_ids: ids_of("SpaceMembership"),
        app_ids: ids_of("Application"),
        bundle_ids: ids_of("KeyBundle"),
        all_ids: w.log.iter().map(|m| m.hash).collect(),
        real: w.log.clone(),
        big,
        crng: CryptoRng::from_seed(rng.array32()),
        outsider_identity: SecretKey::from_bytes(rng.array32()),
        sent_auth: Vec::new(),
    };
    // Accepted hostile messages, re-delivered once more at the end of the case (later position).
    let mut accepted: Vec<(usize, Msg, Value)> = Vec::new();

    let mut seq: u32 = 1_000_000 + (rng.next_u32() % 1_000_000);
    let mut sent = 0usize;
    let mut sample_rows: Vec<Value> = Vec::new();
    let mut guard = 0;
    while sent < n_msgs && guard < n_msgs * 20 {
        guard += 1;
        let batch = match rng.below(100) {
            0..=9 => gen_space_update(&c, &mut rng),
            10..=21 => gen_key_bundle(&c, &mut rng),
            22..=39 => gen_auth(&c, &mut rng),
            40..=57 => gen_membership(&c, &mut rng),
            58..=71 => gen_application(&c, &mut rng),
            72..=83 => gen_chain(&c, &mut rng),
            _ => gen_cbor_mutation(&c, &mut rng, &mut j.res),
        };
        if batch.is_empty() {
            continue;
        }
        // A chain is delivered to one victim; single messages to a random victim.
        // Never the author itself: a peer does not receive hostile messages signed with its own key.
        let author_idx = c.peer_ids.iter().position(|id| *id == batch[0].author.verifying_key());
        let victims: Vec<usize> = (0..n_peers).filter(|p| Some(*p) != author_idx).collect();
        let victim = *rng.pick(&victims);
        let mut chain_prev: Option<Hash> = None;
        for mut h in batch {
            // Wire up chains: auth deps -> previous chain message, pointer -> previous auth.
            if h.label.starts_with("chain.") {
                match &mut h.args {
                    SpacesArgs::Auth { auth_dependencies, .. } => {
                        if let Some(prev) = chain_prev {
                            *auth_dependencies = vec![prev];
                        }
                    }
                    SpacesArgs::SpaceMembership { auth_message_id, .. } => {
                        if let Some(prev) = chain_prev {
                            *auth_message_id = prev;
                        }
                    }
                    _ => {}
                }
            }
            seq += 1;
            // A header with seq_num > 0 must carry a backlink to decode; the attacker's log is its own
            // business, any hash will do.
            let msg = forge(&h.author, seq, Some(Hash::digest(seq.to_le_bytes())), h.args.clone());
            if matches!(h.args, SpacesArgs::Auth { .. }) {
                chain_prev = Some(msg.hash);
                c.sent_auth.push((msg.hash, h.label));
            }
            sent += 1;
            let is_member_author = c.peer_ids.contains(&h.author.verifying_key());
            let ctx = json!({
                "generator": h.label,
                "author_is_peer": is_member_author,
                "victim": victim,
                "base_history": w.trace.iter().filter(|t| t.contains("-> log[")).cloned().collect::<Vec<_>>(),
                "hostile_sent_before": sent - 1,
            });
            let out1 = process(&w.peers[victim], &msg).await;
            judge_total(&mut j, victim, &msg, &out1, "first", &ctx);
            let k = kind(&h.args);
            j.res.bump(&format!("hostile.{}.{}", h.label, match &out1 {
                Outcome::Ok { .. } => "ok".to_string(),
                Outcome::Err(e) => format!("err.{}", err_class(e)),
                Outcome::Panic { .. } => "PANIC".to_string(),
                Outcome::Timeout => "timeout".to_string(),
            }), 1);
            j.res.bump(&format!("hostile_kind.{k}"), 1);
            j.res.keys.push(Some(hash_of(&(args_cbor_hex(&h.args), h.author.verifying_key().to_hex()))));
            w.trace.push(format!("HOSTILE {} {}#{} by {} to p{victim} => {}{}", h.label, k, short(&msg.hash), if is_member_author { "peer" } else { "outsider" }, out1.brief(),
                match &out1 { Outcome::Err(e) if FULL_TRACE.load(std::sync::atomic::Ordering::Relaxed) => format!("  [{}]", trunc(e, 300)), _ => String::new() }));
            if sample_rows.len() < 12 {
                sample_rows.push(json!({"generator": h.label, "kind": k, "action": action_kind(&h.args), "first": out1.brief()}));
            }
            if let Outcome::Ok { .. } = out1 {
                // Accepted: now it is "already processed" -> second processing must be a no-op.
                let gids = c.groups.clone();
                let before = digest(&w.peers[victim], &gids).await;
                let out2 = process(&w.peers[victim], &msg).await;
                let after = digest(&w.peers[victim], &gids).await;
                judge_total(&mut j, victim, &msg, &out2, "second", &ctx);
                judge_redelivery(&mut j, victim, false, &msg, &before, &after, &out2, &ctx);
                j.res.bump("hostile_accepted_then_reprocessed", 1);
                accepted.push((victim, msg.clone(), ctx.clone()));
            }
        }
    }

    // Every accepted hostile message once more, now that later messages (e.g. newer key bundles of
    // the same author) were processed in between.
    rng.shuffle(&mut accepted);
    for (victim, msg, ctx) in &accepted {
        let gids = c.groups.clone();
        let before = digest(&w.peers[*victim], &gids).await;
        let out = process(&w.peers[*victim], msg).await;
        let after = digest(&w.peers[*victim], &gids).await;
        judge_total(&mut j, *victim, msg, &out, "third", ctx);
        judge_redelivery(&mut j, *victim, false, msg, &before, &after, &out, ctx);
        j.res.bump("hostile_accepted_reprocessed_at_end", 1);
    }

    // The victims must still be able to work: one honest publish + delivery per peer (recorded).
    for p in 0..n_peers {
        w.op_publish(p, &mut rng, &mut j.res).await;
    }
    for p in 0..n_peers {
        w.sync_some(&mut j, p, usize::MAX / 2).await;
    }

    let mut res = j.res;
    res.bump("hostile_messages", sent as u64);
    if want_sample {
        res.sample = Some(json!({
            "stage": "hostile", "seed": seed, "case": case, "peers": n_peers,
            "base_log_len": c.real.len(), "hostile_sent": sent, "first_rows": sample_rows,
            "trace": if FULL_TRACE.load(std::sync::atomic::Ordering::Relaxed) { json!(w.trace) } else { Value::Null },
        }));
    }
    res
}
