//! C39 — spaces message processing is idempotent and total.
//!
//! Two stages, both through the real `p2panda_spaces::manager::Manager::process` of the crate's
//! `test_utils` peers (SQLite in memory):
//!   A. random multi-peer histories with every message re-delivered once at a random later point
//!      (`history.rs`);
//!   B. adversarial well-typed messages of every `SpacesArgs` variant (`hostile.rs`).
//! Oracle (from the statement): a second processing of a message whose first processing by that
//! peer returned Ok leaves all persisted state digests and API views unchanged and returns no
//! events; no `process` call panics.

use std::sync::atomic::{AtomicU64, Ordering};
use std::sync::{Arc, mpsc};

use vh_common::{Args, Report, Tier, json};

use crate::world::{CaseResult, install_panic_hook};
use crate::{history, hostile};

enum Job {
    History(u64),
    Hostile(u64),
}

pub fn run(args: &Args) {
    install_panic_hook();
    let n_hist = args.n(40, 3000);
    let n_host_msgs = args.n(400, 100_000);
    let per_case: u64 = args.param_u64("hostile_per_case", 20);
    let n_host_cases = n_host_msgs.div_ceil(per_case);
    let big: usize = args.param_u64("big", if args.tier == Tier::Quick { 400 } else { 4000 }) as usize;
    let threads = args.param_u64("threads", 8).max(1) as usize;
    let only = args.param("stage").map(|s| s.to_string());
    let only_case = args.params.get("case").and_then(|c| c.parse::<u64>().ok());

    let _ = crate::world::RUN_PARAMS.set(format!(
        "--tier {} big={big} hostile_per_case={per_case}",
        if args.tier == Tier::Quick { "quick" } else { "thorough" }
    ));
    let mut rep = Report::new(
        args,
        "Stage A: seeded random histories of 2-4 test_utils peers (key bundles, create space/group, \
         add/remove members and groups with random access levels, publish, repair, lagging sync so \
         that concurrent operations occur); every (peer, message) pair is first processed in log \
         order and re-delivered exactly once at a random later position. A history is non-trivial \
         when >= 10 re-deliveries of Ok-processed messages were judged and they cover >= 3 message \
         kinds; distinct = hash of (peers, log shape, trace length). Stage B: hostile well-typed \
         messages (all five SpacesArgs variants, all five auth actions, unknown/foreign/swapped \
         ids, outsider and member authors, empty/duplicated/oversized vectors, wrong dependencies, \
         stolen/re-addressed/multiplied direct messages, tampered ciphertexts, extreme key-bundle \
         lifetimes, attacker auth chains, CBOR-level mutants that still deserialize) delivered to a \
         victim peer after a short real history; every processed hostile message is a non-trivial \
         case, distinct = hash of (CBOR of args, author). Idempotence is judged only for a second \
         processing after a first that returned Ok on the same peer; panics are judged on every call.",
        match args.tier {
            Tier::Quick => 150,
            Tier::Thorough => 5000,
        }
        .min(((n_hist + n_host_msgs) as f64 * 0.3) as u64)
        .max(1),
    );

    let mut jobs: Vec<Job> = Vec::new();
    if only.as_deref() != Some("hostile") {
        jobs.extend((0..n_hist).filter(|c| only_case.is_none_or(|o| o == *c)).map(Job::History));
    }
    if only.as_deref() != Some("history") {
        jobs.extend((0..n_host_cases).filter(|c| only_case.is_none_or(|o| o == *c)).map(Job::Hostile));
    }
    if only_case.is_some() {
        crate::world::FULL_TRACE.store(true, Ordering::Relaxed);
    }
    let full = only_case.is_some();
    let jobs = Arc::new(jobs);
    let next = Arc::new(AtomicU64::new(0));
    let (tx, rx) = mpsc::channel::<(bool, CaseResult)>();
    let seed = args.seed;
    let deadline_s = args.param_u64("deadline_s", if args.tier == Tier::Quick { 600 } else { 3 * 3600 });
    let started = std::time::Instant::now();

    // What each worker is busy with (for the stall watchdog below).
    let in_flight: Arc<std::sync::Mutex<Vec<Option<(String, std::time::Instant)>>>> =
        Arc::new(std::sync::Mutex::new(vec![None; threads]));
    let mut handles = Vec::new();
    for t in 0..threads {
        let jobs = jobs.clone();
        let next = next.clone();
        let tx = tx.clone();
        let in_flight = in_flight.clone();
        handles.push(
            std::thread::Builder::new()
                .name(format!("c39-{t}"))
                .stack_size(64 << 20)
                .spawn(move || {
                    let rt = tokio::runtime::Builder::new_current_thread().enable_all().build().expect("rt");
                    loop {
                        let i = next.fetch_add(1, Ordering::SeqCst) as usize;
                        if i >= jobs.len() || started.elapsed().as_secs() > deadline_s {
                            break;
                        }
                        in_flight.lock().unwrap()[t] = Some((
                            match jobs[i] {
                                Job::History(c) => format!("stage=history case={c}"),
                                Job::Hostile(c) => format!("stage=hostile case={c}"),
                            },
                            std::time::Instant::now(),
                        ));
                        let (is_hist, r) = match jobs[i] {
                            Job::History(c) => (true, rt.block_on(history::run_case(seed, c, c < 2 || full))),
                            Job::Hostile(c) => {
                                (false, rt.block_on(hostile::run_case(seed, c, per_case as usize, big, c < 2 || full)))
                            }
                        };
                        in_flight.lock().unwrap()[t] = None;
                        if tx.send((is_hist, r)).is_err() {
                            break;
                        }
                    }
                })
                .expect("spawn"),
        );
    }
    drop(tx);

    let mut done_hist = 0u64;
    let mut done_host = 0u64;
    let total = jobs.len() as u64;
    // Stall watchdog: a case that keeps a worker busy (CPU-bound inside the code under test, which
    // cannot be interrupted in-process) for longer than `case_stall_s` ends the run as
    // inconclusive, naming the case. It is never a verdict.
    let case_stall_s = args.param_u64("case_stall_s", if args.tier == Tier::Quick { 420 } else { 1500 });
    let mut stalled: Vec<String> = Vec::new();
    loop {
        let (is_hist, r) = match rx.recv_timeout(std::time::Duration::from_secs(5)) {
            Ok(x) => x,
            Err(mpsc::RecvTimeoutError::Disconnected) => break,
            Err(mpsc::RecvTimeoutError::Timeout) => {
                stalled = in_flight
                    .lock()
                    .unwrap()
                    .iter()
                    .flatten()
                    .filter(|(_, since)| since.elapsed().as_secs() > case_stall_s)
                    .map(|(what, since)| format!("{what} ({} s)", since.elapsed().as_secs()))
                    .collect();
                if stalled.is_empty() {
                    continue;
                }
                break;
            }
        };
        let done = done_hist + done_host + 1;
        if total >= 200 && done % (total / 20) == 0 {
            eprintln!("C39: {done}/{total} cases, {:.0}s", started.elapsed().as_secs_f64());
        }
        if is_hist {
            done_hist += 1;
        } else {
            done_host += 1;
        }
        for k in r.keys {
            rep.case(k);
        }
        for (sig, what, witness) in r.violations {
            rep.violation(&sig, what, witness);
        }
        for (k, v) in r.bumps {
            rep.bump(&k, v);
        }
        for i in r.inconclusive {
            rep.inconclusive(i);
        }
        if let Some(s) = r.sample {
            rep.sample(s);
        }
    }
    let mut worker_died = false;
    if stalled.is_empty() {
        for h in handles {
            if h.join().is_err() {
                worker_died = true;
            }
        }
    } else {
        rep.inconclusive(format!(
            "watchdog: case(s) did not finish within {case_stall_s} s of CPU-bound processing (not a \
             verdict; replay with `--seed {seed} <case>`): {}",
            stalled.join(", ")
        ));
    }
    if worker_died {
        rep.inconclusive("a harness worker thread died outside catch_unwind (harness bug or abort)");
    }
    let planned = jobs.len() as u64;
    if done_hist + done_host < planned && stalled.is_empty() {
        rep.inconclusive(format!(
            "wall-clock budget of {deadline_s} s reached after {} of {planned} cases",
            done_hist + done_host
        ));
    }
    let nontrivial_hist = rep.extra.get("histories_nontrivial").and_then(|v| v.as_u64()).unwrap_or(0);
    if done_hist > 0 && nontrivial_hist * 2 < done_hist {
        rep.inconclusive(format!(
            "only {nontrivial_hist} of {done_hist} histories were non-trivial (>= 10 judged re-deliveries over >= 3 kinds)"
        ));
    }
    rep.extra("histories_run", json!(done_hist));
    rep.extra("hostile_cases_run", json!(done_host));
    rep.extra("threads", json!(threads));
    rep.extra("oversized_vector_len_max", json!(big));
    rep.finish(args);
    if !stalled.is_empty() {
        // Stuck workers cannot be joined.
        std::process::exit(0);
    }
}
