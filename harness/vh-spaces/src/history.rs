//! Stage A of C39: random spaces histories over 2–4 of the crate's own test peers. All messages go
//! into one global log (creation order = a causal order); every peer processes the log in order
//! (its own messages included: local creation is not "processing"), lagging behind by random
//! amounts so that concurrent auth/space operations arise. Every (peer, message) pair whose first
//! `Manager::process` call returned is re-delivered exactly once at a random later position; the
//! re-delivery must leave every state digest untouched and return no events.

use p2panda_auth::Access;
use p2panda_core::{Hash, VerifyingKey};
use vh_common::{Rng, Value, hash_of, json};

use crate::world::*;

pub struct World {
    pub peers: Vec<Peer>,
    pub log: Vec<Msg>,
    pub spaces: Vec<Hash>,
    pub groups: Vec<VerifyingKey>,
    pub trace: Vec<String>,
    pub kinds_redelivered: std::collections::BTreeSet<String>,
}

fn access(rng: &mut Rng) -> (Access<()>, &'static str) {
    match rng.below(8) {
        0 => (Access::pull(), "pull"),
        1 | 2 => (Access::read(), "read"),
        3 | 4 => (Access::write(), "write"),
        _ => (Access::manage(), "manage"),
    }
}

impl World {
    pub async fn new(n_peers: usize, rng: &mut Rng) -> World {
        let mut peers = Vec::new();
        // At least one peer (usually most) rotates its pre-key with every key-bundle message.
        let must_rotate = rng.usize_below(n_peers);
        for i in 0..n_peers {
            let rotate = i == must_rotate || rng.chance(0.6);
            peers.push(Peer::new(i, rng, rotate).await);
        }
        World {
            peers,
            log: Vec::new(),
            spaces: Vec::new(),
            groups: Vec::new(),
            trace: Vec::new(),
            kinds_redelivered: Default::default(),
        }
    }

    pub fn push(&mut self, by: usize, what: &str, msgs: Vec<Msg>) {
        let ids: Vec<String> = msgs
            .iter()
            .map(|m| format!("{}#{}", kind(args_of(m)), short(&m.hash)))
            .collect();
        self.trace.push(format!("p{by} {what} -> log[{}..] {}", self.log.len(), ids.join(" ")));
        self.log.extend(msgs);
    }

    /// All group ids a digest should look at: explicit groups plus the groups behind the spaces.
    pub async fn all_group_ids(&self, peer: usize) -> Vec<VerifyingKey> {
        let mut ids = self.groups.clone();
        for s in &self.spaces {
            if let Ok(Some(space)) = self.peers[peer].tp.manager.space(*s).await {
                if let Ok(g) = space.group_id().await {
                    if !ids.contains(&g) {
                        ids.push(g);
                    }
                }
            }
        }
        ids
    }

    pub fn context(&self) -> Value {
        let n = self.trace.len();
        let from = n.saturating_sub(60);
        json!({
            "trace_tail": &self.trace[from..], "trace_len": n, "peers": self.peers.len(),
            "failed_first_deliveries_per_peer": self.peers.iter().map(|p| {
                p.first.values().filter(|f| !matches!(f, First::Ok)).count()
            }).collect::<Vec<_>>(),
        })
    }

    /// First delivery of log[i] to peer p.
    pub async fn deliver_first(&mut self, j: &mut Judge, p: usize, i: usize) {
        let msg = self.log[i].clone();
        let out = process(&self.peers[p], &msg).await;
        let own = msg.header.verifying_key == self.peers[p].id();
        self.trace.push(format!(
            "p{p} first{} log[{i}] {}#{} => {}",
            if own { "(own)" } else { "" },
            kind(args_of(&msg)),
            short(&msg.hash),
            out.brief()
        ));
        j.res.bump("first_deliveries", 1);
        let ctx = if matches!(out, Outcome::Panic { .. }) { self.context() } else { Value::Null };
        judge_total(j, p, &msg, &out, "first", &ctx);
        let first = match &out {
            Outcome::Ok { events, .. } => {
                j.res.bump("first_ok", 1);
                j.res.bump("first_events", events.len() as u64);
                First::Ok
            }
            Outcome::Err(e) => {
                j.res.bump("first_err", 1);
                j.res.bump(&format!("first_err.{}.{}", kind(args_of(&msg)), err_class(e)), 1);
                First::Err(err_class(e))
            }
            Outcome::Panic { .. } => {
                j.res.bump("first_panic", 1);
                First::Panic
            }
            Outcome::Timeout => First::Err("timeout".into()),
        };
        let peer = &mut self.peers[p];
        peer.first.insert(msg.hash, first);
        peer.pending_redelivery.push(i);
    }

    /// Re-delivery of log[i] to peer p; judged for idempotence iff the first processing was Ok.
    pub async fn redeliver(&mut self, j: &mut Judge, p: usize, i: usize) {
        let msg = self.log[i].clone();
        let first = self.peers[p].first.get(&msg.hash).cloned();
        let gids = self.all_group_ids(p).await;
        let before = digest(&self.peers[p], &gids).await;
        let out = process(&self.peers[p], &msg).await;
        let after = digest(&self.peers[p], &gids).await;
        let own = msg.header.verifying_key == self.peers[p].id();
        self.peers[p].redelivered.insert(msg.hash);
        self.trace.push(format!(
            "p{p} AGAIN{} log[{i}] {}#{} (first {:?}) => {}",
            if own { "(own)" } else { "" },
            kind(args_of(&msg)),
            short(&msg.hash),
            first,
            out.brief()
        ));
        j.res.bump("redeliveries", 1);
        if let p2panda_spaces::SpacesArgs::KeyBundle { .. } = args_of(&msg) {
            // Did this peer meanwhile process a newer, different bundle of the same author?
            let mine = args_cbor_hex(args_of(&msg));
            let newer = self.log[i + 1..].iter().any(|m| {
                m.header.verifying_key == msg.header.verifying_key
                    && matches!(args_of(m), p2panda_spaces::SpacesArgs::KeyBundle { .. })
                    && args_cbor_hex(args_of(m)) != mine
                    && matches!(self.peers[p].first.get(&m.hash), Some(First::Ok))
            });
            if newer {
                j.res.bump("older_key_bundle_redelivered_after_newer_one", 1);
            }
        }
        let interesting = matches!(out, Outcome::Panic { .. })
            || !matches!(&out, Outcome::Ok { events, .. } if events.is_empty())
            || before != after;
        let ctx = if interesting { self.context() } else { Value::Null };
        judge_total(j, p, &msg, &out, "second", &ctx);
        match first {
            Some(First::Ok) => {
                self.kinds_redelivered.insert(format!(
                    "{}{}",
                    kind(args_of(&msg)),
                    action_kind(args_of(&msg)).map(|s| format!(":{s}")).unwrap_or_default()
                ));
                judge_redelivery(j, p, own, &msg, &before, &after, &out, &ctx);
            }
            _ => {
                // First processing did not complete: the second one may legitimately be the one
                // that applies the message. Recorded only.
                j.res.bump("redeliveries_after_failed_first_not_judged", 1);
            }
        }
    }

    pub async fn sync_some(&mut self, j: &mut Judge, p: usize, max: usize) {
        let end = (self.peers[p].cursor + max).min(self.log.len());
        while self.peers[p].cursor < end {
            let i = self.peers[p].cursor;
            self.peers[p].cursor += 1;
            self.deliver_first(j, p, i).await;
        }
    }

    pub async fn redeliver_random(&mut self, j: &mut Judge, rng: &mut Rng) -> bool {
        let cands: Vec<usize> = (0..self.peers.len())
            .filter(|p| !self.peers[*p].pending_redelivery.is_empty())
            .collect();
        if cands.is_empty() {
            return false;
        }
        let p = *rng.pick(&cands);
        let k = rng.usize_below(self.peers[p].pending_redelivery.len());
        let i = self.peers[p].pending_redelivery.swap_remove(k);
        self.redeliver(j, p, i).await;
        true
    }

    // -- local operations (not judged; their results only shape the history) ---------------------

    pub async fn op_key_bundle(&mut self, p: usize) {
        let m = self.peers[p].tp.manager.clone();
        match local(m.key_bundle_message()).await {
            Ok(msg) => self.push(p, "key_bundle", vec![msg]),
            Err(e) => self.trace.push(format!("p{p} key_bundle FAILED {e}")),
        }
    }

    pub async fn op_create_space(&mut self, p: usize, rng: &mut Rng, res: &mut CaseResult) {
        let id = Hash::digest(rng.bytes(16));
        let mut members: Vec<(VerifyingKey, Access<()>)> = Vec::new();
        let mut names = Vec::new();
        for q in 0..self.peers.len() {
            if q != p && rng.chance(0.6) {
                let (a, n) = access(rng);
                members.push((self.peers[q].id(), a));
                names.push(format!("p{q}:{n}"));
            }
        }
        if !self.groups.is_empty() && rng.chance(0.3) {
            let g = *rng.pick(&self.groups);
            let (a, n) = access(rng);
            members.push((g, a));
            names.push(format!("g{}:{n}", &g.to_hex()[..6]));
        }
        if rng.chance(0.15) {
            members.push((self.peers[p].id(), Access::manage()));
        }
        let m = self.peers[p].tp.manager.clone();
        match local(m.create_space_persisted(id, &members)).await {
            Ok((_space, msgs)) => {
                self.spaces.push(id);
                res.bump("local.create_space.ok", 1);
                self.push(p, &format!("create_space {} [{}]", short(&id), names.join(",")), msgs);
            }
            Err(e) => {
                note_local_failure(res, "create_space", &e);
                self.trace.push(format!("p{p} create_space FAILED {e}"));
            }
        }
    }

    pub async fn op_create_group(&mut self, p: usize, rng: &mut Rng, res: &mut CaseResult) {
        let mut members: Vec<(VerifyingKey, Access<()>)> = Vec::new();
        let mut names = Vec::new();
        for q in 0..self.peers.len() {
            if q == p || rng.chance(0.5) {
                let (a, n) = if q == p && rng.chance(0.8) { (Access::manage(), "manage") } else { access(rng) };
                members.push((self.peers[q].id(), a));
                names.push(format!("p{q}:{n}"));
            }
        }
        let m = self.peers[p].tp.manager.clone();
        match local(m.create_group_persisted(&members)).await {
            Ok((group, msg)) => {
                self.groups.push(group.id());
                res.bump("local.create_group.ok", 1);
                self.push(p, &format!("create_group g{} [{}]", &group.id().to_hex()[..6], names.join(",")), vec![msg]);
            }
            Err(e) => {
                note_local_failure(res, "create_group", &e);
                self.trace.push(format!("p{p} create_group FAILED {e}"));
            }
        }
    }

    fn some_actor(&self, rng: &mut Rng) -> (VerifyingKey, String) {
        if !self.groups.is_empty() && rng.chance(0.25) {
            let g = *rng.pick(&self.groups);
            (g, format!("g{}", &g.to_hex()[..6]))
        } else {
            let q = rng.usize_below(self.peers.len());
            (self.peers[q].id(), format!("p{q}"))
        }
    }

    pub async fn op_space_member(&mut self, p: usize, add: bool, rng: &mut Rng, res: &mut CaseResult) {
        if self.spaces.is_empty() {
            return;
        }
        let sid = *rng.pick(&self.spaces);
        let (actor, name) = self.some_actor(rng);
        let m = self.peers[p].tp.manager.clone();
        let space = match m.space(sid).await {
            Ok(Some(s)) => s,
            _ => return,
        };
        let label = if add { "space_add" } else { "space_remove" };
        let r = if add {
            let (a, n) = access(rng);
            local(space.add_persisted(actor, a)).await.map(|x| (x, n))
        } else {
            local(space.remove_persisted(actor)).await.map(|x| (x, ""))
        };
        match r {
            Ok(((m1, m2), n)) => {
                res.bump(&format!("local.{label}.ok"), 1);
                self.push(p, &format!("{label} {} {name}:{n}", short(&sid)), vec![m1, m2]);
            }
            Err(e) => {
                note_local_failure(res, label, &e);
                self.trace.push(format!("p{p} {label} {} {name} FAILED {e}", short(&sid)));
            }
        }
    }

    pub async fn op_group_member(&mut self, p: usize, add: bool, rng: &mut Rng, res: &mut CaseResult) {
        if self.groups.is_empty() {
            return;
        }
        let gid = *rng.pick(&self.groups);
        let (actor, name) = self.some_actor(rng);
        let m = self.peers[p].tp.manager.clone();
        let group = match m.group(gid).await {
            Ok(Some(g)) => g,
            _ => return,
        };
        let label = if add { "group_add" } else { "group_remove" };
        let r = if add {
            let (a, _) = access(rng);
            local(group.add_persisted(actor, a)).await
        } else {
            local(group.remove_persisted(actor)).await
        };
        match r {
            Ok(msg) => {
                res.bump(&format!("local.{label}.ok"), 1);
                self.push(p, &format!("{label} g{} {name}", &gid.to_hex()[..6]), vec![msg]);
            }
            Err(e) => {
                note_local_failure(res, label, &e);
                self.trace.push(format!("p{p} {label} g{} {name} FAILED {e}", &gid.to_hex()[..6]));
            }
        }
    }

    pub async fn op_publish(&mut self, p: usize, rng: &mut Rng, res: &mut CaseResult) {
        if self.spaces.is_empty() {
            return;
        }
        let sid = *rng.pick(&self.spaces);
        let m = self.peers[p].tp.manager.clone();
        let space = match m.space(sid).await {
            Ok(Some(s)) => s,
            _ => return,
        };
        let n = rng.usize_below(48);
        let payload = rng.bytes(n);
        match local(space.publish_persisted(&payload)).await {
            Ok(msg) => {
                res.bump("local.publish.ok", 1);
                self.push(p, &format!("publish {} {}B", short(&sid), payload.len()), vec![msg]);
            }
            Err(e) => {
                note_local_failure(res, "publish", &e);
                self.trace.push(format!("p{p} publish {} FAILED {e}", short(&sid)));
            }
        }
    }

    pub async fn op_repair(&mut self, p: usize, res: &mut CaseResult) {
        let m = self.peers[p].tp.manager.clone();
        let need = match local(m.spaces_repair_required()).await {
            Ok(n) => n,
            Err(e) => {
                note_local_panic(res, &e);
                self.trace.push(format!("p{p} spaces_repair_required FAILED {e}"));
                return;
            }
        };
        if need.is_empty() {
            return;
        }
        match local(m.repair_spaces_persisted(&need)).await {
            Ok(msgs) => {
                res.bump("local.repair.ok", 1);
                self.push(p, &format!("repair {} space(s)", need.len()), msgs);
            }
            Err(e) => {
                note_local_failure(res, "repair", &e);
                self.trace.push(format!("p{p} repair FAILED {e}"));
            }
        }
    }
}

fn note_local_failure(res: &mut CaseResult, label: &str, e: &str) {
    res.bump(&format!("local.{label}.failed"), 1);
    if !e.starts_with("PANIC") {
        res.bump(&format!("local.{label}.failed.{}", e.trim_start_matches("err:")), 1);
    }
    note_local_panic(res, e);
}

fn note_local_panic(res: &mut CaseResult, e: &str) {
    if e.starts_with("PANIC") {
        res.bump("local_op_panics_not_judged", 1);
        res.bump(&format!("local_op_panic.{}", slug(e)), 1);
    }
}

/// One random local step of peer `p`.
pub async fn random_local_step(w: &mut World, p: usize, rng: &mut Rng, res: &mut CaseResult) {
    match rng.below(100) {
        0..=9 if w.spaces.len() < 2 => w.op_create_space(p, rng, res).await,
        10..=15 if w.groups.len() < 2 => w.op_create_group(p, rng, res).await,
        16..=35 => w.op_space_member(p, true, rng, res).await,
        36..=45 => w.op_space_member(p, false, rng, res).await,
        46..=53 => w.op_group_member(p, true, rng, res).await,
        54..=58 => w.op_group_member(p, false, rng, res).await,
        59..=68 => w.op_repair(p, res).await,
        69..=78 => w.op_key_bundle(p).await,
        _ => w.op_publish(p, rng, res).await,
    }
}

pub async fn run_case(seed: u64, case: u64, want_sample: bool) -> CaseResult {
    let mut rng = Rng::fork(seed ^ 0xA11CE, case);
    let n_peers = 2 + rng.usize_below(3);
    let steps = 30 + rng.usize_below(50);
    let mut w = World::new(n_peers, &mut rng).await;
    let mut j = Judge { seed, case, stage: "history", res: CaseResult::default() };

    // Key bundles first (most peers; a late bundle makes adds fail, which is a legitimate history).
    for p in 0..n_peers {
        if rng.chance(0.9) {
            w.op_key_bundle(p).await;
        }
    }
    for p in 0..n_peers {
        if rng.chance(0.85) {
            w.sync_some(&mut j, p, usize::MAX / 2).await;
        }
    }
    // Make sure there is something to talk about early on.
    let creator = rng.usize_below(n_peers);
    w.op_create_space(creator, &mut rng, &mut j.res).await;

    for _ in 0..steps {
        match rng.below(100) {
            0..=29 => {
                let p = rng.usize_below(n_peers);
                let lag = w.log.len() - w.peers[p].cursor;
                if lag > 0 {
                    let k = if rng.chance(0.6) { lag } else { 1 + rng.usize_below(lag) };
                    w.sync_some(&mut j, p, k).await;
                }
            }
            30..=59 => {
                w.redeliver_random(&mut j, &mut rng).await;
            }
            _ => {
                let p = rng.usize_below(n_peers);
                // Mostly act on fresh knowledge; sometimes on stale knowledge (concurrency).
                if rng.chance(0.65) {
                    w.sync_some(&mut j, p, usize::MAX / 2).await;
                }
                random_local_step(&mut w, p, &mut rng, &mut j.res).await;
            }
        }
    }
    // Key-bundle rotation over time: one or two authors publish 1-3 further bundles, receivers
    // process them in between, so that older bundle messages get re-delivered after newer ones.
    for _ in 0..1 + rng.usize_below(2) {
        let author = rng.usize_below(n_peers);
        for _ in 0..1 + rng.usize_below(3) {
            w.op_key_bundle(author).await;
            let p = rng.usize_below(n_peers);
            w.sync_some(&mut j, p, usize::MAX / 2).await;
            if rng.chance(0.5) {
                w.redeliver_random(&mut j, &mut rng).await;
            }
        }
    }
    // Everybody catches up, repairs once, catches up again.
    for p in 0..n_peers {
        w.sync_some(&mut j, p, usize::MAX / 2).await;
    }
    if rng.chance(0.7) {
        let p = rng.usize_below(n_peers);
        w.op_repair(p, &mut j.res).await;
        for p in 0..n_peers {
            w.sync_some(&mut j, p, usize::MAX / 2).await;
        }
    }
    // Flush: every (peer, message) not yet re-delivered is re-delivered now, in random order.
    while w.redeliver_random(&mut j, &mut rng).await {}

    let mut res = j.res;
    let judged = res.bumps.get("redeliveries_judged").copied().unwrap_or(0);

    // Non-trivial: at least 10 judged re-deliveries covering at least 3 message kinds, two peers.
    let kinds: Vec<String> = w.kinds_redelivered.iter().cloned().collect();
    let base_kinds: std::collections::BTreeSet<&str> =
        kinds.iter().map(|k| k.split(':').next().unwrap()).collect();
    let nontrivial = judged >= 10 && base_kinds.len() >= 3;
    let shape: Vec<String> = w
        .log
        .iter()
        .map(|m| format!("{}{}", kind(args_of(m)), action_kind(args_of(m)).unwrap_or("")))
        .collect();
    let key = hash_of(&(n_peers, shape.clone(), w.trace.len()));
    res.keys.push(if nontrivial { Some(key) } else { None });
    res.bump("histories_nontrivial", nontrivial as u64);
    res.bump("log_messages", w.log.len() as u64);
    {
        use std::collections::{BTreeMap, BTreeSet};
        let mut per_author: BTreeMap<String, BTreeSet<String>> = BTreeMap::new();
        for m in &w.log {
            if let p2panda_spaces::SpacesArgs::KeyBundle { .. } = args_of(m) {
                per_author
                    .entry(m.header.verifying_key.to_hex())
                    .or_default()
                    .insert(args_cbor_hex(args_of(m)));
            }
        }
        let rotating = per_author.values().filter(|s| s.len() >= 2).count() as u64;
        res.bump("authors_with_two_or_more_distinct_key_bundles", rotating);
        res.bump("histories_with_key_bundle_rotation", (rotating > 0) as u64);
    }
    for k in &kinds {
        res.bump(&format!("histories_with_judged_kind.{k}"), 1);
    }
    if want_sample {
        let n = w.trace.len();
        res.sample = Some(json!({
            "stage": "history", "seed": seed, "case": case, "peers": n_peers,
            "log_len": w.log.len(), "log_shape": shape,
            "judged_redeliveries": judged, "kinds_judged": kinds,
            "trace_head": &w.trace[..if FULL_TRACE.load(std::sync::atomic::Ordering::Relaxed) { n } else { n.min(40) }],
        }));
    }
    res
}
