//! vh-spaces: runtime monitors for p2panda-spaces (C39).

mod c39;
mod history;
mod hostile;
mod world;

use vh_common::Args;

fn main() {
    let args = Args::parse();
    match args.prop.as_str() {
        "C39" => c39::run(&args),
        other => panic!("vh-spaces does not serve {other}"),
    }
}
