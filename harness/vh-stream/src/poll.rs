//! Hand-polling of futures with the real task waker: count `Pending`s and drop the future after
//! its j-th `Pending` (cancellation at an enumerated await point).

use std::future::Future;
use std::pin::Pin;
use std::task::{Context, Poll};

/// Polls `fut` with the waker of the surrounding task (so whatever the future registered with —
/// sqlx's worker thread, tokio's semaphore, a timer — wakes us normally). After the `limit`-th
/// `Pending` the inner future is dropped on the spot and `Cancelled` is returned. `limit == 0`
/// means never cancel.
pub struct CancelAfter<F: Future> {
    fut: Option<Pin<Box<F>>>,
    limit: u64,
    pendings: u64,
}

#[derive(Debug)]
pub enum Polled<T> {
    /// Completed after this many `Pending`s.
    Done(T, u64),
    /// Dropped after this many `Pending`s.
    Cancelled(u64),
}

impl<F: Future> CancelAfter<F> {
    pub fn new(fut: F, limit: u64) -> Self {
        CancelAfter { fut: Some(Box::pin(fut)), limit, pendings: 0 }
    }
}

impl<F: Future> Future for CancelAfter<F> {
    type Output = Polled<F::Output>;

    fn poll(mut self: Pin<&mut Self>, cx: &mut Context<'_>) -> Poll<Self::Output> {
        let this = &mut *self;
        let fut = this.fut.as_mut().expect("polled after completion");
        match fut.as_mut().poll(cx) {
            Poll::Ready(v) => {
                this.fut = None;
                Poll::Ready(Polled::Done(v, this.pendings))
            }
            Poll::Pending => {
                this.pendings += 1;
                if this.limit != 0 && this.pendings >= this.limit {
                    // Drop the future right here, at this await point.
                    this.fut = None;
                    Poll::Ready(Polled::Cancelled(this.pendings))
                } else {
                    Poll::Pending
                }
            }
        }
    }
}

impl<F: Future> Unpin for CancelAfter<F> {}
