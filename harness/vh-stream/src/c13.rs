//! C13 — processor streams deliver every output exactly once and in order.
//!
//! The real `ProcessorStream` / `Buffer` / `ComposedProcessors` / `PipelineBuilder` code is driven
//! on a current-thread runtime with paused (virtual) time. The processors plugged into it are
//! harness-defined FIFO queues whose `process` and `next` sleep per-item / per-call virtual delays
//! and whose `next` is itself cancel-safe (the pop is its last action). Every item is a unique,
//! non-clonable object that reports to a tracker where it was last seen; its `Drop` tells the
//! tracker when it is destroyed anywhere but at the consumer, so a loss is attributed to the exact
//! layer boundary where the real code dropped it.

use std::cell::{Cell, RefCell};
use std::collections::{BTreeMap, HashMap, VecDeque};
use std::convert::Infallible;
use std::future::Future;
use std::pin::Pin;
use std::rc::Rc;
use std::task::{Context, Poll};
use std::time::Duration;

use futures_util::stream::LocalBoxStream;
use futures_util::{Stream, StreamExt};
use p2panda_stream::{PipelineBuilder, Processor, StreamLayerExt};
use tokio::sync::Notify;
use tokio::time::{Sleep, sleep, timeout};
use vh_common::{Args, Report, Rng, Value, hash_of, json};

// ---------------------------------------------------------------------------------------------
// Tracker and items
// ---------------------------------------------------------------------------------------------

#[derive(Clone, Copy, Debug, PartialEq, Eq, Hash)]
enum Role {
    /// Handed directly to `.layer()` (or a one-layer pipeline): driven by `Buffer` only.
    StreamLayer,
    /// `first` of the innermost `ComposedProcessors`.
    ComposedFirst,
    /// `second` of some `ComposedProcessors`.
    ComposedSecond,
}

impl Role {
    fn name(self) -> &'static str {
        match self {
            Role::StreamLayer => "stream-layer",
            Role::ComposedFirst => "composed-first",
            Role::ComposedSecond => "composed-second",
        }
    }
}

#[derive(Clone, Copy, Debug, PartialEq, Eq, Hash)]
enum Loc {
    /// Created, still inside the harness input stream.
    Input,
    /// `process()` of layer n entered, item not queued yet (the processor is "working").
    InProcess(usize),
    /// Sitting in the output queue of layer n.
    Queued(usize),
    /// Returned by `next()` of layer n, now owned by the code under test.
    Popped(usize),
    /// Received by the consumer.
    Yielded,
}

impl Loc {
    fn kind(self) -> &'static str {
        match self {
            Loc::Input => "input",
            Loc::InProcess(_) => "in-process",
            Loc::Queued(_) => "queued",
            Loc::Popped(_) => "popped",
            Loc::Yielded => "yielded",
        }
    }

    fn layer(self) -> Option<usize> {
        match self {
            Loc::InProcess(n) | Loc::Queued(n) | Loc::Popped(n) => Some(n),
            _ => None,
        }
    }
}

#[derive(Default)]
struct Tracker {
    /// Global event log: the observed interleaving.
    events: RefCell<Vec<String>>,
    loc: RefCell<HashMap<String, Loc>>,
    /// Items destroyed while the case was still running and that were not at the consumer.
    lost: RefCell<Vec<(String, Loc)>>,
    teardown: Cell<bool>,
    /// `next` futures of harness processors dropped before completing, per layer.
    next_cancelled: RefCell<BTreeMap<usize, u64>>,
    /// `process` futures dropped before the item was queued, per layer.
    process_cancelled: RefCell<BTreeMap<usize, u64>>,
    roles: RefCell<Vec<Role>>,
}

impl Tracker {
    fn ev(&self, s: String) {
        self.events.borrow_mut().push(s);
    }

    fn at(&self, key: &str, loc: Loc) {
        self.loc.borrow_mut().insert(key.to_string(), loc);
        self.ev(format!("{key}@{}", loc_str(loc)));
    }

    fn role_of(&self, loc: Loc) -> Option<Role> {
        loc.layer().map(|n| self.roles.borrow()[n])
    }
}

fn loc_str(loc: Loc) -> String {
    match loc {
        Loc::Input => "input".into(),
        Loc::InProcess(n) => format!("L{n}.process"),
        Loc::Queued(n) => format!("L{n}.queue"),
        Loc::Popped(n) => format!("L{n}.next->"),
        Loc::Yielded => "consumer".into(),
    }
}

/// A unique, non-clonable item.
struct Item {
    key: String,
    /// Set when a processor legitimately consumed this item to produce its outputs.
    consumed: Cell<bool>,
    t: Rc<Tracker>,
}

impl Item {
    fn new(key: String, t: &Rc<Tracker>) -> Item {
        t.loc.borrow_mut().insert(key.clone(), Loc::Input);
        Item { key, consumed: Cell::new(false), t: t.clone() }
    }
}

impl Drop for Item {
    fn drop(&mut self) {
        if self.consumed.get() || self.t.teardown.get() {
            return;
        }
        let loc = self.t.loc.borrow().get(&self.key).copied().unwrap_or(Loc::Input);
        if loc != Loc::Yielded {
            self.t.ev(format!("{}!dropped@{}", self.key, loc_str(loc)));
            self.t.lost.borrow_mut().push((self.key.clone(), loc));
        }
    }
}

// ---------------------------------------------------------------------------------------------
// Harness processor: FIFO queue with virtual delays
// ---------------------------------------------------------------------------------------------

/// Number of outputs per input: deterministic function of the item key, so that the expected
/// output list can be computed without running anything.
#[derive(Clone, Copy, Debug, PartialEq, Eq)]
enum Fan {
    One,
    /// Keys whose last byte is even produce two outputs, odd ones one.
    SomeTwice,
    /// Every third key (by hash) is filtered out.
    SomeDropped,
}

fn fan_count(fan: Fan, key: &str) -> usize {
    match fan {
        Fan::One => 1,
        Fan::SomeTwice => {
            if key.as_bytes().last().copied().unwrap_or(0) % 2 == 0 { 2 } else { 1 }
        }
        Fan::SomeDropped => {
            if stable_hash(key) % 3 == 0 { 0 } else { 1 }
        }
    }
}

fn stable_hash(s: &str) -> u64 {
    // FNV-1a: independent of std's hasher so replays are stable.
    let mut h = 0xcbf2_9ce4_8422_2325u64;
    for b in s.bytes() {
        h ^= b as u64;
        h = h.wrapping_mul(0x1000_0000_01b3);
    }
    h
}

fn outputs_of(fan: Fan, layer: usize, key: &str) -> Vec<String> {
    match fan_count(fan, key) {
        0 => vec![],
        1 => vec![key.to_string()],
        n => (0..n).map(|i| format!("{key}.{layer}{}", (b'a' + i as u8) as char)).collect(),
    }
}

#[derive(Clone, Debug)]
struct LayerPlan {
    fan: Fan,
    delays: Vec<u64>,
    delay_seed: u64,
}

impl LayerPlan {
    fn process_delay(&self, key: &str) -> u64 {
        self.delays[(stable_hash(key) ^ self.delay_seed) as usize % self.delays.len()]
    }

    fn next_delay(&self, call: u64) -> u64 {
        let mut r = Rng::fork(self.delay_seed, call);
        self.delays[r.usize_below(self.delays.len())]
    }
}

struct Fifo {
    n: usize,
    plan: LayerPlan,
    q: RefCell<VecDeque<Item>>,
    notify: Notify,
    next_calls: Cell<u64>,
    t: Rc<Tracker>,
}

impl Fifo {
    fn new(n: usize, plan: LayerPlan, t: &Rc<Tracker>) -> Fifo {
        Fifo {
            n,
            plan,
            q: RefCell::new(VecDeque::new()),
            notify: Notify::new(),
            next_calls: Cell::new(0),
            t: t.clone(),
        }
    }
}

struct CancelGuard<'a> {
    map: &'a RefCell<BTreeMap<usize, u64>>,
    t: &'a Tracker,
    what: &'static str,
    n: usize,
    armed: bool,
}

impl Drop for CancelGuard<'_> {
    fn drop(&mut self) {
        if self.armed && !self.t.teardown.get() {
            *self.map.borrow_mut().entry(self.n).or_insert(0) += 1;
            self.t.ev(format!("L{}.{}!cancelled", self.n, self.what));
        }
    }
}

impl Processor<Item> for Fifo {
    type Output = Item;
    type Error = Infallible;

    async fn process(&self, input: Item) -> Result<(), Infallible> {
        self.t.at(&input.key, Loc::InProcess(self.n));
        let mut guard = CancelGuard {
            map: &self.t.process_cancelled,
            t: &self.t,
            what: "process",
            n: self.n,
            armed: true,
        };
        let d = self.plan.process_delay(&input.key);
        if d > 0 {
            sleep(Duration::from_millis(d)).await;
        }
        // From here on there is no await: produce the outputs and queue them.
        let outs = outputs_of(self.plan.fan, self.n, &input.key);
        if outs.len() == 1 && outs[0] == input.key {
            self.t.at(&input.key, Loc::Queued(self.n));
            self.q.borrow_mut().push_back(input);
        } else {
            input.consumed.set(true);
            self.t.ev(format!("{}=>{}", input.key, outs.join("+")));
            for k in outs {
                let item = Item::new(k, &self.t);
                self.t.at(&item.key, Loc::Queued(self.n));
                self.q.borrow_mut().push_back(item);
            }
            drop(input);
        }
        guard.armed = false;
        self.notify.notify_one();
        Ok(())
    }

    async fn next(&self) -> Result<Item, Infallible> {
        let call = self.next_calls.get();
        self.next_calls.set(call + 1);
        let mut guard = CancelGuard {
            map: &self.t.next_cancelled,
            t: &self.t,
            what: "next",
            n: self.n,
            armed: true,
        };
        let d = self.plan.next_delay(call);
        if d > 0 {
            sleep(Duration::from_millis(d)).await;
        }
        loop {
            // Cancel-safe: the pop is the last action before returning.
            let popped = self.q.borrow_mut().pop_front();
            if let Some(item) = popped {
                self.t.at(&item.key, Loc::Popped(self.n));
                guard.armed = false;
                return Ok(item);
            }
            self.notify.notified().await;
        }
    }
}

// ---------------------------------------------------------------------------------------------
// Input stream
// ---------------------------------------------------------------------------------------------

/// Yields the items with the planned arrival gaps; afterwards either stays pending forever or
/// keeps answering `None` (a fused, terminated stream).
struct Feeder {
    items: VecDeque<(u64, Item)>,
    sleeping: Option<Pin<Box<Sleep>>>,
    terminate: bool,
    t: Rc<Tracker>,
}

impl Stream for Feeder {
    type Item = Item;

    fn poll_next(mut self: Pin<&mut Self>, cx: &mut Context<'_>) -> Poll<Option<Item>> {
        let this = &mut *self;
        loop {
            if let Some(s) = this.sleeping.as_mut() {
                match s.as_mut().poll(cx) {
                    Poll::Pending => return Poll::Pending,
                    Poll::Ready(()) => {
                        this.sleeping = None;
                        let (_, item) = this.items.pop_front().expect("item behind a gap");
                        this.t.ev(format!("{}<-input", item.key));
                        return Poll::Ready(Some(item));
                    }
                }
            }
            match this.items.front() {
                None => {
                    return if this.terminate { Poll::Ready(None) } else { Poll::Pending };
                }
                Some((gap, _)) => {
                    if *gap == 0 {
                        let (_, item) = this.items.pop_front().unwrap();
                        this.t.ev(format!("{}<-input", item.key));
                        return Poll::Ready(Some(item));
                    }
                    this.sleeping = Some(Box::pin(sleep(Duration::from_millis(*gap))));
                }
            }
        }
    }
}

// ---------------------------------------------------------------------------------------------
// Case description
// ---------------------------------------------------------------------------------------------

#[derive(Clone, Debug)]
struct Case {
    /// Sizes of the stages: a stage of size 1 is a bare processor given to `.layer()` (or, if
    /// `wrap_single`, a one-layer `Pipeline`); a stage of size 2..3 is a `PipelineBuilder` chain
    /// (nested `ComposedProcessors`). Stages are chained with `.layer()`.
    stages: Vec<usize>,
    wrap_single: bool,
    /// Drive a single pipeline by hand (`process` / `timeout(next)`) instead of through a stream.
    direct: bool,
    layers: Vec<LayerPlan>,
    /// (arrival gap in virtual ms, key)
    inputs: Vec<(u64, String)>,
    terminate_input: bool,
    /// Consumer behaviour: gaps between polls and patience of each poll (0 = wait until ready).
    consumer_seed: u64,
    consumer_cancels: bool,
}

fn gen_case(rng: &mut Rng) -> Case {
    let shapes: &[&[usize]] = &[
        &[1],
        &[1, 1],
        &[1, 1, 1],
        &[2],
        &[3],
        &[1, 2],
        &[2, 1],
        &[2, 2],
        &[4],
    ];
    let direct = rng.chance(0.25);
    let stages: Vec<usize> = if direct {
        vec![*rng.pick(&[2usize, 2, 3, 1, 4])]
    } else {
        rng.pick(shapes).to_vec()
    };
    let total: usize = stages.iter().sum();
    let delay_sets: &[&[u64]] = &[&[0, 1, 2, 5], &[0], &[1], &[0, 1], &[2, 5], &[0, 0, 0, 3]];
    let mut layers = Vec::new();
    for _ in 0..total {
        let fan = match rng.below(10) {
            0 | 1 => Fan::SomeTwice,
            2 => Fan::SomeDropped,
            _ => Fan::One,
        };
        layers.push(LayerPlan {
            fan,
            delays: rng.pick(delay_sets).to_vec(),
            delay_seed: rng.next_u64(),
        });
    }
    let many = rng.chance(0.2);
    let n_items = 3 + rng.usize_below(if many { 38 } else { 10 });
    let gap_set: &[u64] = *rng.pick(&[&[0u64, 1, 2, 5][..], &[0][..], &[1, 2][..], &[0, 0, 3][..], &[7][..]]);
    let inputs = (0..n_items)
        .map(|i| (*rng.pick(gap_set), format!("i{i}")))
        .collect();
    Case {
        stages,
        wrap_single: rng.chance(0.3),
        direct,
        layers,
        inputs,
        terminate_input: rng.chance(0.4),
        consumer_seed: rng.next_u64(),
        consumer_cancels: rng.chance(0.4),
    }
}

fn roles_of(case: &Case) -> Vec<Role> {
    let mut roles = Vec::new();
    for &sz in &case.stages {
        if sz == 1 {
            roles.push(Role::StreamLayer);
        } else {
            roles.push(Role::ComposedFirst);
            for _ in 1..sz {
                roles.push(Role::ComposedSecond);
            }
        }
    }
    roles
}

/// Reference: outputs of the chain, in order, from the statement (FIFO layers, deterministic fan).
fn expected_outputs(case: &Case) -> Vec<String> {
    let mut cur: Vec<String> = case.inputs.iter().map(|(_, k)| k.clone()).collect();
    for (n, l) in case.layers.iter().enumerate() {
        cur = cur.iter().flat_map(|k| outputs_of(l.fan, n, k)).collect();
    }
    cur
}

fn case_json(case: &Case) -> Value {
    json!({
        "stages": case.stages,
        "wrap_single": case.wrap_single,
        "direct": case.direct,
        "layers": case.layers.iter().map(|l| json!({"fan": format!("{:?}", l.fan), "delays_ms": l.delays, "delay_seed": l.delay_seed})).collect::<Vec<_>>(),
        "inputs": case.inputs,
        "terminate_input": case.terminate_input,
        "consumer_seed": case.consumer_seed,
        "consumer_cancels": case.consumer_cancels,
    })
}

// ---------------------------------------------------------------------------------------------
// Building the real streams
// ---------------------------------------------------------------------------------------------

fn unwrap_item<E>(r: Result<Item, E>) -> Item {
    match r {
        Ok(i) => i,
        Err(_) => unreachable!("harness processors are infallible"),
    }
}

fn attach_stage<'a>(
    input: LocalBoxStream<'a, Item>,
    mut procs: Vec<Fifo>,
    wrap_single: bool,
) -> LocalBoxStream<'a, Item> {
    match procs.len() {
        1 => {
            let a = procs.pop().unwrap();
            if wrap_single {
                input.layer(PipelineBuilder::<Item>::new().layer(a).build()).map(unwrap_item).boxed_local()
            } else {
                input.layer(a).map(unwrap_item).boxed_local()
            }
        }
        2 => {
            let b = procs.pop().unwrap();
            let a = procs.pop().unwrap();
            input
                .layer(PipelineBuilder::<Item>::new().layer(a).layer(b).build())
                .map(unwrap_item)
                .boxed_local()
        }
        3 => {
            let c = procs.pop().unwrap();
            let b = procs.pop().unwrap();
            let a = procs.pop().unwrap();
            input
                .layer(PipelineBuilder::<Item>::new().layer(a).layer(b).layer(c).build())
                .map(unwrap_item)
                .boxed_local()
        }
        4 => {
            let d = procs.pop().unwrap();
            let c = procs.pop().unwrap();
            let b = procs.pop().unwrap();
            let a = procs.pop().unwrap();
            input
                .layer(PipelineBuilder::<Item>::new().layer(a).layer(b).layer(c).layer(d).build())
                .map(unwrap_item)
                .boxed_local()
        }
        n => panic!("unsupported stage size {n}"),
    }
}

struct Outcome {
    yielded: Vec<String>,
    /// Virtual time at which the consumer gave up waiting (runtime idle until then).
    quiescent: bool,
}

const PATIENCE: Duration = Duration::from_secs(3600);

async fn run_stream_case(case: &Case, t: &Rc<Tracker>, expected_len: usize) -> Outcome {
    let feeder = Feeder {
        items: case.inputs.iter().map(|(g, k)| (*g, Item::new(k.clone(), t))).collect(),
        sleeping: None,
        terminate: case.terminate_input,
        t: t.clone(),
    };
    let mut stream: LocalBoxStream<'_, Item> = feeder.boxed_local();
    let mut n = 0;
    for &sz in &case.stages {
        let procs: Vec<Fifo> = (0..sz).map(|i| Fifo::new(n + i, case.layers[n + i].clone(), t)).collect();
        n += sz;
        stream = attach_stage(stream, procs, case.wrap_single);
    }

    let mut crng = Rng::new(case.consumer_seed);
    let mut yielded = Vec::new();
    let mut quiescent = false;
    loop {
        let gap = *crng.pick(&[0u64, 0, 0, 1, 2, 5]);
        if gap > 0 {
            sleep(Duration::from_millis(gap)).await;
        }
        // Once everything expected has arrived, wait a while longer for surplus outputs.
        let patience = if case.consumer_cancels && crng.chance(0.5) {
            Duration::from_millis(*crng.pick(&[1u64, 2, 3, 5]))
        } else if yielded.len() >= expected_len {
            Duration::from_secs(10)
        } else {
            PATIENCE
        };
        match timeout(patience, stream.next()).await {
            Ok(Some(item)) => {
                t.at(&item.key, Loc::Yielded);
                yielded.push(item.key.clone());
                drop(item);
            }
            Ok(None) => {
                t.ev("stream-ended".into());
                break;
            }
            Err(_) => {
                if patience >= Duration::from_secs(10) {
                    // Virtual time only jumps this far when nothing else in the runtime can run:
                    // the pipeline is quiescent.
                    quiescent = true;
                    break;
                }
            }
        }
    }
    t.teardown.set(true);
    drop(stream);
    Outcome { yielded, quiescent }
}

/// Drive one pipeline by hand: the harness plays the role of `Buffer` and cancels `next()` itself.
async fn run_direct_case(case: &Case, t: &Rc<Tracker>, expected_len: usize) -> Outcome {
    let sz = case.stages[0];
    let mut procs: Vec<Fifo> = (0..sz).map(|i| Fifo::new(i, case.layers[i].clone(), t)).collect();
    let mut crng = Rng::new(case.consumer_seed);
    let mut inputs: VecDeque<Item> = case.inputs.iter().map(|(_, k)| Item::new(k.clone(), t)).collect();
    let mut yielded = Vec::new();

    macro_rules! drive {
        ($p:expr) => {{
            let p = $p;
            let mut quiescent = false;
            loop {
                let feed = !inputs.is_empty() && crng.chance(0.5);
                if feed {
                    let item = inputs.pop_front().unwrap();
                    t.ev(format!("{}<-input", item.key));
                    let _ = p.process(item).await;
                    continue;
                }
                let patience = if !inputs.is_empty() {
                    Duration::from_millis(*crng.pick(&[0u64, 1, 2, 3, 5, 8]))
                } else if yielded.len() >= expected_len {
                    Duration::from_secs(10)
                } else if crng.chance(0.3) {
                    Duration::from_millis(*crng.pick(&[1u64, 2, 3, 5, 8]))
                } else {
                    PATIENCE
                };
                match timeout(patience, p.next()).await {
                    Ok(Ok(item)) => {
                        t.at(&item.key, Loc::Yielded);
                        yielded.push(item.key.clone());
                    }
                    Ok(Err(_)) => unreachable!(),
                    Err(_) => {
                        if patience >= Duration::from_secs(10) {
                            quiescent = true;
                            break;
                        }
                    }
                }
            }
            t.teardown.set(true);
            drop(p);
            quiescent
        }};
    }

    let quiescent = match sz {
        1 => {
            let a = procs.pop().unwrap();
            drive!(PipelineBuilder::<Item>::new().layer(a).build())
        }
        2 => {
            let b = procs.pop().unwrap();
            let a = procs.pop().unwrap();
            drive!(PipelineBuilder::<Item>::new().layer(a).layer(b).build())
        }
        3 => {
            let c = procs.pop().unwrap();
            let b = procs.pop().unwrap();
            let a = procs.pop().unwrap();
            drive!(PipelineBuilder::<Item>::new().layer(a).layer(b).layer(c).build())
        }
        _ => {
            let d = procs.pop().unwrap();
            let c = procs.pop().unwrap();
            let b = procs.pop().unwrap();
            let a = procs.pop().unwrap();
            drive!(PipelineBuilder::<Item>::new().layer(a).layer(b).layer(c).layer(d).build())
        }
    };
    Outcome { yielded, quiescent }
}

// ---------------------------------------------------------------------------------------------
// Oracle
// ---------------------------------------------------------------------------------------------

fn is_subsequence(sub: &[String], full: &[String]) -> bool {
    let mut it = full.iter();
    sub.iter().all(|s| it.any(|f| f == s))
}

pub fn run(args: &Args) {
    let mut rep = Report::new(
        args,
        "seeded schedules on a paused-time current-thread runtime: 1-4 harness FIFO processors \
         (per-item process delays and per-call next delays from {0,1,2,5} virtual ms; 30 % of \
         layers emit 0 or 2 outputs for some inputs) arranged as `.layer()` chains, \
         `PipelineBuilder` chains (nested ComposedProcessors), mixed shapes, and pipelines driven \
         by hand with `timeout(next())`; 3-40 unique items with arrival gaps from {0,1,2,3,5,7} ms; \
         consumer polls with gaps and (40 %) cancels its own `next`. Non-trivial = at least one \
         `next` future of a harness processor was dropped before completion while >= 2 items were \
         in the chain; distinct by the hash of the global enter/leave event order.",
        100,
    );
    let n = args.n(20_000, 1_500_000);
    let only_case = args.params.get("case").and_then(|c| c.parse::<u64>().ok());
    let mut shapes_seen: BTreeMap<String, u64> = BTreeMap::new();
    let mut cancel_in_second_process = 0u64;
    let mut next_cancels = 0u64;
    let mut process_cancels = 0u64;
    let mut total_items = 0u64;
    let mut total_outputs = 0u64;

    for i in 0..n {
        if let Some(c) = only_case {
            if c != i {
                continue;
            }
        }
        let mut rng = Rng::fork(args.seed, i);
        let case = gen_case(&mut rng);
        let expected = expected_outputs(&case);
        let t = Rc::new(Tracker::default());
        *t.roles.borrow_mut() = roles_of(&case);

        let rt = tokio::runtime::Builder::new_current_thread()
            .enable_time()
            .start_paused(true)
            .build()
            .expect("runtime");
        let local = tokio::task::LocalSet::new();
        let out = local.block_on(&rt, async {
            if case.direct {
                run_direct_case(&case, &t, expected.len()).await
            } else {
                run_stream_case(&case, &t, expected.len()).await
            }
        });
        // Let the aborted buffer tasks drop their contents while teardown is flagged.
        drop(local);
        drop(rt);

        let shape = format!(
            "{}{:?}{}",
            if case.direct { "direct" } else { "stream" },
            case.stages,
            if case.wrap_single && case.stages.contains(&1) { "+wrapped" } else { "" }
        );
        *shapes_seen.entry(shape.clone()).or_insert(0) += 1;
        total_items += case.inputs.len() as u64;
        total_outputs += out.yielded.len() as u64;
        let nc: u64 = t.next_cancelled.borrow().values().sum();
        let pc: u64 = t.process_cancelled.borrow().values().sum();
        next_cancels += nc;
        process_cancels += pc;
        let roles = t.roles.borrow().clone();
        for (l, c) in t.process_cancelled.borrow().iter() {
            if roles[*l] == Role::ComposedSecond {
                cancel_in_second_process += c;
            }
        }

        let events = t.events.borrow().clone();
        let nontrivial = nc > 0 && case.inputs.len() >= 2;
        rep.case(if nontrivial { Some(hash_of(&events)) } else { None });

        let witness = |extra: Value| -> Value {
            let ev: Vec<&String> = events.iter().take(400).collect();
            json!({
                "seed": args.seed, "case": i, "replay_args": format!("C13 --seed {} case={}", args.seed, i),
                "shape": shape, "plan": case_json(&case), "expected": expected, "yielded": out.yielded,
                "events": ev, "detail": extra,
            })
        };

        if !out.quiescent {
            rep.inconclusive(format!("case {i}: consumer loop ended without reaching quiescence"));
            continue;
        }

        // Exactly once.
        let mut want: BTreeMap<&String, i64> = BTreeMap::new();
        for k in &expected {
            *want.entry(k).or_insert(0) += 1;
        }
        let mut got: BTreeMap<&String, i64> = BTreeMap::new();
        for k in &out.yielded {
            *got.entry(k).or_insert(0) += 1;
        }
        let lost_log = t.lost.borrow().clone();
        let loc_map = t.loc.borrow().clone();
        let mut accounted: Vec<String> = Vec::new();
        // Items the real code destroyed: attribute each to where it was last seen. An item that
        // was destroyed upstream takes its (never produced) descendants with it; those are
        // reported through the destroyed ancestor only.
        for (key, loc) in &lost_log {
            let role = t.role_of(*loc);
            let sig = match (loc, role) {
                (Loc::InProcess(_), Some(Role::ComposedSecond)) => {
                    "C13:lost-in-composed-second-process".to_string()
                }
                _ => format!(
                    "C13:lost:{}:{}",
                    loc.kind(),
                    role.map(|r| r.name()).unwrap_or("outside-processors")
                ),
            };
            rep.violation(
                &sig,
                format!(
                    "item {key} was destroyed by the code under test while last seen at {} ({}); it (or its outputs) never reached the consumer",
                    loc_str(*loc),
                    role.map(|r| r.name()).unwrap_or("-")
                ),
                witness(json!({"lost": key, "last_seen": loc_str(*loc)})),
            );
            accounted.push(key.clone());
        }
        for (k, w) in &want {
            let g = got.get(k).copied().unwrap_or(0);
            if g < *w {
                // Explained by a destroyed ancestor (same key or a prefix of it)?
                if accounted.iter().any(|a| *k == a || k.starts_with(&format!("{a}."))) {
                    continue;
                }
                let loc = loc_map.get(*k).copied();
                let sig = match loc {
                    Some(l) => format!(
                        "C13:stuck:{}:{}",
                        l.kind(),
                        t.role_of(l).map(|r| r.name()).unwrap_or("outside-processors")
                    ),
                    None => "C13:missing:never-produced".to_string(),
                };
                rep.violation(
                    &sig,
                    format!(
                        "expected output {k} was never yielded although the runtime went idle; last seen {}",
                        loc.map(loc_str).unwrap_or_else(|| "nowhere (an upstream layer never produced it)".into())
                    ),
                    witness(json!({"missing": k})),
                );
            }
        }
        for (k, g) in &got {
            let w = want.get(k).copied().unwrap_or(0);
            if *g > w {
                let sig = if w == 0 { "C13:unexpected-output" } else { "C13:duplicate-output" };
                rep.violation(
                    sig,
                    format!("output {k} was yielded {g} time(s), expected {w}"),
                    witness(json!({"key": k})),
                );
            }
        }
        // Order (all layers are FIFO): what was yielded must be a subsequence of the expected
        // sequence, whether or not something was lost.
        if !is_subsequence(&out.yielded, &expected)
            && got.iter().all(|(k, g)| want.get(k).copied().unwrap_or(0) >= *g)
        {
            rep.violation(
                "C13:reordered",
                "outputs of a FIFO-only chain were yielded in a different order than produced",
                witness(json!({})),
            );
        }

        if rep.want_sample() && nontrivial && i % 7 == 0 {
            let ev: Vec<&String> = events.iter().take(60).collect();
            rep.sample(json!({"case": i, "shape": shape, "inputs": case.inputs.len(), "expected": expected.len(),
                "yielded": out.yielded.len(), "next_futures_cancelled": nc, "process_futures_cancelled": pc,
                "first_events": ev}));
        }
    }

    rep.extra("shapes", json!(shapes_seen));
    rep.extra("items_fed", json!(total_items));
    rep.extra("outputs_yielded", json!(total_outputs));
    rep.extra("next_futures_cancelled", json!(next_cancels));
    rep.extra("process_futures_cancelled", json!(process_cancels));
    rep.extra("process_cancelled_in_composed_second", json!(cancel_in_second_process));
    rep.finish(args);
}
