//! C11 — the causal orderer releases items only after, and always after, their dependencies.
//!
//! Real `Orderer` processor over the real `SqliteStore` (through the delegating probe) and real
//! signed operations. Seeded DAGs with missing dependencies, repeated dependency entries and
//! duplicate deliveries are delivered in seeded orders (all permutations for small graphs) with
//! `next()` calls interleaved. The oracle is an online dependency monitor plus a least-fixpoint
//! reference at quiescence plus a differential run of the same script with every dependency list
//! reduced to a set ("a dependency list is treated as a set").

use std::collections::{BTreeMap, BTreeSet};
use std::time::Duration;

use p2panda_core::Topic;
use p2panda_store::operations::OperationStore;
use p2panda_store::{SqliteStore, Transaction};
use p2panda_stream::Processor;
use p2panda_stream::orderer::Orderer;
use vh_common::{Args, Report, Rng, Tier, Value, hash_of, json, permutations};

use crate::graph::{Dag, DagParams, Dep, Op, Ops, build_ops, gen_dag};
use crate::probe::{DriveNext, NextOutcome, Probe};

#[derive(Clone, Debug, Hash)]
pub enum Step {
    Deliver(usize),
    /// Call `next()` up to this many times (stops early when the queue is empty).
    Drain(usize),
}

pub struct RunLog {
    /// Node indices in release order.
    pub released: Vec<usize>,
    /// (position in `released` at that moment, node) for every delivery.
    pub deliveries: Vec<usize>,
    pub errors: Vec<String>,
    pub online: Vec<(usize, String)>,
    pub trace: Vec<String>,
    pub store_calls: Vec<String>,
    /// Wall-clock bound fired: no verdict for this script.
    pub undecided: Option<String>,
}

pub async fn reset_orderer_tables(store: &SqliteStore) {
    for sql in ["DELETE FROM orderer_ready_v1", "DELETE FROM orderer_pending_v1", "DELETE FROM operations_v1"] {
        sqlx::query(sql).execute(store.pool()).await.expect("reset tables");
    }
}

pub async fn insert_ops(store: &SqliteStore, ops: &Ops) {
    let log_id = Topic::from([7u8; 32]);
    let permit = store.begin().await.expect("begin");
    for op in &ops.ops {
        OperationStore::<_, _>::insert_operation(store, &op.0.hash, &op.0, &log_id).await.expect("insert operation");
    }
    store.commit(permit).await.expect("commit");
}

/// Run one script against a fresh orderer state; the online monitor runs as items come out.
pub async fn run_script(store: &SqliteStore, dag: &Dag, ops: &Ops, script: &[Step]) -> RunLog {
    reset_orderer_tables(store).await;
    insert_ops(store, ops).await;
    let probe = Probe::new(store.clone());
    let orderer: Orderer<Op, _, Probe> = Orderer::new(probe.clone());
    let mut log = RunLog { released: vec![], deliveries: vec![], errors: vec![], online: vec![], trace: vec![], store_calls: vec![], undecided: None };
    let mut released_set: BTreeSet<usize> = BTreeSet::new();
    let mut steps: Vec<Step> = script.to_vec();
    steps.push(Step::Drain(usize::MAX));
    for step in &steps {
        match step {
            Step::Deliver(x) => {
                log.trace.push(format!("deliver {x} deps={:?}", dag.deps[*x]));
                probe.mark(format!("process node {x} id {} deps {:?}", crate::probe::short(&ops.ops[*x].0.hash), dag.deps[*x]));
                log.deliveries.push(*x);
                if let Err((_, e)) = orderer.process(ops.ops[*x].clone()).await {
                    log.errors.push(format!("process({x}): {e}"));
                }
            }
            Step::Drain(k) => {
                let cap = (*k).min(4 * steps.len() + 16);
                for _ in 0..cap {
                    let driven = match tokio::time::timeout(Duration::from_secs(30), DriveNext::new(orderer.next(), &probe, 0)).await {
                        Ok(r) => r,
                        Err(_) => {
                            log.undecided = Some("next() neither completed nor reached a decidable state within 30 s".into());
                            break;
                        }
                    };
                    match driven {
                        NextOutcome::Done(Ok(op), _) => {
                            let Some(x) = ops.index_of(&op.0.hash) else {
                                log.errors.push("next() returned an operation that was never delivered".into());
                                continue;
                            };
                            // Online monitor: every element of set(deps(x)) was released earlier.
                            for d in dag.dep_set(x) {
                                match d {
                                    Dep::Node(y) if released_set.contains(&y) => {}
                                    Dep::Node(y) => log.online.push((x, format!("dependency {y} not released yet"))),
                                    Dep::Missing(m) => log.online.push((x, format!("dependency missing#{m} was never delivered"))),
                                }
                            }
                            log.trace.push(format!("released {x}"));
                            log.released.push(x);
                            released_set.insert(x);
                        }
                        NextOutcome::Done(Err((_, e)), _) => {
                            log.errors.push(format!("next(): {e}"));
                            break;
                        }
                        NextOutcome::Empty(_) => break,
                        // Parked on the orderer's own state without having asked the store: nothing
                        // more will come out of this call (what stays queued shows up as
                        // "never released" in the fixpoint comparison).
                        NextOutcome::Parked(_) => break,
                        NextOutcome::Cancelled(_) => unreachable!(),
                    }
                }
            }
        }
    }
    log.store_calls = probe.render(0, 1200);
    drop(orderer);
    // Let the detached rollback of the last (parked) `next` finish before the tables are reused.
    let permit = store.begin().await.expect("begin after run");
    store.commit(permit).await.expect("commit after run");
    log
}

fn gen_script(rng: &mut Rng, dag: &Dag, order: &[usize], with_duplicates: bool) -> Vec<Step> {
    let mut script = Vec::new();
    let p_drain = *rng.pick(&[0.0, 0.2, 0.5, 1.0]);
    let mut delivered: Vec<usize> = Vec::new();
    for &x in order {
        script.push(Step::Deliver(x));
        delivered.push(x);
        if with_duplicates && rng.chance(0.15) {
            script.push(Step::Deliver(*rng.pick(&delivered)));
        }
        if rng.chance(p_drain) {
            script.push(Step::Drain(1 + rng.usize_below(3)));
        }
    }
    let _ = dag;
    script
}

struct Judged {
    sigs: Vec<(String, String, Value)>,
}

fn judge(dag: &Dag, script: &[Step], log: &RunLog) -> Judged {
    let mut sigs = Vec::new();
    for (x, why) in &log.online {
        let kind = if why.contains("never delivered") { "C11:released-with-missing-dependency" } else { "C11:released-before-dependency" };
        sigs.push((kind.to_string(), format!("node {x} was released although {why}"), json!({"node": x})));
    }
    for e in &log.errors {
        sigs.push(("C11:orderer-error".into(), format!("the orderer returned an error: {e}"), json!({})));
    }
    let delivered: BTreeSet<usize> = script.iter().filter_map(|s| if let Step::Deliver(x) = s { Some(*x) } else { None }).collect();
    let want = dag.release_fixpoint(&delivered);
    let got: BTreeSet<usize> = log.released.iter().copied().collect();
    // Liveness at quiescence: stuck = in the fixpoint, never released. Report the roots (all of
    // whose dependencies were released) — the others are stuck only because of them.
    let stuck: Vec<usize> = want.difference(&got).copied().collect();
    for &x in &stuck {
        let root = dag.dep_set(x).iter().all(|d| matches!(d, Dep::Node(y) if got.contains(y)));
        if !root {
            continue;
        }
        let sig = if dag.has_repeated_entry(x) {
            "C11:ready-item-never-released:repeated-dependency-entry"
        } else {
            "C11:ready-item-never-released"
        };
        sigs.push((sig.into(), format!("node {x} (deps {:?}) was delivered and all its dependencies were released, but it never came out", dag.deps[x]),
            json!({"node": x, "stuck_transitively": stuck})));
    }
    let mut delivered_n: BTreeMap<usize, usize> = BTreeMap::new();
    for s in script {
        if let Step::Deliver(x) = s {
            *delivered_n.entry(*x).or_insert(0) += 1;
        }
    }
    let mut released_n: BTreeMap<usize, usize> = BTreeMap::new();
    for x in &log.released {
        *released_n.entry(*x).or_insert(0) += 1;
    }
    for (x, r) in &released_n {
        if *r > delivered_n.get(x).copied().unwrap_or(0) {
            sigs.push(("C11:released-more-often-than-delivered".into(),
                format!("node {x} was delivered {} time(s) but released {r} times", delivered_n.get(x).copied().unwrap_or(0)), json!({"node": x})));
        }
    }
    Judged { sigs }
}

pub fn run(args: &Args) {
    let mut rep = Report::new(
        args,
        "seeded DAGs of 3-12 nodes (fan-in <= 4; a never-delivered dependency with p=0.25 per node; \
         repeated dependency entries with p=0.3 per node; 15 % duplicate deliveries) as real signed \
         operations through the real `Orderer` over SqliteStore, delivered in a seeded order with \
         `next()` calls interleaved; plus every delivery permutation of small graphs. Each script \
         also runs with all dependency lists reduced to sets (differential). Non-trivial = the \
         graph has a node with a repeated dependency entry that is delivered after that dependency \
         and a node with a missing dependency; distinct by (graph, script).",
        if args.tier == Tier::Quick { 50 } else { 1000 },
    );
    let n_random = args.n(400, 30_000);
    let n_perm_graphs = args.n(6, 150);
    let perm_max_nodes = if args.tier == Tier::Quick { 4 } else { 5 };
    let only = args.params.get("case").and_then(|c| c.parse::<u64>().ok());

    let rt = tokio::runtime::Builder::new_current_thread().enable_all().build().expect("runtime");
    let local = tokio::task::LocalSet::new();
    let mut repeated_after_dep = 0u64;
    let mut scripts_run = 0u64;
    let mut releases = 0u64;
    let mut deliveries = 0u64;
    let mut blocked_checked = 0u64;
    let mut double_release_recorded = 0u64;

    local.block_on(&rt, async {
        let store = SqliteStore::temporary().await;
        let total = n_random + n_perm_graphs;
        for i in 0..total {
            if let Some(c) = only {
                if c != i {
                    continue;
                }
            }
            if rep.elapsed() > Duration::from_secs(if args.tier == Tier::Quick { 75 } else { 1500 }) {
                rep.extra("stopped_early_at_case", json!(i));
                break;
            }
            let mut rng = Rng::fork(args.seed, i);
            let perm_mode = i >= n_random;
            let params = if perm_mode {
                DagParams { min_nodes: 3, max_nodes: perm_max_nodes, p_missing: 0.2, p_repeat: 0.5 }
            } else {
                DagParams { min_nodes: 3, max_nodes: 12, p_missing: 0.25, p_repeat: 0.3 }
            };
            let dag = gen_dag(&mut rng, &params);
            let ops = build_ops(&mut rng, &dag);
            let has_repeat = (0..dag.n()).any(|x| dag.has_repeated_entry(x));
            let dedup = dag.deduped();
            let dedup_ops = if has_repeat { Some(build_ops(&mut rng, &dedup)) } else { None };

            let scripts: Vec<Vec<Step>> = if perm_mode {
                permutations(dag.n())
                    .into_iter()
                    .enumerate()
                    .map(|(pi, p)| {
                        let mut s: Vec<Step> = Vec::new();
                        for x in p {
                            s.push(Step::Deliver(x));
                            if pi % 2 == 1 {
                                s.push(Step::Drain(2));
                            }
                        }
                        s
                    })
                    .collect()
            } else {
                let mut order: Vec<usize> = (0..dag.n()).collect();
                match rng.below(4) {
                    0 => {}                 // topological (index) order
                    1 => order.reverse(),   // worst case: everything pending first
                    _ => rng.shuffle(&mut order),
                }
                // Sometimes a node is never delivered at all.
                if rng.chance(0.2) && order.len() > 3 {
                    order.pop();
                }
                vec![gen_script(&mut rng, &dag, &order, true)]
            };

            for (si, script) in scripts.iter().enumerate() {
                let log = run_script(&store, &dag, &ops, script).await;
                scripts_run += 1;
                releases += log.released.len() as u64;
                deliveries += log.deliveries.len() as u64;

                // Non-triviality by the rule.
                let mut seen: BTreeSet<usize> = BTreeSet::new();
                let mut rep_after = false;
                for s in script {
                    if let Step::Deliver(x) = s {
                        if dag.has_repeated_entry(*x) {
                            let set = dag.dep_set(*x);
                            let dup: Vec<Dep> = set.iter().copied().filter(|d| dag.deps[*x].iter().filter(|e| *e == d).count() > 1).collect();
                            if dup.iter().any(|d| matches!(d, Dep::Node(y) if seen.contains(y))) {
                                rep_after = true;
                            }
                        }
                        seen.insert(*x);
                    }
                }
                let has_missing = (0..dag.n()).any(|x| dag.has_missing(x) && seen.contains(&x));
                if rep_after {
                    repeated_after_dep += 1;
                }
                if has_missing {
                    blocked_checked += 1;
                }
                rep.case(if rep_after && has_missing { Some(hash_of(&(&dag, script))) } else { None });

                let witness = |detail: Value, log: &crate::c11::RunLog| -> Value {
                    json!({"seed": args.seed, "case": i, "script_no": si, "replay_args": format!("C11 --seed {} case={}", args.seed, i),
                        "deps": dag.deps.iter().map(|d| d.iter().map(|e| match e { Dep::Node(y) => format!("{y}"), Dep::Missing(m) => format!("missing#{m}") }).collect::<Vec<_>>()).collect::<Vec<_>>(),
                        "script": script.iter().map(|s| format!("{s:?}")).collect::<Vec<_>>(),
                        "released": log.released, "trace": log.trace.iter().take(200).collect::<Vec<_>>(), "store_calls": log.store_calls, "detail": detail})
                };
                if let Some(why) = &log.undecided {
                    rep.inconclusive(format!("case {i} script {si}: {why}"));
                    continue;
                }
                let j = judge(&dag, script, &log);
                for (sig, what, detail) in j.sigs {
                    rep.violation(&sig, what, witness(detail, &log));
                }
                // Duplicate deliveries may legitimately re-queue an item (documented idempotency);
                // recorded, not judged.
                let mut cnt: BTreeMap<usize, usize> = BTreeMap::new();
                for x in &log.released {
                    *cnt.entry(*x).or_insert(0) += 1;
                }
                double_release_recorded += cnt.values().filter(|c| **c > 1).count() as u64;

                // Differential: the same script with every dependency list as a set.
                if let Some(dops) = &dedup_ops {
                    let dlog = run_script(&store, &dedup, dops, script).await;
                    scripts_run += 1;
                    let jd = judge(&dedup, script, &dlog);
                    for (sig, what, detail) in jd.sigs {
                        rep.violation(&sig, format!("[set-valued variant] {what}"), witness(detail, &dlog));
                    }
                    // Compared as sets: with duplicate deliveries the *number* of releases of an
                    // item legitimately depends on whether it had been taken already, which in
                    // turn depends on the (unordered) sibling order inside the orderer.
                    let a: Vec<usize> = log.released.iter().copied().collect::<BTreeSet<_>>().into_iter().collect();
                    let b: Vec<usize> = dlog.released.iter().copied().collect::<BTreeSet<_>>().into_iter().collect();
                    if a != b {
                        let only_sets: Vec<usize> = b.iter().copied().filter(|x| !a.contains(x)).collect();
                        let only_lists: Vec<usize> = a.iter().copied().filter(|x| !b.contains(x)).collect();
                        rep.violation(
                            "C11:repeated-entry-changes-outcome",
                            format!("repeating dependency entries changed what is released: with sets {:?}, with repeated entries {:?}", b, a),
                            witness(json!({"released_only_with_sets": only_sets, "released_only_with_repeats": only_lists, "set_variant_trace": dlog.trace}), &log),
                        );
                    }
                }
                if rep.want_sample() && !perm_mode && i % 97 == 3 {
                    rep.sample(json!({"case": i, "deps": format!("{:?}", dag.deps), "script": script.iter().map(|s| format!("{s:?}")).collect::<Vec<_>>(),
                        "released": log.released}));
                }
            }
        }
        store.pool().close().await;
    });
    rep.extra("scripts_run", json!(scripts_run));
    rep.extra("deliveries", json!(deliveries));
    rep.extra("releases_observed", json!(releases));
    rep.extra("scripts_with_repeated_entry_delivered_after_its_dependency", json!(repeated_after_dep));
    rep.extra("scripts_with_a_delivered_node_blocked_by_a_missing_dependency", json!(blocked_checked));
    rep.extra("items_released_more_than_once_recorded_not_judged", json!(double_release_recorded));
    rep.finish(args);
}
