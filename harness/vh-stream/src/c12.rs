//! C12 — released orderer items survive cancellation of `next`.
//!
//! Part A (fault enumeration): the real `Orderer` over the real `SqliteStore`; the harness polls
//! the `next()` future by hand with the task's real waker and drops it after its j-th `Pending`,
//! for j = 1, 2, 3, ... until the targeted call completes uncancelled — every await point the run
//! reaches is a cancellation point. Afterwards `next()` is called to completion until the store
//! answers "queue empty". Part B: the real `Buffer` / `.layer()` path, where `tokio::select!` drops
//! the `next` future whenever new input arrives first. Oracle: conservation — everything the
//! reference fixpoint says is released must come out of some `next` call. The delegating store
//! tells where each cancellation hit (which trait call was in flight, whether `take_next_ready`
//! had already handed an id to the orderer).

use std::collections::{BTreeMap, BTreeSet};
use std::time::{Duration, Instant};

use futures_util::{FutureExt, StreamExt};
use p2panda_core::Hash;
use p2panda_store::sqlite::SqliteStoreBuilder;
use p2panda_store::{SqliteStore, Transaction};
use p2panda_stream::orderer::Orderer;
use p2panda_stream::{Processor, StreamLayerExt};
use tokio_stream::wrappers::UnboundedReceiverStream;
use vh_common::{Args, Report, Rng, Tier, Value, json};

use crate::c11::{insert_ops, reset_orderer_tables};
use crate::graph::{Dag, DagParams, Op, Ops, build_ops, gen_dag};
use crate::probe::{DriveNext, NextOutcome, PEv, Probe, ready_queue_len, released_by_store, render};

#[derive(Clone, Copy, Debug, PartialEq, Eq)]
enum Flavour {
    CurrentThreadMemory,
    MultiThreadMemory,
    MultiThreadFilePool4,
}

/// Where a cancellation hit, from the probe's log of the cancelled call.
#[derive(Clone, Debug)]
struct CancelInfo {
    call_no: usize,
    pendings: u64,
    /// Store call whose future was dropped (innermost), or "orderer-internal" when the orderer was
    /// waiting on its own mutex / notify.
    dropped_in: String,
    /// Id that `take_next_ready` had already returned to the orderer in this call.
    taken: Option<String>,
}

fn cancel_info(events: &[PEv], call_no: usize, pendings: u64) -> CancelInfo {
    let mut taken = None;
    let mut dropped_in = None;
    for e in events {
        match e {
            PEv::End("take_next_ready", d) if d.starts_with("some:") => taken = Some(d[5..].to_string()),
            PEv::Dropped(n) => {
                if dropped_in.is_none() {
                    dropped_in = Some(n.to_string());
                }
            }
            _ => {}
        }
    }
    CancelInfo { call_no, pendings, dropped_in: dropped_in.unwrap_or_else(|| "orderer-internal".into()), taken }
}

struct EnumRun {
    /// Nodes the orderer released (moved to the ready queue in a committed transaction), as seen
    /// at the store boundary.
    released: BTreeSet<usize>,
    /// The database lost its tables during the run (in-memory database replaced).
    wiped: bool,
    returned: Vec<usize>,
    cancel: Option<CancelInfo>,
    target_completed_uncancelled: bool,
    errors: Vec<String>,
    trace: Vec<String>,
    max_pendings_seen: u64,
    /// A `next()` parked on the orderer's in-memory state (no store call in flight, not woken)
    /// while the ready queue still held this many items: (call number, queue length).
    parked_nonempty: Option<(usize, i64)>,
    /// A generous wall-clock bound fired or the queue could not be read: no verdict.
    undecided: Option<String>,
}

/// One run of Part A: deliver `first` items, call `next()` (cancelling call number `k` after `j`
/// Pendings), deliver the rest, drain to "empty".
async fn enum_run(store: &SqliteStore, ops: &Ops, order: &[usize], split: usize, k: usize, j: u64) -> EnumRun {
    reset_orderer_tables(store).await;
    insert_ops(store, ops).await;
    settle(store).await;
    let probe = Probe::new(store.clone());
    let orderer: Orderer<Op, _, Probe> = Orderer::new(probe.clone());
    let mut out = EnumRun { released: BTreeSet::new(), wiped: false, returned: vec![], cancel: None, target_completed_uncancelled: false, errors: vec![], trace: vec![], max_pendings_seen: 0, parked_nonempty: None, undecided: None };
    let mut call_no = 0usize;
    'run: for (phase, part) in [&order[..split], &order[split..]].into_iter().enumerate() {
        for &x in part {
            probe.mark(format!("process node {x}"));
            if let Err((_, e)) = orderer.process(ops.ops[x].clone()).await {
                out.errors.push(format!("process({x}): {e}"));
            }
        }
        let cap = 4 * order.len() + 16;
        let mut successes = 0usize;
        let mut error_retries = 0usize;
        while successes < cap {
            let cancel_after = if call_no == k { j } else { 0 };
            let from = probe.len();
            probe.mark(format!("next#{call_no}{}", if cancel_after > 0 { format!(" (cancel after {cancel_after} Pendings)") } else { String::new() }));
            let this_call = call_no;
            let r = match tokio::time::timeout(Duration::from_secs(30), DriveNext::new(orderer.next(), &probe, cancel_after)).await {
                Ok(r) => r,
                Err(_) => {
                    out.undecided = Some(format!("next#{this_call} neither completed nor reached a decidable state within 30 s"));
                    break 'run;
                }
            };
            call_no += 1;
            match r {
                NextOutcome::Done(Ok(op), p) => {
                    out.max_pendings_seen = out.max_pendings_seen.max(p);
                    if this_call == k {
                        out.target_completed_uncancelled = true;
                    }
                    successes += 1;
                    match ops.index_of(&op.0.hash) {
                        Some(x) => {
                            probe.mark(format!("returned node {x}"));
                            out.returned.push(x)
                        }
                        None => out.errors.push("next() returned an unknown operation".into()),
                    }
                }
                NextOutcome::Done(Err((_, e)), _) => {
                    // An error is not a loss: the transaction is rolled back and the item stays in
                    // the queue. Typical on a pooled file database right after a cancelled
                    // commit: the permit is released while SQLite is still committing on the
                    // other connection ("database is locked"). Back off and keep draining.
                    let e = e.to_string();
                    if out.errors.len() < 400 {
                        out.errors.push(format!("next#{this_call}: {e}"));
                    }
                    if this_call == k {
                        out.target_completed_uncancelled = true;
                    }
                    error_retries += 1;
                    if e.contains("no such table") || error_retries > 300 {
                        break;
                    }
                    tokio::time::sleep(Duration::from_millis(10)).await;
                }
                NextOutcome::Empty(_) => {
                    if this_call == k {
                        // The targeted call found the queue empty before reaching its j-th Pending.
                        out.target_completed_uncancelled = true;
                    }
                    break;
                }
                NextOutcome::Parked(p) => {
                    // Decided on state: this `next` waits on the orderer's own in-memory state,
                    // nothing woke it and no store call is in flight. If the ready queue still
                    // holds released items, no `next` will ever return them.
                    probe.mark(format!("next#{this_call} parked after {p} Pendings with no store call in flight and no wake-up"));
                    if this_call == k {
                        out.target_completed_uncancelled = true;
                    }
                    settle(store).await;
                    match ready_queue_len(store).await {
                        Some(0) => break,
                        Some(n) => {
                            probe.mark(format!("ready queue still holds {n} item(s)"));
                            out.parked_nonempty = Some((this_call, n));
                            break 'run;
                        }
                        None => {
                            out.undecided = Some(format!("next#{this_call} parked, but the ready queue could not be read"));
                            break 'run;
                        }
                    }
                }
                NextOutcome::Cancelled(p) => {
                    let ev: Vec<PEv> = probe.log.borrow()[from..].to_vec();
                    let info = cancel_info(&ev, this_call, p);
                    probe.mark(format!("cancelled next#{this_call} after {p} Pendings, in {}", info.dropped_in));
                    out.cancel = Some(info);
                }
            }
        }
        let _ = phase;
    }
    out.trace = probe.render(0, 600);
    out.released = released_nodes(&probe.log.borrow(), ops);
    drop(orderer);
    settle(store).await;
    out.wiped = is_wiped(store).await;
    out
}

fn released_nodes(events: &[PEv], ops: &Ops) -> BTreeSet<usize> {
    released_by_store(events)
        .iter()
        .filter_map(|hex| ops.ops.iter().position(|o| o.0.hash.to_hex() == *hex))
        .collect()
}

/// Wait for the detached rollback of a dropped `next` to release the permit.
async fn settle(store: &SqliteStore) {
    let _ = tokio::time::timeout(Duration::from_secs(20), async {
        if let Ok(permit) = store.begin().await {
            let _ = store.commit(permit).await;
        }
    })
    .await;
}

/// Did the database lose its schema (an in-memory database replaced by a fresh one)?
async fn is_wiped(store: &SqliteStore) -> bool {
    match sqlx::query("SELECT COUNT(*) FROM orderer_ready_v1").fetch_one(store.pool()).await {
        Ok(_) => false,
        Err(e) => e.to_string().contains("no such table"),
    }
}

struct BufferRun {
    released: BTreeSet<usize>,
    wiped: bool,
    returned: Vec<usize>,
    errors: Vec<String>,
    quiescent: bool,
    events: Vec<PEv>,
    next_futures_dropped: u64,
    /// The buffer task is parked with no store call in flight while the ready queue holds items.
    parked_nonempty: Option<i64>,
}

fn processed_count(events: &[PEv]) -> usize {
    let mut in_tx_ready = false;
    let mut n = 0;
    for e in events {
        match e {
            PEv::Start("begin") => in_tx_ready = false,
            PEv::Start("ready") => in_tx_ready = true,
            PEv::End("commit", _) if in_tx_ready => {
                n += 1;
                in_tx_ready = false;
            }
            _ => {}
        }
    }
    n
}

fn parked_on_empty(events: &[PEv]) -> bool {
    matches!(events.iter().rev().find(|e| !matches!(e, PEv::Mark(_))), Some(PEv::End("take_next_ready", d)) if d == "none")
}

/// Part B: the orderer behind the real `ProcessorStream`/`Buffer`; inputs arrive while `next` is
/// in flight.
async fn buffer_run(store: &SqliteStore, ops: &Ops, order: &[usize], rng: &mut Rng) -> BufferRun {
    reset_orderer_tables(store).await;
    insert_ops(store, ops).await;
    let probe = Probe::new(store.clone());
    let orderer: Orderer<Op, _, Probe> = Orderer::new(probe.clone());
    let (tx, rx) = tokio::sync::mpsc::unbounded_channel::<Op>();
    let mut stream = UnboundedReceiverStream::new(rx).layer(orderer);
    let mut out = BufferRun { released: BTreeSet::new(), wiped: false, returned: vec![], errors: vec![], quiescent: false, events: vec![], next_futures_dropped: 0, parked_nonempty: None };

    // Arrival plan: bursts and pauses of a few scheduler turns / microseconds.
    let plan: Vec<(usize, u64)> = order.iter().map(|x| (*x, match rng.below(6) { 0 | 1 => 0, 2 => 1, 3 => 2, 4 => 40 + rng.below(200), _ => 300 + rng.below(1500) })).collect();
    let feed_ops: Vec<Op> = plan.iter().map(|(x, _)| ops.ops[*x].clone()).collect();
    let gaps: Vec<u64> = plan.iter().map(|(_, g)| *g).collect();
    let n_inputs = feed_ops.len();
    let feeder = tokio::task::spawn_local(async move {
        for (op, gap) in feed_ops.into_iter().zip(gaps) {
            match gap {
                0 => {}
                1 | 2 => {
                    for _ in 0..gap {
                        tokio::task::yield_now().await;
                    }
                }
                us => tokio::time::sleep(Duration::from_micros(us)).await,
            }
            let _ = tx.send(op);
        }
        // Keep the sender alive: a processor stream never terminates.
        tx
    });

    let started = Instant::now();
    let mut stable_ticks = 0u32;
    let mut last_len = usize::MAX;
    loop {
        tokio::select! {
            item = stream.next() => {
                match item {
                    Some(Ok(op)) => match ops.index_of(&op.0.hash) {
                        Some(x) => { probe.mark(format!("yielded node {x}")); out.returned.push(x) }
                        None => out.errors.push("stream yielded an unknown operation".into()),
                    },
                    Some(Err((_, e))) => {
                        let e = e.to_string();
                        let wiped = e.contains("no such table");
                        out.errors.push(format!("stream error: {e}"));
                        if wiped {
                            // The database is gone; the buffer task would now spin on errors.
                            out.quiescent = true;
                            break;
                        }
                    }
                    None => break,
                }
            }
            _ = tokio::time::sleep(Duration::from_millis(1)) => {
                // Quiescence, decided on what the store saw: every input went through a committed
                // `process` transaction and the buffer task's current `next` call got "none" from
                // the store and parked.
                let quiescent = feeder.is_finished() && {
                    let log = probe.log.borrow();
                    processed_count(&log) + out.errors.len() >= n_inputs && parked_on_empty(&log)
                };
                if quiescent {
                    while let Some(item) = stream.next().now_or_never() {
                        match item {
                            Some(Ok(op)) => if let Some(x) = ops.index_of(&op.0.hash) { probe.mark(format!("yielded node {x}")); out.returned.push(x) },
                            Some(Err((_, e))) => out.errors.push(format!("stream error: {e}")),
                            None => break,
                        }
                    }
                    // Still parked after the drain?
                    if parked_on_empty(&probe.log.borrow()) {
                        out.quiescent = true;
                        break;
                    }
                }
                // Second state criterion: every input was processed, nothing is in flight at the
                // store boundary, the store's last answer was *not* "queue empty", and the call
                // log has not moved for 200 ticks. Then the buffer task's `next` waits on the
                // orderer's in-memory state; the ready queue decides.
                let (len, in_flight, all_processed) = {
                    let log = probe.log.borrow();
                    let mut n = 0i64;
                    for e in log.iter() {
                        match e {
                            PEv::Start(_) => n += 1,
                            PEv::End(..) | PEv::Dropped(_) => n -= 1,
                            PEv::Mark(_) => {}
                        }
                    }
                    (log.len(), n, processed_count(&log) + out.errors.len() >= n_inputs)
                };
                if feeder.is_finished() && all_processed && in_flight == 0 && len == last_len && !parked_on_empty(&probe.log.borrow()) {
                    stable_ticks += 1;
                } else {
                    stable_ticks = 0;
                }
                last_len = len;
                if stable_ticks >= 200 {
                    stable_ticks = 0;
                    if let Some(n) = ready_queue_len(store).await {
                        while let Some(item) = stream.next().now_or_never() {
                            match item {
                                Some(Ok(op)) => if let Some(x) = ops.index_of(&op.0.hash) { probe.mark(format!("yielded node {x}")); out.returned.push(x) },
                                Some(Err((_, e))) => out.errors.push(format!("stream error: {e}")),
                                None => break,
                            }
                        }
                        if n > 0 {
                            probe.mark(format!("buffer task parked, ready queue still holds {n} item(s)"));
                            out.parked_nonempty = Some(n);
                        }
                        out.quiescent = true;
                        break;
                    }
                }
                if started.elapsed() > Duration::from_secs(30) {
                    break;
                }
            }
        }
    }
    drop(stream);
    let _keep = feeder.await;
    // `Buffer::drop` only requests the abort; let the local set actually drop the task (and the
    // `next` future inside it) before the store is inspected.
    for _ in 0..8 {
        tokio::task::yield_now().await;
    }
    out.events = probe.log.borrow().clone();
    out.next_futures_dropped = out.events.iter().filter(|e| matches!(e, PEv::Dropped(_))).count() as u64;
    out.released = released_nodes(&out.events, ops);
    settle(store).await;
    out.wiped = is_wiped(store).await;
    out
}

/// For a lost id in the buffer path: what happened after the store last handed it out?
fn attribute_buffer_loss(events: &[PEv], h: &Hash) -> (String, String) {
    let hex = format!("some:{}", h.to_hex());
    let Some(pos) = events.iter().rposition(|e| matches!(e, PEv::End("take_next_ready", d) if *d == hex)) else {
        return ("C12:lost:never-handed-out-by-the-store".into(), "take_next_ready never returned it".into());
    };
    for e in &events[pos + 1..] {
        match e {
            PEv::Mark(_) => continue,
            PEv::Start("commit") | PEv::End("commit", _) | PEv::Start("get_operation") => continue,
            PEv::Dropped(n) => return ("C12:lost-after-take_next_ready".into(), format!("the `next` future was dropped while `{n}` was in flight")),
            PEv::End("get_operation", d) => return ("C12:lost:after-get_operation-returned".into(), format!("get_operation completed ({d}) but the item was not yielded")),
            other => return ("C12:lost:unexplained".into(), format!("followed by {}", render(other))),
        }
    }
    ("C12:lost:unexplained".into(), "log ends after take_next_ready".into())
}

async fn build_store(flavour: Flavour, dir: &std::path::Path) -> SqliteStore {
    match flavour {
        Flavour::CurrentThreadMemory | Flavour::MultiThreadMemory => {
            SqliteStore::temporary().await
        }
        Flavour::MultiThreadFilePool4 => {
            let url = format!("sqlite://{}", dir.join("c12.sqlite").display());
            SqliteStoreBuilder::new()
                .database_url(&url)
                .min_connections(1)
                .max_connections(4)
                .idle_timeout(None)
                .max_lifetime(None)
                .build()
                .await
                .expect("file store")
        }
    }
}

pub fn run(args: &Args) {
    let mut rep = Report::new(
        args,
        "Part A: seeded DAGs (3-8 nodes, set-valued dependency lists, some missing dependencies) \
         as real operations through the real Orderer over SqliteStore; for a targeted `next()` call \
         (the first, or a seeded later one; before or between deliveries) the future is hand-polled \
         and dropped after its j-th Pending for every j until the call completes uncancelled; then \
         `next()` is drained to 'queue empty'. Part B: the same graphs through `.layer(orderer)` \
         (real Buffer select!) with inputs arriving in bursts while `next` is in flight. Runtime \
         flavours: current-thread/in-memory, multi-thread/in-memory, multi-thread/file pool of 4. \
         Non-trivial = a cancellation hit after `take_next_ready` had already returned an id \
         (Part A) / the Buffer dropped at least one in-flight `next` store call (Part B); distinct \
         by (graph, delivery order, targeted call, j) resp. (graph, arrival plan).",
        if args.tier == Tier::Quick { 15 } else { 300 },
    );
    let graphs_a = args.n(45, 1_200);
    let graphs_b = args.n(60, 2_400);
    let only = args.params.get("case").and_then(|c| c.parse::<u64>().ok());
    let tmp = if std::path::Path::new("/dev/shm").is_dir() { tempfile::tempdir_in("/dev/shm") } else { tempfile::tempdir() }.expect("tempdir");
    let budget = Duration::from_secs(if args.tier == Tier::Quick { 75 } else { 1500 });

    let mut cancel_points: BTreeMap<String, u64> = BTreeMap::new();
    let mut js_hist: BTreeMap<u64, u64> = BTreeMap::new();
    let mut max_j = 0u64;
    let mut runs_a = 0u64;
    let mut runs_b = 0u64;
    let mut b_drops = 0u64;
    let mut recorded_errors: Vec<String> = Vec::new();
    let mut duplicates_recorded = 0u64;
    let mut c11_shortfall = 0u64;
    let mut wipes = 0u64;
    let mut stray_wipes = 0u64;

    let flavours = [Flavour::CurrentThreadMemory, Flavour::MultiThreadMemory, Flavour::MultiThreadFilePool4];
    let only_flavour = args.params.get("flavour").and_then(|c| c.parse::<usize>().ok());
    for (fi, flavour) in flavours.iter().enumerate() {
        if only_flavour.is_some_and(|f| f != fi) {
            continue;
        }
        let rt = match flavour {
            Flavour::CurrentThreadMemory => tokio::runtime::Builder::new_current_thread().enable_all().build(),
            _ => tokio::runtime::Builder::new_multi_thread().worker_threads(2).enable_all().build(),
        }
        .expect("runtime");
        let local = tokio::task::LocalSet::new();
        let dir = tmp.path().join(format!("f{fi}"));
        std::fs::create_dir_all(&dir).unwrap();
        local.block_on(&rt, async {
            let mut store = build_store(*flavour, &dir).await;
            // ---------------- Part A ----------------
            for i in 0..graphs_a {
                if i as usize % flavours.len() != fi && args.tier == Tier::Quick {
                    // quick: each graph runs under one flavour; thorough: under all three
                    continue;
                }
                if only.is_some_and(|c| c != i) {
                    continue;
                }
                if rep.elapsed() > budget {
                    rep.extra("stopped_early", json!(true));
                    break;
                }
                let mut rng = Rng::fork(args.seed, i);
                let dag: Dag = gen_dag(&mut rng, &DagParams { min_nodes: 3, max_nodes: 8, p_missing: 0.15, p_repeat: 0.0 });
                let ops = build_ops(&mut rng, &dag);
                let mut order: Vec<usize> = (0..dag.n()).collect();
                if rng.chance(0.6) {
                    rng.shuffle(&mut order);
                }
                let delivered: BTreeSet<usize> = order.iter().copied().collect();
                let expected = dag.release_fixpoint(&delivered);
                let split = if rng.chance(0.5) { order.len() } else { 1 + rng.usize_below(order.len()) };
                let k = if rng.chance(0.5) { 0 } else { rng.usize_below(expected.len().max(1)) };
                for j in 1..=64u64 {
                    if is_wiped(&store).await {
                        stray_wipes += 1;
                        store = build_store(*flavour, &dir).await;
                    }
                    let run = enum_run(&store, &ops, &order, split, k, j).await;
                    runs_a += 1;
                    max_j = max_j.max(if run.cancel.is_some() { j } else { 0 });
                    let nontrivial = run.cancel.as_ref().is_some_and(|c| c.taken.is_some());
                    rep.case(if nontrivial { Some((vh_common::hash_of(&dag), order.clone(), split, k, j, fi)) } else { None });
                    if let Some(c) = &run.cancel {
                        *cancel_points.entry(format!("{}{}", c.dropped_in, if c.taken.is_some() { " (after take_next_ready returned an id)" } else { "" })).or_insert(0) += 1;
                        *js_hist.entry(c.pendings).or_insert(0) += 1;
                    }
                    for e in &run.errors {
                        if recorded_errors.len() < 8 {
                            recorded_errors.push(format!("A case {i} j={j}: {e}"));
                        }
                        rep.bump("orderer_errors_recorded_not_judged", 1);
                    }
                    let got: BTreeSet<usize> = run.returned.iter().copied().collect();
                    duplicates_recorded += (run.returned.len() - got.len()) as u64;
                    // Conservation is judged on what the orderer itself released (store boundary);
                    // what it *should* have released is C11's business and only recorded here.
                    c11_shortfall += expected.difference(&run.released).count() as u64;
                    let lost: Vec<usize> = run.released.difference(&got).copied().collect();
                    let witness = |detail: Value| -> Value {
                        json!({"seed": args.seed, "part": "A", "case": i, "j": j, "flavour": format!("{flavour:?}"),
                            "replay_args": format!("C12 --seed {} case={} flavour={}", args.seed, i, fi),
                            "deps": format!("{:?}", dag.deps), "delivery_order": order, "delivered_before_first_drain": split, "targeted_next_call": k,
                            "released_by_orderer": run.released, "returned": run.returned, "database_wiped": run.wiped,
                            "cancellation": run.cancel.as_ref().map(|c| json!({"call": c.call_no, "after_pendings": c.pendings, "store_call_in_flight": c.dropped_in, "id_already_taken": c.taken})),
                            "store_calls": run.trace, "detail": detail})
                    };
                    if let Some(why) = &run.undecided {
                        rep.inconclusive(format!("part A case {i} j={j}: {why}"));
                        break;
                    }
                    if let Some((call, n)) = run.parked_nonempty {
                        rep.violation(
                            "C12:released-item-never-returned:next-parked-with-nonempty-queue",
                            format!("next#{call} is parked on the orderer's in-memory state (no store call in flight, nothing woke it) while the ready queue still holds {n} released item(s){}: no later next() can return them",
                                run.cancel.as_ref().map(|c| format!("; an earlier next#{} had been dropped after {} Pendings inside `{}`", c.call_no, c.pendings, c.dropped_in)).unwrap_or_default()),
                            witness(json!({"still_queued": n, "not_returned_nodes": lost})),
                        );
                    }
                    if run.wiped {
                        wipes += 1;
                        rep.violation(
                            "C12:lost:in-memory-database-wiped-by-cancelled-acquire",
                            format!("after next#{} was dropped inside `{}` the in-memory database had lost all tables: every released item ({} not yet returned) is gone",
                                run.cancel.as_ref().map(|c| c.call_no).unwrap_or(0), run.cancel.as_ref().map(|c| c.dropped_in.as_str()).unwrap_or("?"), lost.len()),
                            witness(json!({"lost_nodes": lost})),
                        );
                        store = build_store(*flavour, &dir).await;
                    }
                    for x in lost.iter().filter(|_| !run.wiped && run.parked_nonempty.is_none()) {
                        let hex = ops.ops[*x].0.hash.to_hex();
                        let (sig, what) = match &run.cancel {
                            Some(c) if c.taken.as_deref() == Some(hex.as_str()) => (
                                "C12:lost-after-take_next_ready".to_string(),
                                format!("node {x} was taken from the ready queue by next#{}, the future was dropped after {} Pendings while `{}` was in flight, and no later next() returned it", c.call_no, c.pendings, c.dropped_in),
                            ),
                            Some(c) if c.dropped_in == "take_next_ready" => (
                                "C12:lost:cancelled-inside-take_next_ready".to_string(),
                                format!("node {x} disappeared although the cancelled next#{} never got an id back from the store", c.call_no),
                            ),
                            Some(c) => (
                                format!("C12:lost:cancelled-in-{}", c.dropped_in),
                                format!("node {x} disappeared; the cancellation hit `{}` {}", c.dropped_in, if c.taken.is_some() { "after a different id had been taken" } else { "before any id was taken" }),
                            ),
                            None => ("C12:lost:no-cancellation-involved".to_string(), format!("node {x} was released but never returned although no next() was cancelled")),
                        };
                        rep.violation(&sig, what, witness(json!({"lost_node": x, "lost_id": hex})));
                    }
                    for x in got.difference(&expected).filter(|_| !run.wiped) {
                        rep.violation("C12:returned-unreleasable-item", format!("node {x} was returned although its dependencies are not all released"), witness(json!({"node": x})));
                    }
                    if rep.want_sample() && run.cancel.is_some() && j == 3 {
                        rep.sample(json!({"part": "A", "case": i, "flavour": format!("{flavour:?}"), "j": j, "cancelled_in": run.cancel.as_ref().map(|c| c.dropped_in.clone()),
                            "id_taken_before_cancel": run.cancel.as_ref().map(|c| c.taken.is_some()), "released_by_orderer": run.released, "returned": run.returned}));
                    }
                    if run.target_completed_uncancelled || run.cancel.is_none() {
                        rep.bump("targeted_calls_fully_enumerated", 1);
                        break;
                    }
                }
            }
            // ---------------- Part B ----------------
            for i in 0..graphs_b {
                if i as usize % flavours.len() != fi && args.tier == Tier::Quick {
                    continue;
                }
                let case = 1_000_000 + i;
                if only.is_some_and(|c| c != case) {
                    continue;
                }
                if rep.elapsed() > budget {
                    rep.extra("stopped_early", json!(true));
                    break;
                }
                let mut rng = Rng::fork(args.seed, case);
                let dag: Dag = gen_dag(&mut rng, &DagParams { min_nodes: 4, max_nodes: 12, p_missing: 0.1, p_repeat: 0.0 });
                let ops = build_ops(&mut rng, &dag);
                let mut order: Vec<usize> = (0..dag.n()).collect();
                if rng.chance(0.5) {
                    rng.shuffle(&mut order);
                }
                let delivered: BTreeSet<usize> = order.iter().copied().collect();
                let expected = dag.release_fixpoint(&delivered);
                if is_wiped(&store).await {
                    stray_wipes += 1;
                    store = build_store(*flavour, &dir).await;
                }
                let run = buffer_run(&store, &ops, &order, &mut rng).await;
                runs_b += 1;
                b_drops += run.next_futures_dropped;
                if !run.quiescent {
                    rep.inconclusive(format!("part B case {case}: watchdog expired before the buffer task parked on an empty queue"));
                    rep.case(None::<()>);
                    continue;
                }
                rep.case(if run.next_futures_dropped > 0 { Some((vh_common::hash_of(&dag), order.clone(), fi, "B")) } else { None });
                for e in &run.errors {
                    if recorded_errors.len() < 8 {
                        recorded_errors.push(format!("B case {case}: {e}"));
                    }
                    rep.bump("orderer_errors_recorded_not_judged", 1);
                }
                let got: BTreeSet<usize> = run.returned.iter().copied().collect();
                duplicates_recorded += (run.returned.len() - got.len()) as u64;
                c11_shortfall += expected.difference(&run.released).count() as u64;
                let trace: Vec<String> = run.events.iter().take(800).map(render).collect();
                let witness = |detail: Value| -> Value {
                    json!({"seed": args.seed, "part": "B", "case": case, "flavour": format!("{flavour:?}"),
                        "replay_args": format!("C12 --seed {} case={} flavour={}", args.seed, case, fi),
                        "deps": format!("{:?}", dag.deps), "arrival_order": order, "released_by_orderer": run.released, "yielded": run.returned,
                        "database_wiped": run.wiped, "errors": run.errors, "store_calls": trace, "detail": detail})
                };
                let lost: Vec<usize> = run.released.difference(&got).copied().collect();
                if let Some(n) = run.parked_nonempty {
                    rep.violation(
                        "C12:released-item-never-returned:next-parked-with-nonempty-queue",
                        format!("the buffer task's next() is parked (all inputs processed, no store call in flight, call log still) while the ready queue holds {n} released item(s): the stream will never yield them"),
                        witness(json!({"still_queued": n, "not_yielded_nodes": lost})),
                    );
                } else if run.wiped {
                    wipes += 1;
                    rep.violation(
                        "C12:lost:in-memory-database-wiped-by-cancelled-acquire",
                        format!("the Buffer dropped a `next` future inside a pool acquire and the in-memory database lost all tables: {} released item(s) never yielded", lost.len()),
                        witness(json!({"lost_nodes": lost})),
                    );
                    store = build_store(*flavour, &dir).await;
                } else {
                    for x in &lost {
                        let (sig, how) = attribute_buffer_loss(&run.events, &ops.ops[*x].0.hash);
                        rep.violation(&sig, format!("node {x} was released by the orderer but never yielded by the stream: {how}"), witness(json!({"lost_node": x})));
                    }
                    for x in got.difference(&expected) {
                        rep.violation("C12:returned-unreleasable-item", format!("node {x} was yielded although its dependencies are not all released"), witness(json!({"node": x})));
                    }
                }
                if rep.want_sample() && run.next_futures_dropped > 0 && i % 5 == 0 {
                    rep.sample(json!({"part": "B", "case": case, "flavour": format!("{flavour:?}"), "inputs": order.len(), "released_by_orderer": run.released.len(),
                        "yielded": run.returned.len(), "store_calls_dropped_by_select": run.next_futures_dropped}));
                }
            }
            store.pool().close().await;
        });
        drop(local);
        rt.shutdown_timeout(Duration::from_secs(5));
    }
    rep.extra("part_a_runs", json!(runs_a));
    rep.extra("part_a_cancellation_points", json!(cancel_points));
    rep.extra("part_a_cancelled_after_pendings_histogram", json!(js_hist.iter().map(|(k, v)| (k.to_string(), *v)).collect::<BTreeMap<_, _>>()));
    rep.extra("part_a_max_j", json!(max_j));
    rep.extra("part_b_runs", json!(runs_b));
    rep.extra("part_b_store_calls_dropped_by_buffer_select", json!(b_drops));
    rep.extra("items_returned_more_than_once_recorded_not_judged", json!(duplicates_recorded));
    rep.extra("items_the_orderer_never_released_although_ready_recorded_not_judged_here_see_C11", json!(c11_shortfall));
    rep.extra("runs_in_which_the_in_memory_database_was_wiped", json!(wipes));
    rep.extra("database_found_wiped_between_runs_harness_teardown_not_judged", json!(stray_wipes));
    rep.extra("error_samples", json!(recorded_errors));
    rep.finish(args);
}
