//! Harness over the store's transaction provider, the causal orderer and the processor streams.
//!
//! C10 transactions atomic/serialized under any abort point, C11 causal orderer releases after and
//! always after dependencies, C12 released items survive cancellation of `next`, C13 processor
//! streams deliver exactly once and in order.

#![allow(dead_code, unused_assignments)]

mod c10;
mod c11;
mod c12;
mod c13;
mod graph;
mod poll;
mod probe;

use vh_common::Args;

fn main() {
    let args = Args::parse();
    match args.prop.as_str() {
        "C10" => c10::run(&args),
        "C11" => c11::run(&args),
        "C12" => c12::run(&args),
        "C13" => c13::run(&args),
        other => panic!("vh-stream does not serve {other}"),
    }
}
