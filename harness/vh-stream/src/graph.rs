//! Seeded dependency graphs, real signed operations carrying them, and the reference release set
//! (least fixpoint) written from the statement of C11.

use std::collections::BTreeSet;

use p2panda_core::traits::Digest;
use p2panda_core::{Body, Hash, Header, Operation, SigningKey};
use p2panda_stream::orderer::Ordering;
use serde::{Deserialize, Serialize};
use vh_common::Rng;

#[derive(Clone, Copy, Debug, PartialEq, Eq, Hash, PartialOrd, Ord)]
pub enum Dep {
    /// Another node of the graph (always a lower index: the graph is acyclic).
    Node(usize),
    /// An id that is never delivered.
    Missing(usize),
}

#[derive(Clone, Debug, Hash)]
pub struct Dag {
    /// Dependency *list* per node, as delivered: may repeat entries, any order.
    pub deps: Vec<Vec<Dep>>,
    pub n_missing: usize,
}

impl Dag {
    pub fn n(&self) -> usize {
        self.deps.len()
    }

    pub fn dep_set(&self, x: usize) -> BTreeSet<Dep> {
        self.deps[x].iter().copied().collect()
    }

    pub fn has_repeated_entry(&self, x: usize) -> bool {
        self.dep_set(x).len() != self.deps[x].len()
    }

    pub fn has_missing(&self, x: usize) -> bool {
        self.deps[x].iter().any(|d| matches!(d, Dep::Missing(_)))
    }

    /// The same graph with every dependency list reduced to a sorted set.
    pub fn deduped(&self) -> Dag {
        Dag {
            deps: (0..self.n()).map(|x| self.dep_set(x).into_iter().collect()).collect(),
            n_missing: self.n_missing,
        }
    }

    /// Reference from the statement: x is released iff it was delivered and every element of the
    /// *set* of its dependencies is released (least fixpoint; missing ids are never released).
    pub fn release_fixpoint(&self, delivered: &BTreeSet<usize>) -> BTreeSet<usize> {
        let mut rel: BTreeSet<usize> = BTreeSet::new();
        loop {
            let mut grew = false;
            for &x in delivered {
                if rel.contains(&x) {
                    continue;
                }
                let ok = self.deps[x].iter().all(|d| match d {
                    Dep::Node(y) => rel.contains(y),
                    Dep::Missing(_) => false,
                });
                if ok {
                    rel.insert(x);
                    grew = true;
                }
            }
            if !grew {
                return rel;
            }
        }
    }
}

pub struct DagParams {
    pub min_nodes: usize,
    pub max_nodes: usize,
    pub p_missing: f64,
    pub p_repeat: f64,
}

pub fn gen_dag(rng: &mut Rng, p: &DagParams) -> Dag {
    let n = p.min_nodes + rng.usize_below(p.max_nodes - p.min_nodes + 1);
    let mut deps: Vec<Vec<Dep>> = Vec::new();
    let mut n_missing = 0;
    for x in 0..n {
        let mut d: Vec<Dep> = Vec::new();
        if x > 0 {
            let fan_in = match rng.below(6) {
                0 => 0,
                1 | 2 => 1,
                3 => 2,
                4 => 3,
                _ => 4,
            }
            .min(x);
            let mut cand: Vec<usize> = (0..x).collect();
            rng.shuffle(&mut cand);
            // Prefer recent nodes so that chains and diamonds appear, not only stars.
            cand.sort_by_key(|c| if rng.chance(0.5) { x - c } else { *c });
            for c in cand.into_iter().take(fan_in) {
                d.push(Dep::Node(c));
            }
        }
        if rng.chance(p.p_missing) {
            d.push(Dep::Missing(n_missing));
            n_missing += 1;
        }
        if !d.is_empty() && rng.chance(p.p_repeat) {
            // Repeat one or more entries (a list, not a set).
            let reps = 1 + rng.usize_below(2);
            for _ in 0..reps {
                let e = *rng.pick(&d);
                d.push(e);
            }
        }
        rng.shuffle(&mut d);
        deps.push(d);
    }
    Dag { deps, n_missing }
}

// ---------------------------------------------------------------------------------------------
// Real operations
// ---------------------------------------------------------------------------------------------

#[derive(Clone, Debug, Default, Serialize, Deserialize)]
pub struct Ext {
    pub dependencies: Vec<Hash>,
}

/// Local newtype so that the orderer's `Ordering` trait can be implemented (orphan rule).
#[derive(Clone, Debug)]
pub struct Op(pub Operation<Ext>);

impl Digest<Hash> for Op {
    fn hash(&self) -> Hash {
        self.0.hash
    }
}

impl Ordering<Hash> for Op {
    fn dependencies(&self) -> &[Hash] {
        &self.0.header.extensions.dependencies
    }
}

pub struct Ops {
    pub ops: Vec<Op>,
    pub missing: Vec<Hash>,
}

impl Ops {
    pub fn index_of(&self, h: &Hash) -> Option<usize> {
        self.ops.iter().position(|o| o.0.hash == *h)
    }
}

/// One signed operation per node, in index order (dependencies point at lower indices).
pub fn build_ops(rng: &mut Rng, dag: &Dag) -> Ops {
    let key = SigningKey::from_bytes(&rng.array32());
    let missing: Vec<Hash> = (0..dag.n_missing).map(|_| Hash::from_bytes(rng.array32())).collect();
    let mut ops: Vec<Op> = Vec::new();
    for x in 0..dag.n() {
        let dependencies: Vec<Hash> = dag.deps[x]
            .iter()
            .map(|d| match d {
                Dep::Node(y) => ops[*y].0.hash,
                Dep::Missing(m) => missing[*m],
            })
            .collect();
        let mut payload = rng.bytes(8);
        payload.extend_from_slice(&(x as u32).to_le_bytes());
        let body: Body = payload.into();
        let mut header = Header {
            verifying_key: key.verifying_key(),
            payload_size: body.size(),
            payload_hash: Some(body.hash()),
            // seq_num 0: a non-zero seq_num would require a backlink in the header encoding.
            seq_num: 0,
            extensions: Ext { dependencies },
            ..Default::default()
        };
        header.sign(&key);
        ops.push(Op(Operation { hash: header.hash(), header, body: Some(body) }));
    }
    Ops { ops, missing }
}
