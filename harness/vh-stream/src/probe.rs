//! A delegating store: `Orderer` is generic over its store, so this wrapper sees every trait call
//! the orderer makes (and whether the call's future completed or was dropped) without any hook in
//! the code under test. All work is done by the real `SqliteStore`.

use std::cell::RefCell;
use std::collections::HashSet;
use std::rc::Rc;

use p2panda_core::{Hash, LogId, Operation};
use p2panda_store::operations::OperationStore;
use p2panda_store::orderer::OrdererStore;
use p2panda_store::sqlite::{SqliteError, TransactionPermit};
use p2panda_store::{SqliteStore, Transaction};

use crate::graph::{Ext, Op};

#[derive(Clone, Debug, PartialEq, Eq)]
pub enum PEv {
    Start(&'static str),
    /// Call completed; detail is the interesting part of the result.
    End(&'static str, String),
    /// The call's future was dropped before completing.
    Dropped(&'static str),
    /// Harness marker (e.g. "next#3:start", "next#3:cancelled@2").
    Mark(String),
}

#[derive(Clone)]
pub struct Probe {
    pub inner: SqliteStore,
    pub log: Rc<RefCell<Vec<PEv>>>,
}

impl Probe {
    pub fn new(inner: SqliteStore) -> Probe {
        Probe { inner, log: Rc::default() }
    }

    pub fn mark(&self, s: String) {
        self.log.borrow_mut().push(PEv::Mark(s));
    }

    fn call(&self, name: &'static str) -> CallGuard {
        self.log.borrow_mut().push(PEv::Start(name));
        CallGuard { log: self.log.clone(), name, done: false }
    }

    pub fn len(&self) -> usize {
        self.log.borrow().len()
    }

    pub fn render(&self, from: usize, max: usize) -> Vec<String> {
        self.log.borrow().iter().skip(from).take(max).map(render).collect()
    }
}

pub fn render(e: &PEv) -> String {
    match e {
        PEv::Start(n) => format!("{n}("),
        PEv::End(n, d) => format!("){n}={d}"),
        PEv::Dropped(n) => format!("{n}!dropped"),
        PEv::Mark(m) => format!("# {m}"),
    }
}

struct CallGuard {
    log: Rc<RefCell<Vec<PEv>>>,
    name: &'static str,
    done: bool,
}

impl CallGuard {
    fn end(mut self, detail: String) {
        self.done = true;
        self.log.borrow_mut().push(PEv::End(self.name, detail));
    }
}

impl Drop for CallGuard {
    fn drop(&mut self) {
        if !self.done {
            self.log.borrow_mut().push(PEv::Dropped(self.name));
        }
    }
}

fn okerr<T, E>(r: &Result<T, E>) -> String {
    if r.is_ok() { "ok".into() } else { "err".into() }
}

pub fn short(h: &Hash) -> String {
    h.to_hex()[..8].to_string()
}

impl Transaction for Probe {
    type Error = SqliteError;
    type Permit = TransactionPermit;

    async fn begin(&self) -> Result<TransactionPermit, SqliteError> {
        let g = self.call("begin");
        let r = self.inner.begin().await;
        g.end(okerr(&r));
        r
    }

    async fn rollback(&self, permit: TransactionPermit) -> Result<(), SqliteError> {
        let g = self.call("rollback");
        let r = self.inner.rollback(permit).await;
        g.end(okerr(&r));
        r
    }

    async fn commit(&self, permit: TransactionPermit) -> Result<(), SqliteError> {
        let g = self.call("commit");
        let r = self.inner.commit(permit).await;
        g.end(okerr(&r));
        r
    }
}

impl OrdererStore<Hash> for Probe {
    type Error = SqliteError;

    async fn mark_ready(&self, id: Hash) -> Result<bool, SqliteError> {
        let g = self.call("mark_ready");
        let r = OrdererStore::<Hash>::mark_ready(&self.inner, id).await;
        g.end(format!("{}:{}", id.to_hex(), r.as_ref().map(|b| b.to_string()).unwrap_or("err".into())));
        r
    }

    async fn mark_pending(&self, id: Hash, dependencies: Vec<Hash>) -> Result<bool, SqliteError> {
        let g = self.call("mark_pending");
        let r = OrdererStore::<Hash>::mark_pending(&self.inner, id, dependencies).await;
        g.end(format!("{}:{}", short(&id), r.as_ref().map(|b| b.to_string()).unwrap_or("err".into())));
        r
    }

    async fn get_next_pending(&self, id: Hash) -> Result<Option<HashSet<(Hash, Vec<Hash>)>>, SqliteError> {
        let g = self.call("get_next_pending");
        let r = OrdererStore::<Hash>::get_next_pending(&self.inner, id).await;
        g.end(okerr(&r));
        r
    }

    async fn take_next_ready(&self) -> Result<Option<Hash>, SqliteError> {
        let g = self.call("take_next_ready");
        let r = OrdererStore::<Hash>::take_next_ready(&self.inner).await;
        g.end(match &r {
            Ok(Some(h)) => format!("some:{}", h.to_hex()),
            Ok(None) => "none".into(),
            Err(_) => "err".into(),
        });
        r
    }

    async fn remove_pending(&self, id: Hash) -> Result<bool, SqliteError> {
        let g = self.call("remove_pending");
        let r = OrdererStore::<Hash>::remove_pending(&self.inner, id).await;
        g.end(okerr(&r));
        r
    }

    async fn ready(&self, keys: &[Hash]) -> Result<bool, SqliteError> {
        let g = self.call("ready");
        let r = OrdererStore::<Hash>::ready(&self.inner, keys).await;
        g.end(r.as_ref().map(|b| b.to_string()).unwrap_or("err".into()));
        r
    }
}

impl OperationStore<Op, Hash> for Probe {
    type Error = SqliteError;

    async fn insert_operation<L: LogId>(&self, id: &Hash, operation: &Op, collection_id: &L) -> Result<bool, SqliteError> {
        OperationStore::<Operation<Ext>, Hash>::insert_operation(&self.inner, id, &operation.0, collection_id).await
    }

    async fn get_operation(&self, id: &Hash) -> Result<Option<Op>, SqliteError> {
        let g = self.call("get_operation");
        let r = OperationStore::<Operation<Ext>, Hash>::get_operation(&self.inner, id).await;
        g.end(format!("{}:{}", short(id), okerr(&r)));
        r.map(|o| o.map(Op))
    }

    async fn get_operation_tx(&self, id: &Hash) -> Result<Option<Op>, SqliteError> {
        let g = self.call("get_operation_tx");
        let r = OperationStore::<Operation<Ext>, Hash>::get_operation_tx(&self.inner, id).await;
        g.end(format!("{}:{}", short(id), okerr(&r)));
        r.map(|o| o.map(Op))
    }

    async fn has_operation(&self, id: &Hash) -> Result<bool, SqliteError> {
        OperationStore::<Operation<Ext>, Hash>::has_operation(&self.inner, id).await
    }

    async fn has_operation_tx(&self, id: &Hash) -> Result<bool, SqliteError> {
        OperationStore::<Operation<Ext>, Hash>::has_operation_tx(&self.inner, id).await
    }

    async fn delete_operation(&self, id: &Hash) -> Result<bool, SqliteError> {
        OperationStore::<Operation<Ext>, Hash>::delete_operation(&self.inner, id).await
    }

    async fn delete_operation_payload(&self, id: &Hash) -> Result<bool, SqliteError> {
        OperationStore::<Operation<Ext>, Hash>::delete_operation_payload(&self.inner, id).await
    }
}

// ---------------------------------------------------------------------------------------------
// Driving `Orderer::next` without blocking forever on an empty queue
// ---------------------------------------------------------------------------------------------

use std::future::Future;
use std::pin::Pin;
use std::task::{Context, Poll};

pub enum NextOutcome<T> {
    Done(T, u64),
    /// The orderer asked the store for the next ready item, the store answered "none" and the
    /// future then parked itself: the queue is empty. The future was dropped at that point.
    Empty(u64),
    /// Dropped after the requested number of `Pending`s.
    Cancelled(u64),
    /// The future returned `Pending` while no store call was in flight, the store's last answer
    /// was not "queue empty", and nothing had woken the task: it waits on the orderer's own
    /// in-memory state (its notify / mutex) and only another call on the orderer can complete it.
    /// The future was dropped; the caller decides on the state of the ready queue.
    Parked(u64),
}

struct WakeFlag {
    woken: std::sync::atomic::AtomicBool,
    inner: std::task::Waker,
}

impl std::task::Wake for WakeFlag {
    fn wake(self: std::sync::Arc<Self>) {
        self.woken.store(true, std::sync::atomic::Ordering::SeqCst);
        self.inner.wake_by_ref();
    }
}

/// Polls a `next()` future with the task's real waker. Returns `Empty` once the probe has seen
/// `take_next_ready -> none` during this call and the future is `Pending`; cancels after
/// `cancel_after` Pendings if that is non-zero.
pub struct DriveNext<F: Future> {
    fut: Option<Pin<Box<F>>>,
    log: Rc<RefCell<Vec<PEv>>>,
    from: usize,
    cancel_after: u64,
    pendings: u64,
}

impl<F: Future> DriveNext<F> {
    pub fn new(fut: F, probe: &Probe, cancel_after: u64) -> Self {
        DriveNext { fut: Some(Box::pin(fut)), log: probe.log.clone(), from: probe.len(), cancel_after, pendings: 0 }
    }
}

impl<F: Future> Unpin for DriveNext<F> {}

impl<F: Future> Future for DriveNext<F> {
    type Output = NextOutcome<F::Output>;

    fn poll(mut self: Pin<&mut Self>, cx: &mut Context<'_>) -> Poll<Self::Output> {
        let this = &mut *self;
        let fut = this.fut.as_mut().expect("polled after completion");
        // Real waker underneath, plus a flag that tells whether anything woke us during this poll.
        let flag = std::sync::Arc::new(WakeFlag { woken: std::sync::atomic::AtomicBool::new(false), inner: cx.waker().clone() });
        let waker = std::task::Waker::from(flag.clone());
        let mut cx2 = Context::from_waker(&waker);
        match fut.as_mut().poll(&mut cx2) {
            Poll::Ready(v) => {
                this.fut = None;
                Poll::Ready(NextOutcome::Done(v, this.pendings))
            }
            Poll::Pending => {
                this.pendings += 1;
                let in_flight = {
                    let log = this.log.borrow();
                    let mut n = 0i64;
                    for e in log.iter().skip(this.from) {
                        match e {
                            PEv::Start(_) => n += 1,
                            PEv::End(..) | PEv::Dropped(_) => n -= 1,
                            PEv::Mark(_) => {}
                        }
                    }
                    n
                };
                let empty = {
                    let log = this.log.borrow();
                    // Parked after the store said "none": the last call event is that answer.
                    matches!(log.iter().skip(this.from).rev().find(|e| !matches!(e, PEv::Mark(_))),
                        Some(PEv::End("take_next_ready", d)) if d == "none")
                };
                if empty {
                    this.fut = None;
                    return Poll::Ready(NextOutcome::Empty(this.pendings));
                }
                if in_flight == 0 && !flag.woken.load(std::sync::atomic::Ordering::SeqCst) {
                    this.fut = None;
                    return Poll::Ready(NextOutcome::Parked(this.pendings));
                }
                if this.cancel_after != 0 && this.pendings >= this.cancel_after {
                    this.fut = None;
                    return Poll::Ready(NextOutcome::Cancelled(this.pendings));
                }
                Poll::Pending
            }
        }
    }
}

/// Ids the orderer moved to the ready queue ("released") in transactions that were committed,
/// as seen at the store boundary: `mark_ready -> true` followed by a successful `commit`.
pub fn released_by_store(events: &[PEv]) -> Vec<String> {
    let mut out: Vec<String> = Vec::new();
    let mut in_tx: Vec<String> = Vec::new();
    for e in events {
        match e {
            PEv::Start("begin") => in_tx.clear(),
            PEv::End("mark_ready", d) => {
                if let Some((hex, "true")) = d.split_once(':') {
                    in_tx.push(hex.to_string());
                }
            }
            PEv::End("commit", r) if r == "ok" => {
                for h in in_tx.drain(..) {
                    if !out.contains(&h) {
                        out.push(h);
                    }
                }
            }
            _ => {}
        }
    }
    out
}

/// Number of items sitting in the ready queue (`in_queue = TRUE`), read directly. `None` when the
/// query cannot complete within two seconds (e.g. the only connection is held by an open
/// transaction) or fails.
pub async fn ready_queue_len(store: &SqliteStore) -> Option<i64> {
    let q = sqlx::query_scalar::<_, i64>("SELECT COUNT(*) FROM orderer_ready_v1 WHERE in_queue = TRUE").fetch_one(store.pool());
    match tokio::time::timeout(std::time::Duration::from_secs(2), q).await {
        Ok(Ok(n)) => Some(n),
        _ => None,
    }
}
