//! C10 — store transactions are atomic and serialized under any abort point.
//!
//! Concurrent writer tasks on a multi-thread runtime run transactions through the store's real
//! transaction API (`begin` / `tx` / `commit` / `rollback`, the `tx!` macro). Every transaction is
//! tagged with a unique id, reads a shared counter row, writes its own rows (carrying the counter
//! value it saw) and writes the counter back incremented. A transaction ends by commit, rollback,
//! a failing statement followed by `?` (permit dropped on the error path), an explicit permit
//! drop, cancellation of its future after the j-th `Pending` (enumerated), or abortion of its task.
//! The oracle is a final-state serializability ledger written from the statement; "aborted
//! transactions never prevent later ones from starting" is decided on runtime state, not on a
//! deadline.

use std::collections::{BTreeMap, BTreeSet};
use std::panic::AssertUnwindSafe;
use std::sync::atomic::{AtomicI64, AtomicU8, AtomicU64, Ordering};
use std::sync::{Arc, Mutex};
use std::time::{Duration, Instant};

use futures::FutureExt;
use p2panda_store::sqlite::{SqliteError, SqliteStoreBuilder};
use p2panda_store::{SqliteStore, Transaction, tx};
use sqlx::{Executor, query, query_as, query_scalar};
use tokio::task::JoinHandle;
use vh_common::{Args, Report, Rng, Tier, Value, hash_of, json};

use crate::poll::{CancelAfter, Polled};

// Phases of one transaction, recorded by the transaction itself right before / after each call.
const NOT_STARTED: u8 = 0;
const BEGIN_CALLED: u8 = 1;
const BEGUN: u8 = 2;
const WRITING: u8 = 3;
const ENDING_COMMIT: u8 = 4;
const COMMITTED: u8 = 5;
const COMMIT_ERR: u8 = 6;
const ENDING_ROLLBACK: u8 = 7;
const ROLLED_BACK: u8 = 8;
const ERRORING: u8 = 9;
const PERMIT_DROPPED: u8 = 10;

fn phase_name(p: u8) -> &'static str {
    match p {
        NOT_STARTED => "not-started",
        BEGIN_CALLED => "in-begin",
        BEGUN => "begun",
        WRITING => "writing",
        ENDING_COMMIT => "in-commit",
        COMMITTED => "commit-returned-ok",
        COMMIT_ERR => "commit-returned-err",
        ENDING_ROLLBACK => "in-rollback",
        ROLLED_BACK => "rollback-returned",
        ERRORING => "failing-statement",
        PERMIT_DROPPED => "permit-dropped",
        _ => "?",
    }
}

#[derive(Clone, Copy, Debug, PartialEq, Eq, Hash, PartialOrd, Ord)]
enum End {
    Commit,
    Rollback,
    /// A failing statement, then `?`: the permit is dropped on the error path.
    Error,
    DropPermit,
}

#[derive(Clone, Debug)]
struct TxnSpec {
    id: u64,
    nrows: usize,
    end: End,
    /// Use the `tx!` macro instead of explicit begin/commit (Commit and Error only).
    via_macro: bool,
    /// Where the failing statement sits (number of rows written before it).
    error_after_rows: usize,
    /// Cancel the transaction's future after this many `Pending`s (0 = never).
    cancel_after: u64,
    yield_mask: u32,
    /// A cooperating clone of the store (its own task) is inside a multi-statement, yielding
    /// `store.tx(..)` closure of this transaction at the moment the owner ends it.
    sibling: bool,
    /// End the transaction by dropping its future exactly while the sibling is inside `tx(..)`.
    cancel_in_sibling: bool,
}

struct TxnRec {
    id: u64,
    task: usize,
    nrows: usize,
    spec_end: End,
    cancel_after: u64,
    sibling: bool,
    /// Fired by the body when it wants its own future dropped right now (cancel_in_sibling).
    cancel_me: tokio::sync::Notify,
    phase: AtomicU8,
    seen: AtomicI64,
    begin_call_seq: AtomicU64,
    begun_seq: AtomicU64,
    end_seq: AtomicU64,
    /// How the transaction's future ended, from the harness's point of view.
    how: Mutex<String>,
}

struct Log {
    seq: AtomicU64,
    events: Mutex<Vec<(u64, u64, &'static str)>>,
    /// Milliseconds since the round started, per event (diagnostic only, never judged).
    at_ms: Mutex<Vec<u64>>,
    t0: Instant,
    /// Sibling tasks spawned by transactions of this round (joined before the final checks).
    helpers: Mutex<Vec<JoinHandle<()>>>,
    /// Owners that ended their transaction while the sibling was verifiably inside `tx(..)`.
    ended_while_sibling_inside: AtomicU64,
}

impl Default for Log {
    fn default() -> Self {
        Log { seq: AtomicU64::new(0), events: Mutex::default(), at_ms: Mutex::default(), t0: Instant::now(), helpers: Mutex::default(), ended_while_sibling_inside: AtomicU64::new(0) }
    }
}

impl Log {
    fn ev(&self, txn: u64, kind: &'static str) -> u64 {
        let s = self.seq.fetch_add(1, Ordering::SeqCst) + 1;
        let mut ev = self.events.lock().unwrap();
        ev.push((s, txn, kind));
        self.at_ms.lock().unwrap().push(self.t0.elapsed().as_millis() as u64);
        s
    }
}

async fn maybe_yield(spec: &TxnSpec, step: u32) {
    if spec.yield_mask >> (step % 32) & 1 == 1 {
        tokio::task::yield_now().await;
    }
}

async fn writes(store: &SqliteStore, spec: &TxnSpec, rec: &TxnRec) -> Result<(), SqliteError> {
    let v: i64 = store
        .tx(async |tx| {
            let v: i64 = query_scalar("SELECT value FROM vh_counter WHERE id = 0")
                .fetch_one(&mut **tx)
                .await?;
            Ok(v)
        })
        .await?;
    rec.seen.store(v, Ordering::SeqCst);
    rec.phase.store(WRITING, Ordering::SeqCst);
    maybe_yield(spec, 1).await;
    for k in 0..spec.nrows {
        if spec.end == End::Error && !spec.sibling && k == spec.error_after_rows {
            break;
        }
        let (id, kk) = (spec.id as i64, k as i64);
        store
            .tx(async |tx| {
                query("INSERT INTO vh_rows (txn, k, seen) VALUES (?, ?, ?)")
                    .bind(id)
                    .bind(kk)
                    .bind(v)
                    .execute(&mut **tx)
                    .await?;
                Ok(())
            })
            .await?;
        maybe_yield(spec, 2 + k as u32).await;
    }
    store
        .tx(async |tx| {
            query("UPDATE vh_counter SET value = ? WHERE id = 0")
                .bind(v + 1)
                .execute(&mut **tx)
                .await?;
            Ok(())
        })
        .await?;
    maybe_yield(spec, 20).await;
    if spec.end == End::Error && !spec.sibling {
        rec.phase.store(ERRORING, Ordering::SeqCst);
        // A statement that fails (no such table); `?` then leaves the transaction body.
        store
            .tx(async |tx| {
                query("INSERT INTO vh_no_such_table (x) VALUES (1)")
                    .execute(&mut **tx)
                    .await?;
                Ok(())
            })
            .await?;
    }
    Ok(())
}

#[derive(Default)]
struct Sib {
    inside: std::sync::atomic::AtomicBool,
    owner_done: std::sync::atomic::AtomicBool,
    finished: std::sync::atomic::AtomicBool,
}

/// Dropped together with the owner's locals (before the permit, which is declared earlier): tells
/// the sibling that the owner has ended the transaction.
struct SibGuard {
    sib: Arc<Sib>,
    counter: Option<Arc<Log>>,
}

impl Drop for SibGuard {
    fn drop(&mut self) {
        if self.sib.inside.load(Ordering::SeqCst) && !self.sib.finished.load(Ordering::SeqCst) {
            if let Some(log) = &self.counter {
                log.ended_while_sibling_inside.fetch_add(1, Ordering::SeqCst);
            }
        }
        self.sib.owner_done.store(true, Ordering::SeqCst);
    }
}

/// Spawn a cooperating task on a clone of the store that works inside the *current* transaction
/// through one `store.tx(..)` closure with two statements and several suspension points between
/// them (the closure holds the store's transaction slot for its whole duration). Returns once the
/// sibling is inside the closure. When the owner aborts, the sibling stays inside for a few more
/// milliseconds; when the owner commits / rolls back, `commit`/`rollback` have to wait for it.
async fn start_sibling(store: &SqliteStore, spec: &TxnSpec, rec: &TxnRec, log: &Arc<Log>) -> SibGuard {
    let sib = Arc::new(Sib::default());
    let (s2, sib2) = (store.clone(), sib.clone());
    let (id, seen) = (spec.id as i64, rec.seen.load(Ordering::SeqCst));
    let hold = if spec.cancel_in_sibling || matches!(spec.end, End::Error | End::DropPermit) { 40 } else { 3 };
    let h = tokio::spawn(async move {
        let _ = s2
            .tx(async |tx| {
                query("INSERT INTO vh_rows (txn, k, seen) VALUES (?, 100, ?)").bind(id).bind(seen).execute(&mut **tx).await?;
                sib2.inside.store(true, Ordering::SeqCst);
                let mut after = 0;
                for i in 0..hold {
                    if i % 2 == 0 {
                        tokio::task::yield_now().await;
                    } else {
                        tokio::time::sleep(Duration::from_micros(200)).await;
                    }
                    if sib2.owner_done.load(Ordering::SeqCst) {
                        after += 1;
                        if after >= 6 {
                            break;
                        }
                    }
                }
                query("INSERT INTO vh_rows (txn, k, seen) VALUES (?, 101, ?)").bind(id).bind(seen).execute(&mut **tx).await?;
                Ok(())
            })
            .await;
        sib2.finished.store(true, Ordering::SeqCst);
    });
    log.helpers.lock().unwrap().push(h);
    log.ev(spec.id, "sibling-spawned");
    for _ in 0..50_000 {
        if sib.inside.load(Ordering::SeqCst) || sib.finished.load(Ordering::SeqCst) {
            break;
        }
        tokio::task::yield_now().await;
    }
    log.ev(spec.id, "sibling-inside-tx");
    SibGuard { sib, counter: Some(log.clone()) }
}

/// Sibling transactions that end by cancellation: ask the driver to drop this future now.
async fn cancel_here(rec: &TxnRec) {
    rec.cancel_me.notify_one();
    futures::future::pending::<()>().await;
}

async fn body_explicit(store: &SqliteStore, spec: &TxnSpec, rec: &TxnRec, log: &Arc<Log>) -> Result<(), SqliteError> {
    rec.phase.store(BEGIN_CALLED, Ordering::SeqCst);
    rec.begin_call_seq.store(log.ev(spec.id, "begin-call"), Ordering::SeqCst);
    let permit = store.begin().await?;
    rec.phase.store(BEGUN, Ordering::SeqCst);
    rec.begun_seq.store(log.ev(spec.id, "begun"), Ordering::SeqCst);
    maybe_yield(spec, 0).await;
    // `?` here drops `permit` (error path).
    writes(store, spec, rec).await?;
    let _sib = if spec.sibling { Some(start_sibling(store, spec, rec, log).await) } else { None };
    if spec.cancel_in_sibling {
        cancel_here(rec).await;
    }
    if spec.sibling && spec.end == End::Error {
        // Error path while the sibling is inside `tx(..)`: `?` drops the permit.
        rec.phase.store(ERRORING, Ordering::SeqCst);
        Err::<(), _>(SqliteError::TransactionMissing)?;
    }
    match spec.end {
        End::Commit | End::Error => {
            rec.phase.store(ENDING_COMMIT, Ordering::SeqCst);
            log.ev(spec.id, "commit-call");
            match store.commit(permit).await {
                Ok(()) => {
                    rec.phase.store(COMMITTED, Ordering::SeqCst);
                    rec.end_seq.store(log.ev(spec.id, "committed"), Ordering::SeqCst);
                }
                Err(e) => {
                    rec.phase.store(COMMIT_ERR, Ordering::SeqCst);
                    rec.end_seq.store(log.ev(spec.id, "commit-err"), Ordering::SeqCst);
                    return Err(e);
                }
            }
        }
        End::Rollback => {
            rec.phase.store(ENDING_ROLLBACK, Ordering::SeqCst);
            log.ev(spec.id, "rollback-call");
            let r = store.rollback(permit).await;
            rec.phase.store(ROLLED_BACK, Ordering::SeqCst);
            rec.end_seq.store(log.ev(spec.id, "rolled-back"), Ordering::SeqCst);
            r?;
        }
        End::DropPermit => {
            rec.phase.store(PERMIT_DROPPED, Ordering::SeqCst);
            rec.end_seq.store(log.ev(spec.id, "permit-dropped"), Ordering::SeqCst);
            drop(permit);
        }
    }
    Ok(())
}

async fn body_macro(store: &SqliteStore, spec: &TxnSpec, rec: &TxnRec, log: &Arc<Log>) -> Result<(), SqliteError> {
    rec.phase.store(BEGIN_CALLED, Ordering::SeqCst);
    rec.begin_call_seq.store(log.ev(spec.id, "begin-call"), Ordering::SeqCst);
    tx!(store, {
        rec.phase.store(BEGUN, Ordering::SeqCst);
        rec.begun_seq.store(log.ev(spec.id, "begun"), Ordering::SeqCst);
        writes(store, spec, rec).await?;
        let _sib = if spec.sibling { Some(start_sibling(store, spec, rec, log).await) } else { None };
        if spec.cancel_in_sibling {
            cancel_here(rec).await;
        }
        if spec.sibling && spec.end == End::Error {
            rec.phase.store(ERRORING, Ordering::SeqCst);
            Err::<(), _>(SqliteError::TransactionMissing)?;
        }
        rec.phase.store(ENDING_COMMIT, Ordering::SeqCst);
        log.ev(spec.id, "commit-call");
    });
    rec.phase.store(COMMITTED, Ordering::SeqCst);
    rec.end_seq.store(log.ev(spec.id, "committed"), Ordering::SeqCst);
    Ok(())
}

/// Run one transaction: its future is polled by hand and dropped after `cancel_after` Pendings.
async fn run_txn(store: &SqliteStore, spec: &TxnSpec, rec: &Arc<TxnRec>, log: &Arc<Log>) -> Option<u64> {
    let fut = async {
        if spec.via_macro {
            body_macro(store, spec, rec, log).await
        } else {
            body_explicit(store, spec, rec, log).await
        }
    };
    let driven = async {
        let inner = CancelAfter::new(fut, spec.cancel_after);
        tokio::pin!(inner);
        tokio::select! {
            biased;
            r = &mut inner => r,
            // The body asked to be dropped at exactly this point (sibling inside `tx(..)`).
            _ = rec.cancel_me.notified() => Polled::Cancelled(0),
        }
    };
    let r = AssertUnwindSafe(driven).catch_unwind().await;
    let (how, pendings) = match r {
        Ok(Polled::Done(Ok(()), p)) => ("returned-ok".to_string(), Some(p)),
        Ok(Polled::Done(Err(e), p)) => {
            let ph = rec.phase.load(Ordering::SeqCst);
            if ph != ERRORING && ph != COMMIT_ERR {
                log.ev(spec.id, "unexpected-error");
            } else {
                rec.end_seq.store(log.ev(spec.id, "errored"), Ordering::SeqCst);
            }
            (format!("returned-err: {e}"), Some(p))
        }
        Ok(Polled::Cancelled(p)) => {
            rec.end_seq.store(log.ev(spec.id, "cancelled"), Ordering::SeqCst);
            if spec.cancel_in_sibling && p == 0 {
                ("cancelled-while-sibling-inside-tx".to_string(), None)
            } else {
                (format!("cancelled-after-{p}-pendings"), None)
            }
        }
        Err(p) => {
            let msg = p
                .downcast_ref::<&str>()
                .map(|s| s.to_string())
                .or_else(|| p.downcast_ref::<String>().cloned())
                .unwrap_or_else(|| "panic".into());
            log.ev(spec.id, "panicked");
            (format!("panicked: {msg}"), None)
        }
    };
    *rec.how.lock().unwrap() = how;
    pendings
}

// ---------------------------------------------------------------------------------------------
// Round generation
// ---------------------------------------------------------------------------------------------

#[derive(Clone, Copy, Debug, PartialEq, Eq)]
enum Db {
    Memory,
    FilePool4,
}

struct Round {
    db: Db,
    workers: usize,
    tasks: Vec<Vec<TxnSpec>>,
    /// Task index -> abort the task after this many coordinator spins (None = let it finish).
    abort_after: Vec<Option<u64>>,
    /// Specs of the enumeration task: the same body re-run with cancel_after = 1, 2, 3, ...
    enum_end: End,
    enum_macro: bool,
    enum_rows: usize,
}

fn gen_round(rng: &mut Rng, next_id: &mut u64) -> Round {
    let db = if rng.chance(0.5) { Db::Memory } else { Db::FilePool4 };
    let many = rng.chance(0.25);
    let n_tasks = 2 + rng.usize_below(if many { 15 } else { 5 });
    let mut tasks = Vec::new();
    // Make sure every kind of end occurs in the round.
    // (end, via tx! macro, sibling inside tx(..) when the owner ends, ended by cancellation there)
    let mut forced: Vec<(End, bool, bool, bool)> = vec![
        (End::Commit, false, false, false),
        (End::Commit, true, false, false),
        (End::Rollback, false, false, false),
        (End::Error, false, false, false),
        (End::Error, true, false, false),
        (End::DropPermit, false, false, false),
    ];
    rng.shuffle(&mut forced);
    // Every abort kind (and commit / rollback) with a cooperating clone inside `store.tx(..)`;
    // these are popped first so that even the smallest round contains them.
    let mut with_sibling: Vec<(End, bool, bool, bool)> = vec![
        (End::Commit, false, true, false),
        (End::Rollback, false, true, false),
        (End::DropPermit, false, true, false),
        (End::Error, false, true, false),
        (End::Error, true, true, false),
        (End::Commit, false, true, true),
        (End::Commit, true, true, true),
    ];
    rng.shuffle(&mut with_sibling);
    forced.extend(with_sibling);
    let mut forced_cancel = 2;
    for _ in 0..n_tasks {
        let n_tx = 4 + rng.usize_below(5);
        let mut specs = Vec::new();
        for _ in 0..n_tx {
            let (end, via_macro, sibling, cancel_in_sibling) = match forced.pop() {
                Some(f) => f,
                None => {
                    let end = *rng.pick(&[End::Commit, End::Commit, End::Commit, End::Rollback, End::Error, End::DropPermit]);
                    let sibling = rng.chance(0.08);
                    (end, matches!(end, End::Commit | End::Error) && rng.chance(0.4), sibling, sibling && rng.chance(0.3))
                }
            };
            let nrows = 1 + rng.usize_below(4);
            let cancel = if sibling {
                0
            } else if forced_cancel > 0 || rng.chance(0.15) {
                forced_cancel = (forced_cancel as i32 - 1).max(0);
                1 + rng.below(24)
            } else {
                0
            };
            *next_id += 1;
            specs.push(TxnSpec {
                id: *next_id,
                nrows,
                end,
                via_macro,
                error_after_rows: rng.usize_below(nrows + 1),
                cancel_after: cancel,
                yield_mask: if rng.chance(0.3) { 0 } else { rng.next_u32() },
                sibling,
                cancel_in_sibling,
            });
        }
        tasks.push(specs);
    }
    let mut abort_after: Vec<Option<u64>> = (0..n_tasks).map(|_| None).collect();
    let n_abort = 1 + rng.usize_below(2.min(n_tasks - 1).max(1));
    for _ in 0..n_abort {
        let t = rng.usize_below(n_tasks);
        abort_after[t] = Some(rng.below(400));
    }
    Round {
        db,
        workers: *rng.pick(&[2usize, 4, 4, 8]),
        tasks,
        abort_after,
        enum_end: *rng.pick(&[End::Commit, End::Commit, End::Rollback, End::Error]),
        enum_macro: rng.chance(0.3),
        enum_rows: 1 + rng.usize_below(3),
    }
}

// ---------------------------------------------------------------------------------------------
// State-based wedge monitor
// ---------------------------------------------------------------------------------------------

enum Waited {
    AllFinished,
    /// Permanent: nothing is left in the runtime that could release the permit.
    Wedged(Value),
    Watchdog(Value),
}

struct Watch<'a> {
    store: &'a SqliteStore,
    log: &'a Log,
    baseline_tasks: usize,
    /// For each watched task: the records of its transactions, in order.
    recs: &'a [Arc<Mutex<Vec<Arc<TxnRec>>>>],
}

/// Wait until every handle finished. While waiting, sample the runtime: the store is wedged when
/// every unfinished harness task sits inside `begin()` (and nowhere later), the runtime has no
/// other live task (in particular no detached rollback task, which is what releases the permit of
/// an aborted transaction), no pool connection is checked out (so nobody is inside `pool.begin()`
/// or an open transaction) and the global event counter does not move. That state has no
/// successor, so it is decided on the state; the sampling over one second only guards against
/// reading a transitional state. The wall-clock watchdog is inconclusive.
async fn wait_all(handles: &[JoinHandle<()>], w: &Watch<'_>, watchdog: Duration) -> Waited {
    let started = Instant::now();
    let metrics = tokio::runtime::Handle::current().metrics();
    let mut stable = 0u32;
    let mut last_seq = u64::MAX;
    loop {
        let unfinished: Vec<usize> = (0..handles.len()).filter(|i| !handles[*i].is_finished()).collect();
        if unfinished.is_empty() {
            return Waited::AllFinished;
        }
        let alive = metrics.num_alive_tasks();
        let seq = w.log.seq.load(Ordering::SeqCst);
        let pool = w.store.pool();
        let idle = pool.num_idle();
        let size = pool.size() as usize;
        // Phase of the transaction each unfinished task is currently in (the last one started).
        let phases: Vec<u8> = unfinished
            .iter()
            .map(|t| {
                w.recs[*t]
                    .lock()
                    .unwrap()
                    .iter()
                    .rev()
                    .map(|r| r.phase.load(Ordering::SeqCst))
                    .find(|p| *p != NOT_STARTED)
                    .unwrap_or(NOT_STARTED)
            })
            .collect();
        let all_in_begin = phases.iter().all(|p| *p == BEGIN_CALLED);
        let state = json!({
            "unfinished_tasks": unfinished, "their_phase": phases.iter().map(|p| phase_name(*p)).collect::<Vec<_>>(),
            "runtime_alive_tasks": alive, "baseline_tasks": w.baseline_tasks,
            "pool_size": size, "pool_idle": idle, "event_seq": seq,
        });
        if all_in_begin && alive <= w.baseline_tasks + unfinished.len() && idle == size && seq == last_seq {
            stable += 1;
            if stable >= 40 {
                return Waited::Wedged(state);
            }
        } else {
            stable = 0;
        }
        last_seq = seq;
        if started.elapsed() > watchdog {
            return Waited::Watchdog(state);
        }
        tokio::time::sleep(Duration::from_millis(if stable > 0 { 25 } else { 2 })).await;
    }
}

// ---------------------------------------------------------------------------------------------
// One round
// ---------------------------------------------------------------------------------------------

struct RoundResult {
    recs: Vec<Arc<TxnRec>>,
    events: Vec<(u64, u64, &'static str)>,
    at_ms: Vec<u64>,
    fresh_retries: u64,
    ended_while_sibling_inside: u64,
    counter: i64,
    rows: BTreeMap<u64, Vec<(i64, i64)>>,
    wedge: Option<(String, Value)>,
    inconclusive: Option<String>,
    cancel_phase_hist: BTreeMap<String, u64>,
    max_pendings: u64,
    enum_js: u64,
    unexpected_errors: Vec<String>,
}

async fn build_store(db: Db, dir: &std::path::Path) -> SqliteStore {
    let store = match db {
        Db::Memory => SqliteStoreBuilder::memory().build().await.expect("memory store"),
        Db::FilePool4 => {
            let url = format!("sqlite://{}", dir.join("c10.sqlite").display());
            SqliteStoreBuilder::new()
                .database_url(&url)
                .min_connections(1)
                .max_connections(4)
                .idle_timeout(None)
                .max_lifetime(None)
                .build()
                .await
                .expect("file store")
        }
    };
    store
        .execute(async |pool| {
            pool.execute("CREATE TABLE vh_counter (id INTEGER PRIMARY KEY, value INTEGER NOT NULL)").await?;
            pool.execute("CREATE TABLE vh_rows (txn INTEGER NOT NULL, k INTEGER NOT NULL, seen INTEGER NOT NULL, PRIMARY KEY (txn, k))").await?;
            pool.execute("INSERT INTO vh_counter (id, value) VALUES (0, 0)").await?;
            Ok(())
        })
        .await
        .expect("harness tables");
    store
}

fn new_rec(spec: &TxnSpec, task: usize) -> Arc<TxnRec> {
    Arc::new(TxnRec {
        id: spec.id,
        task,
        nrows: spec.nrows,
        spec_end: spec.end,
        cancel_after: spec.cancel_after,
        sibling: spec.sibling,
        cancel_me: tokio::sync::Notify::new(),
        phase: AtomicU8::new(NOT_STARTED),
        seen: AtomicI64::new(-1),
        begin_call_seq: AtomicU64::new(0),
        begun_seq: AtomicU64::new(0),
        end_seq: AtomicU64::new(0),
        how: Mutex::new(String::new()),
    })
}

async fn run_round(round: &Round, seed: u64, next_id: &mut u64, dir: &std::path::Path) -> RoundResult {
    let store = build_store(round.db, dir).await;
    let log = Arc::new(Log::default());
    // Let pool housekeeping settle, then take the runtime's task baseline.
    let metrics = tokio::runtime::Handle::current().metrics();
    let mut baseline = metrics.num_alive_tasks();
    for _ in 0..200 {
        tokio::time::sleep(Duration::from_millis(1)).await;
        let b = metrics.num_alive_tasks();
        if b == baseline {
            break;
        }
        baseline = b;
    }

    let mut per_task_recs: Vec<Arc<Mutex<Vec<Arc<TxnRec>>>>> = Vec::new();
    let mut handles: Vec<JoinHandle<()>> = Vec::new();
    let cancel_hist: Arc<Mutex<BTreeMap<String, u64>>> = Arc::default();
    let max_pendings = Arc::new(AtomicU64::new(0));

    for (t, specs) in round.tasks.iter().enumerate() {
        let recs: Vec<Arc<TxnRec>> = specs.iter().map(|s| new_rec(s, t)).collect();
        per_task_recs.push(Arc::new(Mutex::new(recs.clone())));
        let (store, log, specs) = (store.clone(), log.clone(), specs.clone());
        let (hist, maxp) = (cancel_hist.clone(), max_pendings.clone());
        let mut trng = Rng::fork(seed, 1000 + t as u64);
        handles.push(tokio::spawn(async move {
            for (spec, rec) in specs.iter().zip(recs.iter()) {
                match run_txn(&store, spec, rec, &log).await {
                    Some(p) => {
                        maxp.fetch_max(p, Ordering::SeqCst);
                    }
                    None => {
                        if rec.how.lock().unwrap().starts_with("cancelled") {
                            let ph = phase_name(rec.phase.load(Ordering::SeqCst));
                            *hist.lock().unwrap().entry(ph.to_string()).or_insert(0) += 1;
                        }
                    }
                }
                match trng.below(4) {
                    0 => tokio::task::yield_now().await,
                    1 => tokio::time::sleep(Duration::from_micros(trng.below(300))).await,
                    _ => {}
                }
            }
        }));
    }

    // Enumeration task: one body, re-run and cancelled after j = 1, 2, 3, ... Pendings until a run
    // completes without being cancelled.
    let enum_task = round.tasks.len();
    let enum_recs: Arc<Mutex<Vec<Arc<TxnRec>>>> = Arc::default();
    let enum_js = Arc::new(AtomicU64::new(0));
    {
        let (store, log) = (store.clone(), log.clone());
        let (hist, maxp, enum_recs, enum_js) = (cancel_hist.clone(), max_pendings.clone(), enum_recs.clone(), enum_js.clone());
        let (end, via_macro, nrows) = (round.enum_end, round.enum_macro && matches!(round.enum_end, End::Commit | End::Error), round.enum_rows);
        let base = *next_id;
        *next_id += 100;
        handles.push(tokio::spawn(async move {
            let mut uncancelled_in_a_row = 0;
            for j in 1..=90u64 {
                let spec = TxnSpec {
                    id: base + j,
                    nrows,
                    end,
                    via_macro,
                    error_after_rows: nrows,
                    cancel_after: j,
                    yield_mask: 0,
                    sibling: false,
                    cancel_in_sibling: false,
                };
                let rec = new_rec(&spec, enum_task);
                enum_recs.lock().unwrap().push(rec.clone());
                let done = run_txn(&store, &spec, &rec, &log).await;
                enum_js.store(j, Ordering::SeqCst);
                match done {
                    Some(p) => {
                        maxp.fetch_max(p, Ordering::SeqCst);
                        // Pending counts vary with contention: stop only after three runs in a
                        // row completed before reaching their cancellation point.
                        uncancelled_in_a_row += 1;
                        if uncancelled_in_a_row >= 3 {
                            break;
                        }
                    }
                    None => {
                        uncancelled_in_a_row = 0;
                        let ph = phase_name(rec.phase.load(Ordering::SeqCst));
                        *hist.lock().unwrap().entry(ph.to_string()).or_insert(0) += 1;
                    }
                }
            }
        }));
    }
    per_task_recs.push(enum_recs.clone());

    // Task aborts, driven by the coordinator.
    let mut spins = 0u64;
    let mut pending_aborts: Vec<(usize, u64)> = round
        .abort_after
        .iter()
        .enumerate()
        .filter_map(|(t, a)| a.map(|n| (t, n)))
        .collect();
    while !pending_aborts.is_empty() {
        pending_aborts.retain(|(t, n)| {
            if spins >= *n {
                handles[*t].abort();
                false
            } else {
                true
            }
        });
        spins += 1;
        if spins % 8 == 0 {
            tokio::time::sleep(Duration::from_micros(50)).await;
        } else {
            tokio::task::yield_now().await;
        }
    }

    let mut result = RoundResult {
        recs: Vec::new(),
        events: Vec::new(),
        at_ms: Vec::new(),
        fresh_retries: 0,
        ended_while_sibling_inside: 0,
        counter: -1,
        rows: BTreeMap::new(),
        wedge: None,
        inconclusive: None,
        cancel_phase_hist: BTreeMap::new(),
        max_pendings: 0,
        enum_js: 0,
        unexpected_errors: Vec::new(),
    };

    let waited = {
        let w = Watch { store: &store, log: &log, baseline_tasks: baseline, recs: &per_task_recs };
        wait_all(&handles, &w, Duration::from_secs(120)).await
    };
    match waited {
        Waited::AllFinished => {}
        Waited::Wedged(state) => {
            result.wedge = Some(("C10:wedged-begin".into(), json!({"when": "writers still running", "state": state})));
        }
        Waited::Watchdog(state) => {
            result.inconclusive = Some(format!("round watchdog expired without a wedged state: {state}"));
        }
    }
    for h in &handles {
        h.abort();
    }
    // Sibling tasks are bounded (a few milliseconds inside `tx(..)`); let them finish.
    let helpers: Vec<JoinHandle<()>> = log.helpers.lock().unwrap().drain(..).collect();
    for h in helpers {
        if tokio::time::timeout(Duration::from_secs(20), h).await.is_err() {
            result.inconclusive = Some("a sibling task did not leave its tx(..) closure within 20 s".into());
        }
    }
    result.ended_while_sibling_inside = log.ended_while_sibling_inside.load(Ordering::SeqCst);

    // A fresh transaction must be able to start (and run) now. A statement error such as
    // SQLITE_BUSY is an allowed outcome of a single transaction (on a pooled file database the
    // permit of a transaction dropped inside commit() is released while SQLite is still
    // committing on the other connection, for some milliseconds); it is recorded and the fresh
    // transaction is retried. Only a begin() that is wedged by state, a panic, a wiped database or
    // 200 consecutive failures are reported.
    let mut fresh_attempts = 0u64;
    while result.wedge.is_none() && result.inconclusive.is_none() {
        fresh_attempts += 1;
        *next_id += 1;
        let spec = TxnSpec { id: *next_id, nrows: 1, end: End::Commit, via_macro: false, error_after_rows: 0, cancel_after: 0, yield_mask: 0, sibling: false, cancel_in_sibling: false };
        let rec = new_rec(&spec, usize::MAX);
        per_task_recs.push(Arc::new(Mutex::new(vec![rec.clone()])));
        let (s2, l2, r2, sp2) = (store.clone(), log.clone(), rec.clone(), spec.clone());
        let fin = vec![tokio::spawn(async move {
            let _ = run_txn(&s2, &sp2, &r2, &l2).await;
        })];
        let recs = vec![Arc::new(Mutex::new(vec![rec.clone()]))];
        let w = Watch { store: &store, log: &log, baseline_tasks: baseline, recs: &recs };
        match wait_all(&fin, &w, Duration::from_secs(60)).await {
            Waited::AllFinished => {
                let how = rec.how.lock().unwrap().clone();
                if how == "returned-ok" {
                    break;
                }
                let detail = json!({"when": "after all writers ended", "fresh_transaction": how, "attempts": fresh_attempts,
                    "phase": phase_name(rec.phase.load(Ordering::SeqCst))});
                if how.starts_with("panicked") {
                    result.wedge = Some((begin_panic_signature(&how).into(), detail));
                } else if how.contains("no such table: vh_") {
                    result.wedge = Some(("C10:in-memory-database-wiped-by-cancelled-acquire".into(), detail));
                } else if fresh_attempts >= 200 {
                    result.wedge = Some(("C10:fresh-transaction-keeps-failing".into(), detail));
                } else {
                    tokio::time::sleep(Duration::from_millis(20)).await;
                }
            }
            Waited::Wedged(state) => {
                fin[0].abort();
                result.wedge = Some(("C10:wedged-begin".into(), json!({"when": "after all writers ended", "state": state})));
            }
            Waited::Watchdog(state) => {
                fin[0].abort();
                result.inconclusive = Some(format!("final begin() watchdog expired without a wedged state: {state}"));
            }
        }
    }
    result.fresh_retries = fresh_attempts.saturating_sub(1);

    // Dump the committed state through the pool.
    if result.wedge.is_none() && result.inconclusive.is_none() {
        let dump = tokio::time::timeout(Duration::from_secs(40), async {
            let counter: i64 = query_scalar("SELECT value FROM vh_counter WHERE id = 0").fetch_one(store.pool()).await?;
            let rows: Vec<(i64, i64, i64)> = query_as("SELECT txn, k, seen FROM vh_rows ORDER BY txn, k").fetch_all(store.pool()).await?;
            Ok::<_, sqlx::Error>((counter, rows))
        })
        .await;
        match dump {
            Ok(Ok((counter, rows))) => {
                result.counter = counter;
                for (txn, k, seen) in rows {
                    result.rows.entry(txn as u64).or_default().push((k, seen));
                }
            }
            Ok(Err(e)) if e.to_string().contains("no such table: vh_") => {
                result.wedge = Some(("C10:in-memory-database-wiped-by-cancelled-acquire".into(), json!({"when": "final dump", "error": e.to_string()})));
            }
            Ok(Err(e)) => result.inconclusive = Some(format!("final dump failed: {e}")),
            Err(_) => result.inconclusive = Some("final dump timed out".into()),
        }
    }

    let _ = enum_task;
    result.recs = per_task_recs.iter().flat_map(|v| v.lock().unwrap().clone()).collect();
    result.events = log.events.lock().unwrap().clone();
    result.at_ms = log.at_ms.lock().unwrap().clone();
    result.cancel_phase_hist = cancel_hist.lock().unwrap().clone();
    result.max_pendings = max_pendings.load(Ordering::SeqCst);
    result.enum_js = enum_js.load(Ordering::SeqCst);
    for r in &result.recs {
        let how = r.how.lock().unwrap().clone();
        let ph = r.phase.load(Ordering::SeqCst);
        if how.starts_with("returned-err") && ph != ERRORING {
            result.unexpected_errors.push(format!("txn {} in phase {}: {}", r.id, phase_name(ph), how));
        }
    }
    // A transaction left open by the code under test keeps its pool connection checked out, and
    // closing the pool would wait for it forever: only close a healthy store, and bounded.
    if result.wedge.is_none() && result.inconclusive.is_none() {
        let _ = tokio::time::timeout(Duration::from_secs(2), store.pool().close()).await;
    }
    result
}

// ---------------------------------------------------------------------------------------------
// Oracle
// ---------------------------------------------------------------------------------------------

/// A panic inside `begin()` after some transaction was aborted: "never prevent later
/// transactions from starting" is violated. The store's own assertion tells the shape: a
/// transaction object was still sitting in the shared slot although the permit was free, i.e. an
/// aborted (or concurrent) transaction was neither rolled back nor committed before its permit was
/// released.
fn begin_panic_signature(how: &str) -> &'static str {
    if how.contains("already existing transaction") {
        "C10:begin-panicked:stale-transaction-left-in-slot"
    } else {
        "C10:begin-panicked"
    }
}

#[derive(Clone, Copy, Debug, PartialEq, Eq)]
enum Class {
    Committed,
    Aborted,
    /// `commit()` was in flight when the future was dropped / the task aborted, or returned an
    /// error: either outcome is accepted, but all-or-nothing.
    Indeterminate,
    NeverRan,
}

fn classify(r: &TxnRec) -> Class {
    match r.phase.load(Ordering::SeqCst) {
        NOT_STARTED => Class::NeverRan,
        COMMITTED => Class::Committed,
        ENDING_COMMIT | COMMIT_ERR => Class::Indeterminate,
        _ => Class::Aborted,
    }
}

pub fn run(args: &Args) {
    let mut rep = Report::new(
        args,
        "rounds of 2-16 writer tasks x 3-8 transactions on a multi-thread runtime (2-8 workers) \
         against an in-memory (1 connection) or file-backed (pool of 4) SqliteStore; each \
         transaction = begin, read shared counter, 1-4 tagged rows, counter+1, then commit / \
         rollback / failing statement + `?` / explicit permit drop (explicit API or the `tx!` \
         macro); 15 % of futures are dropped after a random j-th Pending, 1-2 tasks per round are \
         aborted, every round contains transactions in which a cooperating clone of the store (own task) \
         is inside a two-statement, yielding `store.tx(..)` closure while the owner commits / rolls back / \
         drops the permit / takes the `?` path (also inside `tx!`) / has its future dropped, and one extra task re-runs one body with cancellation after j = 1, 2, 3, ... \
         Pendings until a run completes. Non-trivial round = >= 1 commit, >= 1 transaction ended by \
         each of rollback / error path / permit drop / future cancellation, and two transactions \
         of different tasks overlapping in time (begin-call of one between begin-call and end of \
         the other); distinct by the hash of the global begin/commit/abort event order.",
        if args.tier == Tier::Quick { 20 } else { 200 },
    );
    let rounds = args.n(60, 2_500);
    let only = args.params.get("case").and_then(|c| c.parse::<u64>().ok());
    // File databases go to tmpfs when available: the workload is about interleavings, not fsync.
    let tmp = if std::path::Path::new("/dev/shm").is_dir() { tempfile::tempdir_in("/dev/shm") } else { tempfile::tempdir() }.expect("tempdir");
    let mut next_id = 0u64;
    let mut totals: BTreeMap<&'static str, u64> = BTreeMap::new();
    let mut cancel_hist: BTreeMap<String, u64> = BTreeMap::new();
    let mut max_pendings = 0u64;
    let mut max_enum_j = 0u64;
    let mut unexpected_errors = 0u64;
    let mut unexpected_error_samples: Vec<String> = Vec::new();
    let mut indeterminate_landed = 0u64;
    let mut indeterminate_vanished = 0u64;

    for i in 0..rounds {
        let mut rng = Rng::fork(args.seed, i);
        let mut round = gen_round(&mut rng, &mut next_id);
        match args.param("db") {
            Some("file") => round.db = Db::FilePool4,
            Some("memory") => round.db = Db::Memory,
            _ => {}
        }
        if let Some(c) = only {
            if c != i {
                continue;
            }
        }
        let dir = tmp.path().join(format!("r{i}"));
        std::fs::create_dir_all(&dir).expect("round dir");
        let rt = tokio::runtime::Builder::new_multi_thread()
            .worker_threads(round.workers)
            .enable_all()
            .build()
            .expect("runtime");
        let res = rt.block_on(run_round(&round, args.seed ^ i.rotate_left(32), &mut next_id, &dir));
        rt.shutdown_timeout(Duration::from_secs(5));
        let _ = std::fs::remove_dir_all(&dir);

        let plan = json!({
            "db": format!("{:?}", round.db), "workers": round.workers,
            "tasks": round.tasks.iter().map(|t| t.iter().map(|s| json!({"id": s.id, "rows": s.nrows, "end": format!("{:?}", s.end),
                "macro": s.via_macro, "cancel_after": s.cancel_after, "sibling_inside_tx": s.sibling, "cancel_while_sibling_inside": s.cancel_in_sibling})).collect::<Vec<_>>()).collect::<Vec<_>>(),
            "abort_task_after_spins": round.abort_after,
            "enumerated_body": json!({"end": format!("{:?}", round.enum_end), "macro": round.enum_macro, "rows": round.enum_rows}),
        });
        let outcomes: Vec<Value> = res
            .recs
            .iter()
            .map(|r| json!({"txn": r.id, "task": r.task, "phase": phase_name(r.phase.load(Ordering::SeqCst)), "seen": r.seen.load(Ordering::SeqCst),
                "how": *r.how.lock().unwrap(), "rows_present": res.rows.get(&r.id).map(|v| v.len()).unwrap_or(0)}))
            .collect();
        let ev_tail: Vec<String> = res.events.iter().zip(res.at_ms.iter()).take(400).map(|((s, t, k), ms)| format!("{s}:{t}:{k}@{ms}ms")).collect();
        let witness = |detail: Value| -> Value {
            json!({"seed": args.seed, "case": i, "replay_args": format!("C10 --seed {} case={}", args.seed, i),
                "plan": plan, "outcomes": outcomes, "final_counter": res.counter, "events": ev_tail, "detail": detail})
        };

        if let Some(why) = &res.inconclusive {
            rep.inconclusive(format!("round {i}: {why}"));
            rep.case(None::<()>);
            continue;
        }
        if let Some((sig, w)) = &res.wedge {
            let what = match sig.as_str() {
                "C10:in-memory-database-wiped-by-cancelled-acquire" => "after the writers ended the in-memory database had lost all tables and every committed transaction: a cancelled begin()/query closed the pool's only connection and the pool opened a fresh, empty database",
                "C10:begin-panicked:stale-transaction-left-in-slot" | "C10:begin-panicked" => "begin() of a fresh transaction panics after earlier transactions were aborted: later transactions can no longer start",
                "C10:wedged-begin" => "an aborted transaction prevents later transactions from starting: begin() is pending while nothing is left in the runtime that could release the permit",
                _ => "after all writers ended, 200 consecutive fresh transactions failed",
            };
            rep.violation(sig, what, witness(w.clone()));
            rep.case(None::<()>);
            continue;
        }

        // ---- ledger ----
        let mut kinds: BTreeSet<&'static str> = BTreeSet::new();
        let mut present: Vec<&Arc<TxnRec>> = Vec::new();
        for r in &res.recs {
            let class = classify(r);
            let how = r.how.lock().unwrap().clone();
            let ph = r.phase.load(Ordering::SeqCst);
            let rows = res.rows.get(&r.id);
            let here = rows.map(|v| !v.is_empty()).unwrap_or(false);
            match class {
                Class::Committed => {
                    kinds.insert("commit");
                    *totals.entry("committed").or_insert(0) += 1;
                    if !here {
                        rep.violation("C10:committed-rows-missing",
                            format!("transaction {} whose commit() returned Ok left no rows", r.id), witness(json!({"txn": r.id})));
                    }
                }
                Class::Aborted => {
                    let kind = if how.starts_with("cancelled") {
                        "cancelled"
                    } else if how.starts_with("panicked") {
                        "panicked"
                    } else if how.is_empty() {
                        "task-aborted"
                    } else {
                        match ph {
                            ROLLED_BACK => "rollback",
                            ERRORING => "error-path",
                            PERMIT_DROPPED => "permit-drop",
                            _ => "other-error",
                        }
                    };
                    kinds.insert(kind);
                    *totals.entry(match kind {
                        "cancelled" => "aborted_by_cancellation",
                        "panicked" => "panicked",
                        "task-aborted" => "aborted_by_task_abort",
                        "rollback" => "rolled_back",
                        "error-path" => "aborted_by_error_path",
                        "permit-drop" => "aborted_by_permit_drop",
                        _ => "aborted_by_unexpected_error",
                    }).or_insert(0) += 1;
                    if here {
                        rep.violation(&format!("C10:aborted-left-trace:{kind}"),
                            format!("transaction {} ended by {kind} (phase {}) but its rows are in the committed state", r.id, phase_name(ph)),
                            witness(json!({"txn": r.id, "rows": rows})));
                    }
                    if how.starts_with("panicked") && ph == BEGIN_CALLED {
                        rep.violation(begin_panic_signature(&how),
                            format!("begin() of transaction {} panicked: {how}", r.id), witness(json!({"txn": r.id})));
                    }
                }
                Class::Indeterminate => {
                    *totals.entry("indeterminate_commit_in_flight").or_insert(0) += 1;
                    if here { indeterminate_landed += 1 } else { indeterminate_vanished += 1 }
                }
                Class::NeverRan => {
                    *totals.entry("never_ran_task_aborted_earlier").or_insert(0) += 1;
                }
            }
            if here {
                let rows = rows.unwrap();
                let seen = r.seen.load(Ordering::SeqCst);
                // Owner rows k = 0..nrows, plus the sibling's two rows (k = 100, 101) when a
                // cooperating clone worked inside this transaction.
                let mut want: Vec<i64> = (0..r.nrows as i64).collect();
                if r.sibling {
                    want.extend([100, 101]);
                }
                let complete = rows.iter().map(|(k, _)| *k).collect::<Vec<_>>() == want && rows.iter().all(|(_, s)| *s == seen);
                if !complete {
                    rep.violation("C10:partial-transaction",
                        format!("transaction {} is only partly in the committed state ({} of {} rows)", r.id, rows.len(), r.nrows + if r.sibling { 2 } else { 0 }),
                        witness(json!({"txn": r.id, "rows": rows, "seen": seen})));
                }
                present.push(r);
            }
        }
        // Rows of ids nobody issued?
        for txn in res.rows.keys() {
            if !res.recs.iter().any(|r| r.id == *txn) && *txn != 0 {
                rep.violation("C10:foreign-rows", format!("rows tagged {txn} belong to no transaction of this round"), witness(json!({"txn": txn})));
            }
        }
        let p = present.len() as i64;
        if res.counter > p {
            rep.violation("C10:aborted-left-trace:counter",
                format!("counter is {} but only {p} transactions are in the committed state: an aborted transaction's increment leaked", res.counter),
                witness(json!({})));
        } else if res.counter < p {
            rep.violation("C10:lost-update",
                format!("counter is {} but {p} transactions are in the committed state: increments were lost (not serialized)", res.counter),
                witness(json!({})));
        }
        let mut seen_vals: Vec<i64> = present.iter().map(|r| r.seen.load(Ordering::SeqCst)).collect();
        seen_vals.sort();
        if seen_vals.iter().enumerate().any(|(k, v)| *v != k as i64) && res.counter == p {
            rep.violation("C10:not-serialized",
                "counter values read by the committed transactions are not a permutation of 0..n: two of them ran on the same snapshot",
                witness(json!({"seen_sorted": seen_vals})));
        }
        // Real-time order: commit returned before the other began => smaller counter value.
        let definite: Vec<&&Arc<TxnRec>> = present.iter().filter(|r| classify(r) == Class::Committed).collect();
        'order: for a in &definite {
            for b in &definite {
                let (ea, bb) = (a.end_seq.load(Ordering::SeqCst), b.begun_seq.load(Ordering::SeqCst));
                if ea != 0 && bb != 0 && ea < bb && a.seen.load(Ordering::SeqCst) >= b.seen.load(Ordering::SeqCst) {
                    rep.violation("C10:commit-order-inverted",
                        format!("transaction {} committed before {} began, yet {} did not see its increment", a.id, b.id, b.id),
                        witness(json!({"first": a.id, "second": b.id})));
                    break 'order;
                }
            }
        }

        // ---- coverage ----
        let mut overlap = false;
        let spans: Vec<(usize, u64, u64)> = res
            .recs
            .iter()
            .filter_map(|r| {
                let (b, e) = (r.begin_call_seq.load(Ordering::SeqCst), r.end_seq.load(Ordering::SeqCst));
                (b != 0 && e != 0).then_some((r.task, b, e))
            })
            .collect();
        'ov: for (ta, ba, ea) in &spans {
            for (tb, bb, _) in &spans {
                if ta != tb && ba < bb && bb < ea {
                    overlap = true;
                    break 'ov;
                }
            }
        }
        let all_kinds = ["commit", "rollback", "error-path", "permit-drop", "cancelled"].iter().all(|k| kinds.contains(k));
        let order: Vec<(u64, &str)> = {
            // txn ids are global; use the index within the round so that equal interleavings of
            // different rounds compare equal.
            let base = res.recs.iter().map(|r| r.id).min().unwrap_or(0);
            res.events.iter().map(|(_, t, k)| (t - base.min(*t), *k)).collect()
        };
        rep.case(if all_kinds && overlap { Some(hash_of(&order)) } else { None });
        rep.bump("transactions", res.recs.len() as u64);
        rep.bump("transactions_with_a_sibling_inside_tx_closure", res.recs.iter().filter(|r| r.sibling && r.phase.load(Ordering::SeqCst) != NOT_STARTED).count() as u64);
        rep.bump("owner_ended_while_sibling_was_inside_tx_closure", res.ended_while_sibling_inside);
        rep.bump("fresh_transaction_retries_after_statement_errors_recorded_not_judged", res.fresh_retries);
        rep.bump("events", res.events.len() as u64);
        if overlap {
            rep.bump("rounds_with_overlapping_transactions", 1);
        }
        for (k, v) in &res.cancel_phase_hist {
            *cancel_hist.entry(k.clone()).or_insert(0) += v;
        }
        max_pendings = max_pendings.max(res.max_pendings);
        max_enum_j = max_enum_j.max(res.enum_js);
        unexpected_errors += res.unexpected_errors.len() as u64;
        for e in res.unexpected_errors.iter().take(2) {
            if unexpected_error_samples.len() < 6 {
                unexpected_error_samples.push(format!("round {i}: {e}"));
            }
        }
        if rep.want_sample() && i % 11 == 0 {
            rep.sample(json!({"round": i, "db": format!("{:?}", round.db), "tasks": round.tasks.len(), "transactions": res.recs.len(),
                "final_counter": res.counter, "kinds": kinds, "cancelled_in_phase": res.cancel_phase_hist,
                "enumerated_cancel_points_j": res.enum_js, "first_events": ev_tail.iter().take(40).collect::<Vec<_>>()}));
        }
    }
    rep.extra("outcomes", json!(totals));
    rep.extra("cancelled_while_in_phase", json!(cancel_hist));
    rep.extra("max_pendings_of_a_completed_transaction", json!(max_pendings));
    rep.extra("max_enumerated_cancel_point_j", json!(max_enum_j));
    rep.extra("indeterminate_commits_that_landed", json!(indeterminate_landed));
    rep.extra("indeterminate_commits_that_vanished", json!(indeterminate_vanished));
    rep.extra("unexpected_statement_errors_recorded_not_judged", json!(unexpected_errors));
    rep.extra("unexpected_error_samples", json!(unexpected_error_samples));
    rep.finish(args);
}
