//! Shared plumbing of the verification harnesses: seeded PRNG, CLI, and the result record every
//! harness writes for the `/verif/check` driver.
//!
//! A harness never decides exit codes or prints VIOLATION lines itself: it records what it
//! observed (cases, distinct non-trivial cases, violations with a structural signature,
//! inconclusive notes) and the driver classifies (known finding / violation / inconclusive).

use std::collections::hash_map::DefaultHasher;
use std::collections::{BTreeMap, HashSet};
use std::hash::{Hash, Hasher};
use std::time::{Duration, Instant};

use serde::Serialize;
pub use serde_json::{Value, json};

// ---------------------------------------------------------------------------------------------
// PRNG: splitmix64-seeded xoshiro256**. Own implementation so that nothing under test is shared
// with the generator and replays are stable across dependency versions.
// ---------------------------------------------------------------------------------------------

#[derive(Clone, Debug)]
pub struct Rng {
    s: [u64; 4],
}

fn splitmix(x: &mut u64) -> u64 {
    *x = x.wrapping_add(0x9E37_79B9_7F4A_7C15);
    let mut z = *x;
    z = (z ^ (z >> 30)).wrapping_mul(0xBF58_476D_1CE4_E5B9);
    z = (z ^ (z >> 27)).wrapping_mul(0x94D0_49BB_1331_11EB);
    z ^ (z >> 31)
}

impl Rng {
    pub fn new(seed: u64) -> Self {
        let mut x = seed;
        let s = [
            splitmix(&mut x),
            splitmix(&mut x),
            splitmix(&mut x),
            splitmix(&mut x),
        ];
        Rng { s }
    }

    /// Derive an independent generator for case `n` (so that case n can be replayed alone).
    pub fn fork(seed: u64, n: u64) -> Self {
        Rng::new(seed ^ n.wrapping_mul(0xA24B_AED4_963E_E407).rotate_left(17) ^ 0x5851_F42D_4C95_7F2D)
    }

    pub fn next_u64(&mut self) -> u64 {
        let result = self.s[1].wrapping_mul(5).rotate_left(7).wrapping_mul(9);
        let t = self.s[1] << 17;
        self.s[2] ^= self.s[0];
        self.s[3] ^= self.s[1];
        self.s[1] ^= self.s[2];
        self.s[0] ^= self.s[3];
        self.s[2] ^= t;
        self.s[3] = self.s[3].rotate_left(45);
        result
    }

    pub fn next_u32(&mut self) -> u32 {
        (self.next_u64() >> 32) as u32
    }

    /// Uniform in `0..n` (n > 0).
    pub fn below(&mut self, n: u64) -> u64 {
        assert!(n > 0);
        // Multiply-shift; bias is irrelevant for workload generation.
        ((self.next_u64() as u128 * n as u128) >> 64) as u64
    }

    pub fn usize_below(&mut self, n: usize) -> usize {
        self.below(n as u64) as usize
    }

    /// Uniform in `lo..=hi`.
    pub fn range(&mut self, lo: u64, hi: u64) -> u64 {
        assert!(lo <= hi);
        if lo == 0 && hi == u64::MAX {
            return self.next_u64();
        }
        lo + self.below(hi - lo + 1)
    }

    /// Random magnitude: uniform below 2^k for a uniform k in `0..bits`.
    pub fn mag(&mut self, bits: u64) -> u64 {
        let b = self.below(bits);
        self.below(1u64 << b)
    }

    pub fn chance(&mut self, p: f64) -> bool {
        (self.next_u64() >> 11) as f64 / ((1u64 << 53) as f64) < p
    }

    pub fn bool(&mut self) -> bool {
        self.next_u64() & 1 == 1
    }

    pub fn pick<'a, T>(&mut self, xs: &'a [T]) -> &'a T {
        &xs[self.usize_below(xs.len())]
    }

    pub fn shuffle<T>(&mut self, xs: &mut [T]) {
        for i in (1..xs.len()).rev() {
            let j = self.usize_below(i + 1);
            xs.swap(i, j);
        }
    }

    pub fn bytes(&mut self, n: usize) -> Vec<u8> {
        let mut v = Vec::with_capacity(n);
        while v.len() < n {
            let x = self.next_u64().to_le_bytes();
            let take = (n - v.len()).min(8);
            v.extend_from_slice(&x[..take]);
        }
        v
    }

    pub fn array32(&mut self) -> [u8; 32] {
        let mut a = [0u8; 32];
        a.copy_from_slice(&self.bytes(32));
        a
    }
}

/// All permutations of `0..n` (Heap's algorithm), for exhaustive small delivery orders.
pub fn permutations(n: usize) -> Vec<Vec<usize>> {
    let mut out = Vec::new();
    let mut a: Vec<usize> = (0..n).collect();
    let mut c = vec![0usize; n];
    out.push(a.clone());
    let mut i = 0;
    while i < n {
        if c[i] < i {
            if i % 2 == 0 {
                a.swap(0, i);
            } else {
                a.swap(c[i], i);
            }
            out.push(a.clone());
            c[i] += 1;
            i = 0;
        } else {
            c[i] = 0;
            i += 1;
        }
    }
    out
}

pub fn hash_of<T: Hash>(t: &T) -> u64 {
    let mut h = DefaultHasher::new();
    t.hash(&mut h);
    h.finish()
}

pub fn hex(bytes: &[u8]) -> String {
    let mut s = String::with_capacity(bytes.len() * 2);
    for b in bytes {
        s.push_str(&format!("{b:02x}"));
    }
    s
}

// ---------------------------------------------------------------------------------------------
// CLI
// ---------------------------------------------------------------------------------------------

#[derive(Clone, Debug)]
pub struct Args {
    pub prop: String,
    pub tier: Tier,
    pub seed: u64,
    pub out: Option<String>,
    /// Scale factor for case counts (driver uses it for Miri / valgrind shards).
    pub scale: f64,
    /// Free-form `key=value` parameters.
    pub params: BTreeMap<String, String>,
}

#[derive(Clone, Copy, Debug, PartialEq, Eq)]
pub enum Tier {
    Quick,
    Thorough,
}

impl Args {
    /// `<bin> <PROP> [--tier quick|thorough] [--seed N] [--out path] [--scale f] [k=v ...]`
    pub fn parse() -> Args {
        let mut it = std::env::args().skip(1);
        let mut a = Args {
            prop: String::new(),
            tier: Tier::Quick,
            seed: 1,
            out: None,
            scale: 1.0,
            params: BTreeMap::new(),
        };
        while let Some(x) = it.next() {
            match x.as_str() {
                "--tier" => {
                    a.tier = match it.next().as_deref() {
                        Some("thorough") => Tier::Thorough,
                        _ => Tier::Quick,
                    }
                }
                "--seed" => a.seed = it.next().and_then(|s| s.parse().ok()).unwrap_or(1),
                "--out" => a.out = it.next(),
                "--scale" => a.scale = it.next().and_then(|s| s.parse().ok()).unwrap_or(1.0),
                s if s.contains('=') => {
                    let (k, v) = s.split_once('=').unwrap();
                    a.params.insert(k.to_string(), v.to_string());
                }
                s if a.prop.is_empty() => a.prop = s.to_string(),
                s => panic!("unexpected argument {s}"),
            }
        }
        if a.prop.is_empty() {
            panic!("usage: <bin> <PROP> [--tier quick|thorough] [--seed N] [--out path]");
        }
        a
    }

    /// Number of cases for this tier, scaled.
    pub fn n(&self, quick: u64, thorough: u64) -> u64 {
        let base = match self.tier {
            Tier::Quick => quick,
            Tier::Thorough => thorough,
        };
        ((base as f64 * self.scale).ceil() as u64).max(1)
    }

    pub fn param_u64(&self, k: &str, default: u64) -> u64 {
        self.params.get(k).and_then(|v| v.parse().ok()).unwrap_or(default)
    }

    pub fn param(&self, k: &str) -> Option<&str> {
        self.params.get(k).map(|s| s.as_str())
    }
}

// ---------------------------------------------------------------------------------------------
// Result record
// ---------------------------------------------------------------------------------------------

#[derive(Clone, Debug, Serialize)]
pub struct Violation {
    /// Structural signature: what kind of failure this is, stable across seeds. The driver
    /// matches it against `/verif/known_findings.json`.
    pub signature: String,
    /// One-line human explanation.
    pub what: String,
    /// Everything needed to replay: seed, case number, inputs, trace.
    pub witness: Value,
}

#[derive(Debug, Serialize)]
pub struct Report {
    pub property_id: String,
    pub seed: u64,
    pub evaluations: u64,
    pub distinct_nontrivial: u64,
    pub rule: String,
    pub samples: Vec<Value>,
    pub violations: Vec<Violation>,
    /// Number of violating cases per signature (violations keeps only the first few witnesses).
    pub violation_counts: BTreeMap<String, u64>,
    pub inconclusive: Vec<String>,
    /// Minimum number of distinct non-trivial cases below which the run is inconclusive.
    pub min_nontrivial: u64,
    pub exhaustive: bool,
    pub extra: BTreeMap<String, Value>,
    pub wall_s: f64,
    #[serde(skip)]
    distinct: HashSet<u64>,
    #[serde(skip)]
    started: Instant,
    #[serde(skip)]
    max_samples: usize,
    #[serde(skip)]
    max_witnesses_per_sig: usize,
}

impl Report {
    pub fn new(args: &Args, rule: &str, min_nontrivial: u64) -> Report {
        Report {
            property_id: args.prop.clone(),
            seed: args.seed,
            evaluations: 0,
            distinct_nontrivial: 0,
            rule: rule.to_string(),
            samples: Vec::new(),
            violations: Vec::new(),
            violation_counts: BTreeMap::new(),
            inconclusive: Vec::new(),
            min_nontrivial,
            exhaustive: false,
            extra: BTreeMap::new(),
            wall_s: 0.0,
            distinct: HashSet::new(),
            started: Instant::now(),
            max_samples: 4,
            max_witnesses_per_sig: 3,
        }
    }

    /// Count one evaluated case. `nontrivial_key` is `Some(key)` when the case is non-trivial by
    /// the property's rule; distinctness is decided on the key's hash.
    pub fn case<K: Hash>(&mut self, nontrivial_key: Option<K>) {
        self.evaluations += 1;
        if let Some(k) = nontrivial_key {
            if self.distinct.insert(hash_of(&k)) {
                self.distinct_nontrivial += 1;
            }
        }
    }

    /// Count additional evaluations without touching distinctness (e.g. oracle comparisons).
    pub fn add_evaluations(&mut self, n: u64) {
        self.evaluations += n;
    }

    pub fn want_sample(&self) -> bool {
        self.samples.len() < self.max_samples
    }

    pub fn sample(&mut self, v: Value) {
        if self.samples.len() < self.max_samples {
            self.samples.push(v);
        }
    }

    pub fn violation(&mut self, signature: &str, what: impl Into<String>, witness: Value) {
        let c = self.violation_counts.entry(signature.to_string()).or_insert(0);
        *c += 1;
        if (*c as usize) <= self.max_witnesses_per_sig {
            self.violations.push(Violation {
                signature: signature.to_string(),
                what: what.into(),
                witness,
            });
        }
    }

    pub fn inconclusive(&mut self, why: impl Into<String>) {
        let w = why.into();
        if self.inconclusive.len() < 20 && !self.inconclusive.contains(&w) {
            self.inconclusive.push(w);
        }
    }

    pub fn extra(&mut self, k: &str, v: Value) {
        self.extra.insert(k.to_string(), v);
    }

    pub fn bump(&mut self, k: &str, by: u64) {
        let e = self.extra.entry(k.to_string()).or_insert(json!(0u64));
        let cur = e.as_u64().unwrap_or(0);
        *e = json!(cur + by);
    }

    pub fn elapsed(&self) -> Duration {
        self.started.elapsed()
    }

    /// Write the record to `--out` (or stdout) and return. Never sets an exit code other than 0:
    /// the driver decides.
    pub fn finish(mut self, args: &Args) {
        self.wall_s = self.started.elapsed().as_secs_f64();
        if self.distinct_nontrivial < self.min_nontrivial {
            let msg = format!(
                "only {} distinct non-trivial cases observed (minimum {})",
                self.distinct_nontrivial, self.min_nontrivial
            );
            self.inconclusive(msg);
        }
        let s = serde_json::to_string_pretty(&self).expect("serialise report");
        match &args.out {
            Some(p) => std::fs::write(p, s).expect("write report"),
            None => println!("{s}"),
        }
    }
}

/// Run `f`, turning a panic into `Err(message)`.
pub fn catch<T>(f: impl FnOnce() -> T + std::panic::UnwindSafe) -> Result<T, String> {
    std::panic::catch_unwind(f).map_err(|e| {
        if let Some(s) = e.downcast_ref::<&str>() {
            s.to_string()
        } else if let Some(s) = e.downcast_ref::<String>() {
            s.clone()
        } else {
            "panic (non-string payload)".to_string()
        }
    })
}

/// Silence the default panic hook (harnesses that use `catch` deliberately provoke panics).
pub fn quiet_panics() {
    std::panic::set_hook(Box::new(|_| {}));
}
