//! C25 — the topic handshake hands the initiator's topic to the acceptor, or fails cleanly.
//!
//! Two arrangements, both driving the real `TopicHandshakeInitiator::run` /
//! `TopicHandshakeAcceptor::run` by manual polling (no runtime: nothing in the transport ever
//! blocks, so a `Pending` that nobody will wake is a hang, decided on state):
//!
//! * **solo** — one real role against a scripted peer: the well-formed incoming transcript, every
//!   truncation of it, every substitution by the other message kind, a decode error and a
//!   duplication at every position, a sink failing at each of its `poll_ready` / `start_send` /
//!   `poll_flush` calls (one-off and broken-connection), a closed event channel.
//! * **duo** — both real roles connected by a CBOR-framed in-memory connection owned by the
//!   harness which cuts the connection at, replaces, duplicates or garbles message k (k = 0,1,2 of
//!   the 3-message transcript); when one role returns the connection is torn down, as a transport
//!   would do. Both polling orders.
//!
//! Oracle (from the statement): clean ⇒ both `Ok` and acceptor output == initiator topic; a role
//! that *consumed* a deviation (wrong kind, undecodable frame, closed stream before its part of
//! the transcript was complete) or was handed a sink error ⇒ that role returns `Err`; an acceptor
//! that returns `Ok(t)` always has t == the topic the initiator sent; no role is `Pending` once
//! nothing can wake it any more. A role that never sees the fault (e.g. a trailing duplicate it
//! does not read) may return `Ok`. Error variants and emitted events are recorded, not judged.

use std::collections::{BTreeMap, VecDeque};
use std::fmt::Debug;
use std::future::Future;
use std::panic::{AssertUnwindSafe, catch_unwind};
use std::pin::Pin;
use std::sync::atomic::{AtomicUsize, Ordering};
use std::sync::{Arc, Mutex};
use std::task::{Context, Poll, Wake, Waker};

use futures_channel::mpsc;
use futures_util::{Sink, Stream};
use p2panda_core::Topic;
use p2panda_core::cbor::{decode_cbor, encode_cbor};
use p2panda_sync::protocols::{
    TopicHandshakeAcceptor, TopicHandshakeEvent, TopicHandshakeInitiator, TopicHandshakeMessage,
};
use p2panda_sync::traits::Protocol;
use serde::de::DeserializeOwned;
use serde::{Deserialize, Serialize};
use vh_common::{Args, Report, Rng, Value, hash_of, json};

use crate::io::{FaultSink, Item, ScriptStream, SinkFault, SinkOp};

// ------------------------------------------------------------------------------------------
// Topic types
// ------------------------------------------------------------------------------------------

trait TopicGen:
    Clone + Debug + PartialEq + Serialize + DeserializeOwned + Send + Sync + 'static
{
    const NAME: &'static str;
    fn generate(rng: &mut Rng) -> Self;
    fn digest(&self) -> u64 {
        hash_of(&format!("{self:?}"))
    }
}

/// An application-defined topic with awkward values (empty / long / non-ASCII strings, byte
/// blobs, nested options).
#[derive(Clone, Debug, PartialEq, Serialize, Deserialize)]
struct RichTopic {
    id: u64,
    name: String,
    blob: Vec<u8>,
    flag: Option<bool>,
    path: Vec<String>,
}

impl TopicGen for RichTopic {
    const NAME: &'static str = "RichTopic";
    fn generate(rng: &mut Rng) -> Self {
        let name = match rng.below(5) {
            0 => String::new(),
            1 => "Done".to_string(),
            2 => "Topic".to_string(),
            3 => "ünïcödé-🐼-話題".repeat(rng.usize_below(4) + 1),
            _ => {
                let n = rng.mag(10) as usize;
                rng.bytes(n).iter().map(|b| (b'a' + b % 26) as char).collect()
            }
        };
        let blob_len = rng.mag(13) as usize;
        RichTopic {
            id: match rng.below(4) {
                0 => 0,
                1 => u64::MAX,
                _ => rng.next_u64(),
            },
            name,
            blob: rng.bytes(blob_len),
            flag: match rng.below(3) {
                0 => None,
                1 => Some(false),
                _ => Some(true),
            },
            path: (0..rng.usize_below(4))
                .map(|i| format!("seg{i}-{}", rng.below(1000)))
                .collect(),
        }
    }
}

impl TopicGen for Topic {
    const NAME: &'static str = "p2panda_core::Topic";
    fn generate(rng: &mut Rng) -> Self {
        match rng.below(8) {
            0 => Topic::from([0u8; 32]),
            1 => Topic::from([0xffu8; 32]),
            _ => Topic::from(rng.array32()),
        }
    }
}

/// The smallest possible topic type.
impl TopicGen for u8 {
    const NAME: &'static str = "u8";
    fn generate(rng: &mut Rng) -> Self {
        rng.next_u64() as u8
    }
}

type HMsg<T> = TopicHandshakeMessage<T>;
type HEvt<T> = TopicHandshakeEvent<T>;

#[derive(Clone, Copy, Debug, PartialEq, Eq, Hash, Serialize)]
enum Role {
    Initiator,
    Acceptor,
}

// ------------------------------------------------------------------------------------------
// Manual polling
// ------------------------------------------------------------------------------------------

struct CountWake(AtomicUsize);

impl Wake for CountWake {
    fn wake(self: Arc<Self>) {
        self.0.fetch_add(1, Ordering::SeqCst);
    }
    fn wake_by_ref(self: &Arc<Self>) {
        self.0.fetch_add(1, Ordering::SeqCst);
    }
}

#[derive(Debug, Clone, Serialize)]
enum End<T> {
    /// `Ok`; `Some(topic)` for the acceptor.
    Ok(Option<T>),
    Err(String),
    Panic(String),
    /// Pending and no wake-up outstanding: nothing can make it progress any more.
    Hung,
}

impl<T> End<T> {
    fn tag(&self) -> &'static str {
        match self {
            End::Ok(_) => "ok",
            End::Err(_) => "err",
            End::Panic(_) => "panic",
            End::Hung => "hung",
        }
    }
}

type RoleFut<T> = Pin<Box<dyn Future<Output = Result<Option<T>, String>>>>;

fn poll_once<T>(fut: &mut RoleFut<T>, cx: &mut Context<'_>) -> Poll<End<T>> {
    match catch_unwind(AssertUnwindSafe(|| fut.as_mut().poll(cx))) {
        Ok(Poll::Ready(Ok(t))) => Poll::Ready(End::Ok(t)),
        Ok(Poll::Ready(Err(e))) => Poll::Ready(End::Err(e)),
        Ok(Poll::Pending) => Poll::Pending,
        Err(p) => {
            let text = p
                .downcast_ref::<String>()
                .cloned()
                .or_else(|| p.downcast_ref::<&str>().map(|s| s.to_string()))
                .unwrap_or_else(|| "non-string panic".into());
            Poll::Ready(End::Panic(text))
        }
    }
}

fn role_future<T, Si, St, SiE, StE>(
    role: Role,
    topic: T,
    event_tx: mpsc::Sender<HEvt<T>>,
    sink: Si,
    stream: St,
) -> RoleFut<T>
where
    T: TopicGen,
    Si: Sink<HMsg<T>, Error = SiE> + Unpin + 'static,
    St: Stream<Item = Result<HMsg<T>, StE>> + Unpin + 'static,
    SiE: Debug + 'static,
    StE: Debug + 'static,
{
    match role {
        Role::Initiator => Box::pin(async move {
            let mut sink = sink;
            let mut stream = stream;
            TopicHandshakeInitiator::<T, HEvt<T>>::new(topic, event_tx)
                .run(&mut sink, &mut stream)
                .await
                .map(|()| None)
                .map_err(|e| variant_of(&format!("{e:?}")))
        }),
        Role::Acceptor => Box::pin(async move {
            let mut sink = sink;
            let mut stream = stream;
            TopicHandshakeAcceptor::<T, HEvt<T>>::new(event_tx)
                .run(&mut sink, &mut stream)
                .await
                .map(Some)
                .map_err(|e| variant_of(&format!("{e:?}")))
        }),
    }
}

/// Keep only the error variant name (topics can be kilobytes long).
fn variant_of(debug: &str) -> String {
    debug
        .split(|c: char| c == '(' || c == ' ' || c == '{')
        .next()
        .unwrap_or("")
        .to_string()
}

// ------------------------------------------------------------------------------------------
// Solo: one real role against a scripted peer
// ------------------------------------------------------------------------------------------

#[derive(Clone, Copy, Debug, PartialEq, Eq, Hash, Serialize)]
enum SFault {
    Clean,
    Truncate(usize),
    SubstKind(usize),
    DecodeErr(usize),
    Dup(usize),
}

#[derive(Clone, Copy, Debug, PartialEq, Eq, Hash, Serialize)]
struct SoloCase {
    role: Role,
    stream: SFault,
    sink: Option<SinkFault>,
    evt_closed: bool,
}

fn kind<T>(m: &HMsg<T>) -> &'static str {
    match m {
        HMsg::Topic(_) => "Topic",
        HMsg::Done => "Done",
    }
}

struct SoloOut<T> {
    end: End<T>,
    polls: usize,
    consumed: usize,
    saw_close: bool,
    sink_failures: Vec<(SinkOp, usize)>,
    sink_counts: [usize; 3],
    sent: Vec<&'static str>,
    delivered: Vec<&'static str>,
    events: usize,
}

fn solo_incoming<T: TopicGen>(role: Role, topic: &T, other: &T, f: SFault) -> Vec<Item<HMsg<T>>> {
    let honest: Vec<HMsg<T>> = match role {
        Role::Acceptor => vec![HMsg::Topic(topic.clone()), HMsg::Done],
        Role::Initiator => vec![HMsg::Done],
    };
    let mut items: Vec<Item<HMsg<T>>> = honest.into_iter().map(Item::Msg).collect();
    match f {
        SFault::Clean => {}
        SFault::Truncate(p) => items.truncate(p),
        SFault::SubstKind(i) => {
            items[i] = match &items[i] {
                Item::Msg(HMsg::Topic(_)) => Item::Msg(HMsg::Done),
                _ => Item::Msg(HMsg::Topic(other.clone())),
            }
        }
        SFault::DecodeErr(i) => items[i] = Item::DecodeErr,
        SFault::Dup(i) => {
            let c = items[i].clone();
            items.insert(i + 1, c);
        }
    }
    items
}

fn run_solo<T: TopicGen>(topic: &T, other: &T, case: SoloCase) -> SoloOut<T> {
    let items = solo_incoming(case.role, topic, other, case.stream);
    let delivered: Vec<&'static str> = items
        .iter()
        .map(|i| match i {
            Item::Msg(m) => kind(m),
            Item::DecodeErr => "DecodeErr",
        })
        .collect();
    let stream = ScriptStream::new(items);
    let sstat = stream.stat.clone();
    let sink = FaultSink::<HMsg<T>>::new(case.sink);
    let kstat = sink.stat.clone();
    let (event_tx, mut event_rx) = mpsc::channel::<HEvt<T>>(64);
    if case.evt_closed {
        event_rx.close();
    }

    let mut fut = role_future(case.role, topic.clone(), event_tx, sink, stream);
    let wake = Arc::new(CountWake(AtomicUsize::new(0)));
    let waker = Waker::from(wake.clone());
    let mut cx = Context::from_waker(&waker);
    let mut polls = 0;
    let end = loop {
        let before = wake.0.load(Ordering::SeqCst);
        polls += 1;
        match poll_once(&mut fut, &mut cx) {
            Poll::Ready(e) => break e,
            Poll::Pending => {
                if wake.0.load(Ordering::SeqCst) == before || polls > 10_000 {
                    break End::Hung;
                }
            }
        }
    };
    drop(fut);

    let mut events = 0;
    while event_rx.try_recv().is_ok() {
        events += 1;
    }
    let s = sstat.lock().unwrap().clone();
    let k = kstat.lock().unwrap();
    SoloOut {
        end,
        polls,
        consumed: s.yielded,
        saw_close: s.ended,
        sink_failures: k.failed_at.clone(),
        sink_counts: [k.ready, k.start_send, k.flush],
        sent: k.sent.iter().map(kind).collect(),
        delivered,
        events,
    }
}

struct Verdict {
    nontrivial: bool,
    violations: Vec<(String, String)>,
}

fn judge_solo<T: TopicGen>(topic: &T, case: SoloCase, out: &SoloOut<T>) -> Verdict {
    let honest_len = match case.role {
        Role::Acceptor => 2,
        Role::Initiator => 1,
    };
    // Did the role consume a deviation?
    let stream_dev = match case.stream {
        SFault::Clean => false,
        SFault::Truncate(p) => p < honest_len && out.saw_close && out.consumed == p,
        SFault::SubstKind(i) | SFault::DecodeErr(i) => out.consumed > i,
        // the duplicate sits at i+1; it is a deviation only if that position is part of what the
        // role reads
        SFault::Dup(i) => i + 1 < honest_len && out.consumed > i + 1,
    };
    let sink_dev = !out.sink_failures.is_empty();
    let fault_injected = case.stream != SFault::Clean || case.sink.is_some() || case.evt_closed;
    let r = format!("{:?}", case.role).to_lowercase();
    let mut v = Vec::new();

    match &out.end {
        End::Hung => v.push((
            format!("C25:{r}:pending-at-quiescence"),
            format!(
                "{:?} is Pending although every input it could wait for is exhausted/closed and \
                 no wake-up is outstanding",
                case.role
            ),
        )),
        End::Panic(p) => v.push((
            format!("C25:{r}:panic"),
            format!("{:?} panicked instead of returning: {p}", case.role),
        )),
        End::Ok(o) => {
            if let Some(t) = o {
                if t != topic {
                    v.push((
                        "C25:acceptor:wrong-topic".into(),
                        "acceptor returned Ok with a topic that is not the one sent to it".into(),
                    ));
                }
            }
            if stream_dev {
                let class = match case.stream {
                    SFault::Truncate(_) => "closed-stream",
                    SFault::SubstKind(_) => "wrong-message-kind",
                    SFault::DecodeErr(_) => "decode-error",
                    SFault::Dup(_) => "duplicated-message",
                    SFault::Clean => unreachable!(),
                };
                v.push((
                    format!("C25:{r}:ok-despite-{class}"),
                    format!(
                        "{:?} returned Ok although it consumed a deviating transcript ({:?})",
                        case.role, case.stream
                    ),
                ));
            } else if sink_dev {
                v.push((
                    format!("C25:{r}:ok-despite-sink-error"),
                    format!(
                        "{:?} returned Ok although its sink reported an error ({:?})",
                        case.role, out.sink_failures
                    ),
                ));
            }
        }
        End::Err(e) => {
            // "both complete": a role that saw nothing but the well-formed transcript and a
            // working sink (clean run, or a fault placed where the role never gets to) returns Ok.
            if !(stream_dev || sink_dev || case.evt_closed) {
                v.push((
                    format!("C25:{r}:err-on-wellformed-run"),
                    format!(
                        "{:?} returned Err({e}) although everything it consumed was well-formed \
                         and its sink never failed",
                        case.role
                    ),
                ));
            }
        }
    }
    // non-trivial: clean run, or the injected fault was reached
    let nontrivial = !fault_injected || stream_dev || sink_dev || case.evt_closed;
    Verdict {
        nontrivial,
        violations: v,
    }
}

// ------------------------------------------------------------------------------------------
// Duo: both real roles over a harness-owned connection
// ------------------------------------------------------------------------------------------

#[derive(Default)]
struct PipeState {
    q: VecDeque<Vec<u8>>,
    closed: bool,
    waker: Option<Waker>,
}

#[derive(Clone, Default)]
struct Pipe(Arc<Mutex<PipeState>>);

impl Pipe {
    fn close(&self) {
        let mut s = self.0.lock().unwrap();
        s.closed = true;
        if let Some(w) = s.waker.take() {
            w.wake();
        }
    }
    fn push(&self, frame: Vec<u8>) {
        let mut s = self.0.lock().unwrap();
        s.q.push_back(frame);
        if let Some(w) = s.waker.take() {
            w.wake();
        }
    }
}

#[derive(Clone, Copy, Debug, PartialEq, Eq, Hash, Serialize)]
enum DFault {
    /// The connection is cut instead of delivering the message.
    Cut,
    /// The message is replaced by one of the other kind.
    SubstKind,
    Dup,
    /// The frame is replaced by bytes that do not decode.
    Garbage,
}

struct PipeSink<T> {
    fwd: Pipe,
    rev: Pipe,
    /// (index of the message in this direction, fault, replacement topic)
    fault: Option<(usize, DFault)>,
    other: T,
    count: usize,
    log: Arc<Mutex<Vec<String>>>,
    name: &'static str,
}

#[derive(Debug)]
#[allow(dead_code)]
struct ConnClosed;

impl<T> Unpin for PipeSink<T> {}

impl<T: TopicGen> Sink<HMsg<T>> for PipeSink<T> {
    type Error = ConnClosed;

    fn poll_ready(self: Pin<&mut Self>, _: &mut Context<'_>) -> Poll<Result<(), ConnClosed>> {
        if self.fwd.0.lock().unwrap().closed {
            return Poll::Ready(Err(ConnClosed));
        }
        Poll::Ready(Ok(()))
    }

    fn start_send(mut self: Pin<&mut Self>, item: HMsg<T>) -> Result<(), ConnClosed> {
        if self.fwd.0.lock().unwrap().closed {
            return Err(ConnClosed);
        }
        let n = self.count;
        self.count += 1;
        let fault = match self.fault {
            Some((i, f)) if i == n => Some(f),
            _ => None,
        };
        let frame = encode_cbor(&item).expect("encode");
        self.log
            .lock()
            .unwrap()
            .push(format!("{}#{n}:{}{}", self.name, kind(&item), match fault {
                Some(f) => format!("!{f:?}"),
                None => String::new(),
            }));
        match fault {
            None => self.fwd.push(frame),
            Some(DFault::Cut) => {
                self.fwd.close();
                self.rev.close();
            }
            Some(DFault::SubstKind) => {
                let repl: HMsg<T> = match item {
                    HMsg::Topic(_) => HMsg::Done,
                    HMsg::Done => HMsg::Topic(self.other.clone()),
                };
                self.fwd.push(encode_cbor(&repl).expect("encode"));
            }
            Some(DFault::Dup) => {
                self.fwd.push(frame.clone());
                self.fwd.push(frame);
            }
            Some(DFault::Garbage) => self.fwd.push(vec![0xff]),
        }
        Ok(())
    }

    fn poll_flush(self: Pin<&mut Self>, _: &mut Context<'_>) -> Poll<Result<(), ConnClosed>> {
        Poll::Ready(Ok(()))
    }

    fn poll_close(self: Pin<&mut Self>, _: &mut Context<'_>) -> Poll<Result<(), ConnClosed>> {
        self.fwd.close();
        Poll::Ready(Ok(()))
    }
}

struct PipeStream<T> {
    pipe: Pipe,
    consumed: Arc<AtomicUsize>,
    _t: std::marker::PhantomData<T>,
}

impl<T> Unpin for PipeStream<T> {}

impl<T: TopicGen> Stream for PipeStream<T> {
    type Item = Result<HMsg<T>, String>;

    fn poll_next(self: Pin<&mut Self>, cx: &mut Context<'_>) -> Poll<Option<Self::Item>> {
        let mut s = self.pipe.0.lock().unwrap();
        if let Some(frame) = s.q.pop_front() {
            self.consumed.fetch_add(1, Ordering::SeqCst);
            return Poll::Ready(Some(
                decode_cbor::<HMsg<T>, _>(&frame[..]).map_err(|e| format!("{e:?}")),
            ));
        }
        if s.closed {
            return Poll::Ready(None);
        }
        s.waker = Some(cx.waker().clone());
        Poll::Pending
    }
}

#[derive(Clone, Copy, Debug, PartialEq, Eq, Hash, Serialize)]
struct DuoCase {
    /// (global message index 0..3, fault)
    fault: Option<(usize, DFault)>,
    acceptor_first: bool,
}

struct DuoOut<T> {
    init: End<T>,
    acc: End<T>,
    wire: Vec<String>,
    consumed_by_init: usize,
    consumed_by_acc: usize,
    rounds: usize,
}

fn run_duo<T: TopicGen>(topic: &T, other: &T, case: DuoCase) -> DuoOut<T> {
    let i2a = Pipe::default();
    let a2i = Pipe::default();
    let log = Arc::new(Mutex::new(Vec::new()));
    // global index -> (direction, index within direction)
    let (fi, fa) = match case.fault {
        Some((0, f)) => (Some((0, f)), None),
        Some((1, f)) => (None, Some((0, f))),
        Some((2, f)) => (Some((1, f)), None),
        _ => (None, None),
    };
    let ci = Arc::new(AtomicUsize::new(0));
    let ca = Arc::new(AtomicUsize::new(0));
    let init_sink = PipeSink {
        fwd: i2a.clone(),
        rev: a2i.clone(),
        fault: fi,
        other: other.clone(),
        count: 0,
        log: log.clone(),
        name: "I>A",
    };
    let acc_sink = PipeSink {
        fwd: a2i.clone(),
        rev: i2a.clone(),
        fault: fa,
        other: other.clone(),
        count: 0,
        log: log.clone(),
        name: "A>I",
    };
    let init_stream = PipeStream::<T> {
        pipe: a2i.clone(),
        consumed: ci.clone(),
        _t: Default::default(),
    };
    let acc_stream = PipeStream::<T> {
        pipe: i2a.clone(),
        consumed: ca.clone(),
        _t: Default::default(),
    };
    let (ie_tx, _ie_rx) = mpsc::channel::<HEvt<T>>(64);
    let (ae_tx, _ae_rx) = mpsc::channel::<HEvt<T>>(64);
    let mut futs: [Option<RoleFut<T>>; 2] = [
        Some(role_future(Role::Initiator, topic.clone(), ie_tx, init_sink, init_stream)),
        Some(role_future(Role::Acceptor, topic.clone(), ae_tx, acc_sink, acc_stream)),
    ];
    let mut ends: [Option<End<T>>; 2] = [None, None];
    let order: [usize; 2] = if case.acceptor_first { [1, 0] } else { [0, 1] };

    let wake = Arc::new(CountWake(AtomicUsize::new(0)));
    let waker = Waker::from(wake.clone());
    let mut cx = Context::from_waker(&waker);
    let mut rounds = 0;
    loop {
        rounds += 1;
        let before = wake.0.load(Ordering::SeqCst);
        let mut finished_one = false;
        for &w in &order {
            if let Some(f) = futs[w].as_mut() {
                if let Poll::Ready(e) = poll_once(f, &mut cx) {
                    ends[w] = Some(e);
                    futs[w] = None;
                    finished_one = true;
                    // The finished side's transport goes away: both directions close; frames that
                    // were already written are still delivered first.
                    i2a.close();
                    a2i.close();
                }
            }
        }
        if futs.iter().all(|f| f.is_none()) {
            break;
        }
        if !finished_one && wake.0.load(Ordering::SeqCst) == before {
            break; // nobody can progress any more
        }
        if rounds > 1_000 {
            break;
        }
    }
    let [e0, e1] = ends;
    DuoOut {
        init: e0.unwrap_or(End::Hung),
        acc: e1.unwrap_or(End::Hung),
        wire: log.lock().unwrap().clone(),
        consumed_by_init: ci.load(Ordering::SeqCst),
        consumed_by_acc: ca.load(Ordering::SeqCst),
        rounds,
    }
}

fn judge_duo<T: TopicGen>(topic: &T, case: DuoCase, out: &DuoOut<T>) -> Verdict {
    let mut v = Vec::new();
    for (role, end) in [(Role::Initiator, &out.init), (Role::Acceptor, &out.acc)] {
        let r = format!("{role:?}").to_lowercase();
        match end {
            End::Hung => v.push((
                format!("C25:{r}:pending-at-quiescence"),
                format!(
                    "{role:?} is still Pending although the connection is closed/idle and no \
                     wake-up is outstanding"
                ),
            )),
            End::Panic(p) => v.push((format!("C25:{r}:panic"), format!("{role:?} panicked: {p}"))),
            _ => {}
        }
    }
    if let End::Ok(Some(t)) = &out.acc {
        if t != topic {
            v.push((
                "C25:acceptor:wrong-topic".into(),
                "acceptor returned Ok with a topic different from the initiator's".into(),
            ));
        }
    }
    let mut nontrivial = true;
    match case.fault {
        None => {
            if !matches!(out.init, End::Ok(None)) || !matches!(out.acc, End::Ok(Some(_))) {
                v.push((
                    "C25:duo:clean-run-did-not-complete".into(),
                    format!(
                        "fault-free handshake: initiator {} / acceptor {}",
                        out.init.tag(),
                        out.acc.tag()
                    ),
                ));
            }
        }
        Some((k, f)) => {
            // receiver of message k and the number of frames it must have consumed to see it
            let (affected, end, consumed, need) = match k {
                0 => (Role::Acceptor, &out.acc, out.consumed_by_acc, 1),
                1 => (Role::Initiator, &out.init, out.consumed_by_init, 1),
                _ => (Role::Acceptor, &out.acc, out.consumed_by_acc, 2),
            };
            // A duplicate is visible only where the receiver reads one more message afterwards.
            let visible = match f {
                DFault::Cut => true,
                DFault::SubstKind | DFault::Garbage => consumed >= need,
                DFault::Dup => k == 0 && consumed >= 2,
            };
            nontrivial = visible;
            if visible && matches!(end, End::Ok(_)) {
                let r = format!("{affected:?}").to_lowercase();
                let class = match f {
                    DFault::Cut => "closed-stream",
                    DFault::SubstKind => "wrong-message-kind",
                    DFault::Dup => "duplicated-message",
                    DFault::Garbage => "decode-error",
                };
                v.push((
                    format!("C25:{r}:ok-despite-{class}"),
                    format!("{affected:?} returned Ok although message {k} reached it as {f:?}"),
                ));
            }
        }
    }
    Verdict {
        nontrivial,
        violations: v,
    }
}

// ------------------------------------------------------------------------------------------
// Enumeration
// ------------------------------------------------------------------------------------------

fn solo_cases(role: Role) -> Vec<SoloCase> {
    let len = match role {
        Role::Acceptor => 2,
        Role::Initiator => 1,
    };
    // sink calls of the clean run: acceptor send(Done)+flush; initiator send(Topic), send(Done),
    // flush. One more than the clean count is included (never reached = trivial).
    let (ready, start, flush) = match role {
        Role::Acceptor => (1, 1, 2),
        Role::Initiator => (2, 2, 3),
    };
    let base = SoloCase {
        role,
        stream: SFault::Clean,
        sink: None,
        evt_closed: false,
    };
    let mut v = vec![base];
    for p in 0..len {
        v.push(SoloCase {
            stream: SFault::Truncate(p),
            ..base
        });
    }
    for i in 0..len {
        for s in [SFault::SubstKind(i), SFault::DecodeErr(i), SFault::Dup(i)] {
            v.push(SoloCase { stream: s, ..base });
        }
    }
    for (op, c) in [
        (SinkOp::Ready, ready),
        (SinkOp::StartSend, start),
        (SinkOp::Flush, flush),
    ] {
        for nth in 1..=c + 1 {
            for sticky in [false, true] {
                v.push(SoloCase {
                    sink: Some(SinkFault { op, nth, sticky }),
                    ..base
                });
            }
        }
    }
    v.push(SoloCase {
        evt_closed: true,
        ..base
    });
    v
}

fn duo_cases() -> Vec<DuoCase> {
    let mut v = Vec::new();
    for acceptor_first in [false, true] {
        v.push(DuoCase {
            fault: None,
            acceptor_first,
        });
        for k in 0..3 {
            for f in [DFault::Cut, DFault::SubstKind, DFault::Dup, DFault::Garbage] {
                v.push(DuoCase {
                    fault: Some((k, f)),
                    acceptor_first,
                });
            }
        }
    }
    v
}

struct Tally {
    ends: BTreeMap<String, u64>,
    err_variants: BTreeMap<String, u64>,
    polls: u64,
    events: u64,
}

fn run_type<T: TopicGen>(args: &Args, rep: &mut Report, tally: &mut Tally, topics: u64, salt: u64) {
    let solo: Vec<SoloCase> = [Role::Initiator, Role::Acceptor]
        .into_iter()
        .flat_map(solo_cases)
        .collect();
    let duo = duo_cases();
    for n in 0..topics {
        let mut rng = Rng::fork(args.seed ^ salt, n);
        let topic = T::generate(&mut rng);
        let mut other = T::generate(&mut rng);
        let mut guard = 0;
        while other == topic && guard < 100 {
            other = T::generate(&mut rng);
            guard += 1;
        }
        let td = topic.digest();
        for &case in &solo {
            let out = run_solo(&topic, &other, case);
            let verdict = judge_solo(&topic, case, &out);
            rep.case(verdict.nontrivial.then_some((T::NAME, td, "solo", hash_of(&case))));
            *tally
                .ends
                .entry(format!("solo:{:?}:{}", case.role, out.end.tag()))
                .or_insert(0) += 1;
            if let End::Err(e) = &out.end {
                *tally.err_variants.entry(e.clone()).or_insert(0) += 1;
            }
            tally.polls += out.polls as u64;
            tally.events += out.events as u64;
            let witness = || {
                json!({
                    "seed": args.seed, "topic_type": T::NAME, "topic_no": n,
                    "topic_debug": truncate(&format!("{topic:?}")),
                    "arrangement": "solo", "case": case,
                    "delivered_to_role": out.delivered, "consumed": out.consumed,
                    "saw_stream_close": out.saw_close, "sent_by_role": out.sent,
                    "sink_calls_ready_send_flush": out.sink_counts,
                    "sink_failures_returned": out.sink_failures,
                    "result": out.end.tag(),
                    "result_detail": truncate(&format!("{:?}", out.end)),
                    "polls": out.polls,
                })
            };
            if rep.want_sample() && n == 0 && verdict.nontrivial
                && matches!(case.stream, SFault::SubstKind(0) | SFault::Truncate(1))
            {
                rep.sample(witness());
            }
            for (sig, what) in verdict.violations {
                rep.violation(&sig, what, witness());
            }
        }
        for &case in &duo {
            let out = run_duo(&topic, &other, case);
            let verdict = judge_duo(&topic, case, &out);
            rep.case(verdict.nontrivial.then_some((T::NAME, td, "duo", hash_of(&case))));
            *tally
                .ends
                .entry(format!("duo:init:{}", out.init.tag()))
                .or_insert(0) += 1;
            *tally
                .ends
                .entry(format!("duo:acc:{}", out.acc.tag()))
                .or_insert(0) += 1;
            for e in [&out.init, &out.acc] {
                if let End::Err(e) = e {
                    *tally.err_variants.entry(e.clone()).or_insert(0) += 1;
                }
            }
            let witness = || {
                json!({
                    "seed": args.seed, "topic_type": T::NAME, "topic_no": n,
                    "topic_debug": truncate(&format!("{topic:?}")),
                    "arrangement": "duo", "case": case, "wire": out.wire,
                    "initiator": truncate(&format!("{:?}", out.init)),
                    "acceptor": truncate(&format!("{:?}", out.acc)),
                    "frames_consumed_by_initiator": out.consumed_by_init,
                    "frames_consumed_by_acceptor": out.consumed_by_acc,
                    "rounds": out.rounds,
                })
            };
            if rep.want_sample() && n == 0
                && matches!(case.fault, None | Some((2, DFault::Cut)))
                && !case.acceptor_first
            {
                rep.sample(witness());
            }
            for (sig, what) in verdict.violations {
                rep.violation(&sig, what, witness());
            }
        }
    }
}

fn truncate(s: &str) -> String {
    if s.len() > 300 {
        let mut end = 300;
        while !s.is_char_boundary(end) {
            end -= 1;
        }
        format!("{}… ({} bytes)", &s[..end], s.len())
    } else {
        s.to_string()
    }
}

pub fn run(args: &Args) {
    let rule = "case = (topic value, arrangement solo/duo, role, fault): for every generated \
                topic, the clean run and every truncation / kind substitution / decode error / \
                duplication at every transcript position, every n-th failing sink call (one-off \
                and broken), closed event channel, against each role alone; and both real roles \
                over a CBOR-framed connection with message k cut/replaced/duplicated/garbled, \
                both polling orders; non-trivial = clean run or the fault was consumed by the \
                role; distinct = distinct (topic, case)";
    let mut rep = Report::new(args, rule, 10_000);
    let per_topic = (solo_cases(Role::Initiator).len() + solo_cases(Role::Acceptor).len()
        + duo_cases().len()) as u64;
    let total_cases = args.n(60_000, 2_000_000);
    let topics = (total_cases / per_topic).max(3);
    let mut tally = Tally {
        ends: BTreeMap::new(),
        err_variants: BTreeMap::new(),
        polls: 0,
        events: 0,
    };
    // half of the topics are rich application topics, the rest p2panda topics and u8
    run_type::<RichTopic>(args, &mut rep, &mut tally, topics / 2 + 1, 0x25a);
    run_type::<Topic>(args, &mut rep, &mut tally, topics / 4 + 1, 0x25b);
    run_type::<u8>(args, &mut rep, &mut tally, topics / 4 + 1, 0x25c);

    rep.extra("cases_per_topic", json!(per_topic));
    rep.extra("results_by_arrangement_and_role", json!(tally.ends));
    rep.extra("error_variants_returned", json!(tally.err_variants));
    rep.extra("polls_of_role_futures", json!(tally.polls));
    rep.extra("handshake_events_observed", json!(tally.events));
    let _: Value = json!(null);
    rep.finish(args);
}
