//! C23, second workload: the clause "each session sends a given operation to its remote at most
//! once *within its de-duplication window*" with small windows (the manager always builds
//! sessions with the default window of 1024, so the manager flows never evict).
//!
//! One real `TopicLogSync::new_with_capacity(.., cap)` session (cap 1..8) in live mode on a
//! current-thread runtime with a paused clock. A seeded sequence over an alphabet of cap+1..cap+4
//! operations arrives either from the application (live channel) or from the remote (`Live`),
//! one arrival at a time with an idle barrier in between, so the processing order is the arrival
//! order. Reference written from the statement: the window holds the last `cap` distinct
//! operations that passed the session in either direction; an arrival that is inside the window
//! must produce nothing (no `Live` to the remote, no `OperationReceived`). What happens to an
//! arrival outside the window is recorded, not judged; if the session suppresses an arrival the
//! reference considers fresh (its real window is larger than requested) the reference is no
//! longer aligned and the rest of the case is not judged.

use std::collections::{BTreeMap, VecDeque};
use std::pin::Pin;
use std::sync::{Arc, Mutex};
use std::task::{Context, Poll};
use std::time::Duration;

use futures_channel::mpsc;
use futures_util::{Sink, SinkExt, StreamExt};
use p2panda_core::{Body, Hash, Operation, SigningKey, Topic};
use p2panda_store::SqliteStore;
use p2panda_sync::ToSync;
use p2panda_sync::protocols::{LogSyncMessage, TopicLogSync, TopicLogSyncEvent};
use p2panda_sync::test_utils::{Peer, TestTopicSyncMessage as Msg, create_operation};
use p2panda_sync::traits::Protocol;
use tokio::sync::broadcast;
use vh_common::{Rng, Value, json};

pub struct WinResult {
    pub key: Option<(u64, u64)>,
    pub violations: Vec<(String, String, Value)>,
    pub inconclusive: Option<String>,
    pub stats: BTreeMap<&'static str, u64>,
}

struct VecSink(Arc<Mutex<Vec<Hash>>>);

impl Sink<Msg> for VecSink {
    type Error = ();
    fn poll_ready(self: Pin<&mut Self>, _: &mut Context<'_>) -> Poll<Result<(), ()>> {
        Poll::Ready(Ok(()))
    }
    fn start_send(self: Pin<&mut Self>, item: Msg) -> Result<(), ()> {
        if let Msg::Live(h, _) = item {
            self.0.lock().unwrap().push(h.hash());
        }
        Ok(())
    }
    fn poll_flush(self: Pin<&mut Self>, _: &mut Context<'_>) -> Poll<Result<(), ()>> {
        Poll::Ready(Ok(()))
    }
    fn poll_close(self: Pin<&mut Self>, _: &mut Context<'_>) -> Poll<Result<(), ()>> {
        Poll::Ready(Ok(()))
    }
}

async fn play(seed: u64, no: u64) -> WinResult {
    let mut rng = Rng::fork(seed ^ 0x0c23_7777, no);
    let mut res = WinResult {
        key: None,
        violations: Vec::new(),
        inconclusive: None,
        stats: BTreeMap::new(),
    };
    let cap = *rng.pick(&[1usize, 2, 3, 4, 8]);
    let alphabet = cap + 1 + rng.usize_below(4);
    let steps = 40 + rng.usize_below(120);

    let mut peer = Peer {
        store: SqliteStore::temporary().await,
        signing_key: SigningKey::from_bytes(&rng.array32()),
    };
    let topic = Topic::from(rng.array32());
    peer.associate(&topic, &BTreeMap::new()).await;
    let author = SigningKey::from_bytes(&rng.array32());
    let mut backlink = None;
    let ops: Vec<Operation<usize>> = (0..alphabet)
        .map(|i| {
            let body = Body::new(format!("w-{i}").as_bytes());
            let (header, _) = create_operation(&author, &body, i as u32, backlink, 0);
            backlink = Some(header.hash());
            Operation {
                hash: header.hash(),
                header,
                body: Some(body),
            }
        })
        .collect();

    let (event_tx, mut event_rx) = broadcast::channel(4096);
    let (mut live_tx, live_rx) = mpsc::channel(512);
    let session: TopicLogSync<Topic, SqliteStore, usize, usize> =
        TopicLogSync::new_with_capacity(topic, peer.store.clone(), Some(live_rx), event_tx, cap);
    let (remote_tx, remote_rx) = mpsc::unbounded::<Msg>();
    remote_tx
        .unbounded_send(Msg::Sync(LogSyncMessage::Have(BTreeMap::new())))
        .unwrap();
    remote_tx
        .unbounded_send(Msg::Sync(LogSyncMessage::Done))
        .unwrap();
    let sent: Arc<Mutex<Vec<Hash>>> = Default::default();
    let sink_sent = sent.clone();
    let task = tokio::spawn(async move {
        let mut sink = VecSink(sink_sent);
        let mut stream = remote_rx.map(Ok::<_, ()>);
        let _ = session.run(&mut sink, &mut stream).await;
    });

    // wait for live mode (real time: the sync phase talks to SQLite)
    let live = tokio::time::timeout(Duration::from_secs(60), async {
        loop {
            match event_rx.recv().await {
                Ok(TopicLogSyncEvent::LiveModeStarted) => break true,
                Ok(_) => {}
                Err(_) => break false,
            }
        }
    })
    .await;
    if live != Ok(true) {
        res.inconclusive = Some("window case: session did not reach live mode".into());
        task.abort();
        return res;
    }
    tokio::time::pause();

    let mut model: VecDeque<Hash> = VecDeque::new();
    let mut trace: Vec<Value> = Vec::new();
    let mut suppressed_in_window = 0u64;
    let mut fresh_passed = 0u64;
    let mut diverged = false;
    let mut evictions = 0u64;
    let mut recent: Vec<usize> = Vec::new();
    for step in 0..steps {
        let idx = if !recent.is_empty() && rng.chance(0.6) {
            recent[recent.len() - 1 - rng.usize_below(recent.len().min(cap + 2))]
        } else {
            rng.usize_below(alphabet)
        };
        recent.push(idx);
        let from_app = rng.bool();
        let op = &ops[idx];
        let before = sent.lock().unwrap().len();
        if from_app {
            let _ = live_tx.send(ToSync::Payload(op.clone())).await;
        } else {
            let _ = remote_tx.unbounded_send(Msg::Live(op.header.clone(), op.body.clone()));
        }
        // idle barrier: with the clock paused this returns only when every task is idle
        tokio::time::sleep(Duration::from_millis(1)).await;
        let new_sent: Vec<Hash> = sent.lock().unwrap()[before..].to_vec();
        let mut new_ev: Vec<Hash> = Vec::new();
        while let Ok(e) = event_rx.try_recv() {
            if let TopicLogSyncEvent::OperationReceived { operation, .. } = e {
                new_ev.push(operation.hash);
            }
        }
        let in_window = model.contains(&op.hash);
        let produced = !new_sent.is_empty() || !new_ev.is_empty();
        trace.push(json!({
            "step": step, "op": idx, "from": if from_app { "application" } else { "remote" },
            "inside_reference_window": in_window,
            "sent_to_remote": new_sent.len(), "reported": new_ev.len(),
        }));
        if in_window {
            if produced {
                let (sig, what) = if !new_sent.is_empty() {
                    (
                        "C23:window:duplicate-within-window-sent",
                        "an operation that is among the last `cap` distinct operations of the \
                         session was sent to the remote again",
                    )
                } else {
                    (
                        "C23:window:duplicate-within-window-reported",
                        "an operation that is among the last `cap` distinct operations of the \
                         session was reported as newly received again",
                    )
                };
                let tail: Vec<Value> = trace.iter().rev().take(cap * 3 + 6).rev().cloned().collect();
                res.violations.push((
                    sig.into(),
                    what.into(),
                    json!({"seed": seed, "window_case": no, "capacity": cap,
                           "alphabet": alphabet, "last_steps": tail}),
                ));
                break;
            }
            suppressed_in_window += 1;
        } else {
            if !produced {
                // the real window still knows it: reference no longer aligned
                diverged = true;
                break;
            }
            fresh_passed += 1;
            if model.len() == cap {
                model.pop_front();
                evictions += 1;
            }
            model.push_back(op.hash);
        }
    }
    tokio::time::resume();
    task.abort();

    res.stats.insert("window_cases", 1);
    res.stats.insert("window_arrivals", trace.len() as u64);
    res.stats.insert("window_duplicates_suppressed", suppressed_in_window);
    res.stats.insert("window_fresh_arrivals_passed", fresh_passed);
    res.stats.insert("window_reference_evictions", evictions);
    res.stats.insert("window_cases_reference_diverged", diverged as u64);
    if suppressed_in_window > 0 && evictions > 0 && !diverged {
        res.key = Some((no | 1 << 62, vh_common::hash_of(&format!("{trace:?}"))));
    }
    res
}

pub fn run_case(seed: u64, no: u64) -> WinResult {
    let rt = tokio::runtime::Builder::new_current_thread()
        .enable_all()
        .build()
        .unwrap();
    let r = rt.block_on(play(seed, no));
    rt.shutdown_background();
    r
}
