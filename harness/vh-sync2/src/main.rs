//! Harness over `p2panda-sync`: C22 (session event lifecycle), C23 (live-mode forwarding through
//! the real `TopicSyncManager`), C25 (topic handshake under transcript faults).

mod c22;
mod c23;
mod c23w;
mod c25;
mod io;

use vh_common::Args;

fn main() {
    let args = Args::parse();
    vh_common::quiet_panics();
    match args.prop.as_str() {
        "C22" => c22::run(&args),
        "C23" => c23::run(&args),
        "C25" => c25::run(&args),
        other => panic!("vh-sync2 does not serve {other}"),
    }
    // Do not wait for runtimes that may still own an abandoned (spinning) task.
    std::process::exit(0);
}
