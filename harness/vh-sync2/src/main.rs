use vh_common::Args;

fn main() {
    let args = Args::parse();
    match args.prop.as_str() {
        other => panic!("vh-sync2 does not serve {other} yet"),
    }
}
