//! Harness-owned transport ends: a scripted `Stream` (what the remote "sends") and a recording
//! `Sink` with fault injection at its n-th `poll_ready` / `start_send` / `poll_flush` /
//! `poll_close`. Neither ever returns `Pending`, so a protocol future that is `Pending` while
//! talking to them is waiting for something that cannot happen any more.

use std::collections::VecDeque;
use std::pin::Pin;
use std::sync::{Arc, Mutex};
use std::task::{Context, Poll};

use futures_util::{Sink, Stream};
use serde::Serialize;

/// A stream that already returned `None` and is polled this many more times without the protocol
/// future returning is a busy loop (state-based hang criterion; a sane caller polls a finished
/// stream at most a handful of times). The stream then panics with [`SPIN_PANIC`] to unwind the
/// spinning future, which cannot be cancelled any other way because it never yields.
pub const SPIN_LIMIT: usize = 50_000;
pub const SPIN_PANIC: &str = "vh-sync2 spin abort: finished stream polled over and over";

/// Error item of the scripted stream ("the frame could not be decoded").
#[derive(Debug, Clone, Copy)]
pub struct DecodeFault;

#[derive(Clone, Debug)]
pub enum Item<M> {
    Msg(M),
    DecodeErr,
}

#[derive(Default, Debug, Clone)]
pub struct StreamStat {
    /// Items handed to the protocol.
    pub yielded: usize,
    /// `None` was returned at least once.
    pub ended: bool,
    pub polls_after_end: usize,
    pub spin: bool,
}

pub struct ScriptStream<M> {
    items: VecDeque<Item<M>>,
    pub stat: Arc<Mutex<StreamStat>>,
}

impl<M> Unpin for ScriptStream<M> {}

impl<M> ScriptStream<M> {
    pub fn new(items: Vec<Item<M>>) -> Self {
        Self {
            items: items.into(),
            stat: Default::default(),
        }
    }
}

impl<M> Stream for ScriptStream<M> {
    type Item = Result<M, DecodeFault>;

    fn poll_next(mut self: Pin<&mut Self>, _cx: &mut Context<'_>) -> Poll<Option<Self::Item>> {
        let next = self.items.pop_front();
        let mut st = self.stat.lock().unwrap();
        match next {
            Some(Item::Msg(m)) => {
                st.yielded += 1;
                Poll::Ready(Some(Ok(m)))
            }
            Some(Item::DecodeErr) => {
                st.yielded += 1;
                Poll::Ready(Some(Err(DecodeFault)))
            }
            None => {
                if st.ended {
                    st.polls_after_end += 1;
                    if st.polls_after_end > SPIN_LIMIT {
                        st.spin = true;
                        drop(st);
                        panic!("{}", SPIN_PANIC);
                    }
                }
                st.ended = true;
                Poll::Ready(None)
            }
        }
    }
}

#[derive(Clone, Copy, Debug, PartialEq, Eq, Hash, Serialize)]
pub enum SinkOp {
    Ready,
    StartSend,
    Flush,
    Close,
}

/// Fail the `nth` (1-based) call of `op`. `sticky`: every later sink call fails as well (a broken
/// connection); otherwise only that one call fails.
#[derive(Clone, Copy, Debug, PartialEq, Eq, Hash, Serialize)]
pub struct SinkFault {
    pub op: SinkOp,
    pub nth: usize,
    pub sticky: bool,
}

#[derive(Debug, Clone)]
pub struct SinkStat<M> {
    pub sent: Vec<M>,
    pub ready: usize,
    pub start_send: usize,
    pub flush: usize,
    pub close: usize,
    /// (op, call number) of every injected failure that was actually returned.
    pub failed_at: Vec<(SinkOp, usize)>,
    pub closed_ok: bool,
}

impl<M> Default for SinkStat<M> {
    fn default() -> Self {
        Self {
            sent: Vec::new(),
            ready: 0,
            start_send: 0,
            flush: 0,
            close: 0,
            failed_at: Vec::new(),
            closed_ok: false,
        }
    }
}

#[derive(Debug)]
#[allow(dead_code)]
pub struct SinkErr(pub SinkOp, pub usize);

pub struct FaultSink<M> {
    fault: Option<SinkFault>,
    broken: bool,
    pub stat: Arc<Mutex<SinkStat<M>>>,
}

impl<M> Unpin for FaultSink<M> {}

impl<M> FaultSink<M> {
    pub fn new(fault: Option<SinkFault>) -> Self {
        Self {
            fault,
            broken: false,
            stat: Default::default(),
        }
    }

    fn check(&mut self, op: SinkOp) -> Result<(), SinkErr> {
        let mut st = self.stat.lock().unwrap();
        let n = match op {
            SinkOp::Ready => {
                st.ready += 1;
                st.ready
            }
            SinkOp::StartSend => {
                st.start_send += 1;
                st.start_send
            }
            SinkOp::Flush => {
                st.flush += 1;
                st.flush
            }
            SinkOp::Close => {
                st.close += 1;
                st.close
            }
        };
        let hit = matches!(self.fault, Some(f) if f.op == op && f.nth == n);
        if hit || self.broken {
            if hit && self.fault.unwrap().sticky {
                self.broken = true;
            }
            st.failed_at.push((op, n));
            return Err(SinkErr(op, n));
        }
        Ok(())
    }
}

impl<M> Sink<M> for FaultSink<M> {
    type Error = SinkErr;

    fn poll_ready(mut self: Pin<&mut Self>, _cx: &mut Context<'_>) -> Poll<Result<(), SinkErr>> {
        Poll::Ready(self.check(SinkOp::Ready))
    }

    fn start_send(mut self: Pin<&mut Self>, item: M) -> Result<(), SinkErr> {
        self.check(SinkOp::StartSend)?;
        self.stat.lock().unwrap().sent.push(item);
        Ok(())
    }

    fn poll_flush(mut self: Pin<&mut Self>, _cx: &mut Context<'_>) -> Poll<Result<(), SinkErr>> {
        Poll::Ready(self.check(SinkOp::Flush))
    }

    fn poll_close(mut self: Pin<&mut Self>, _cx: &mut Context<'_>) -> Poll<Result<(), SinkErr>> {
        let r = self.check(SinkOp::Close);
        if r.is_ok() {
            self.stat.lock().unwrap().closed_ok = true;
        }
        Poll::Ready(r)
    }
}
