//! C22 — every topic sync session emits its events in the documented lifecycle order and ends
//! with exactly one terminal event.
//!
//! Workload (fault enumeration): the real `TopicLogSync::run` on a real `SqliteStore`, the remote
//! end scripted by the harness. For each *shape* (how many operations each side has, live mode or
//! not, who closes) the well-formed remote transcript is built, run cleanly once, and then run
//! again under **every** single fault of these classes:
//!   * the stream closes after p messages, for every p,
//!   * message i is replaced by a message of every other kind, for every i,
//!   * message i arrives as a decode error, for every i,
//!   * message i arrives twice, for every i,
//!   * the sink fails at its n-th `poll_ready` / `start_send` / `poll_flush` / `poll_close`, for
//!     every n the clean run reaches, once as a one-off error and once as a broken connection
//!     (every later call fails too),
//! plus a few random stream-fault x sink-fault pairs.
//!
//! Oracle: a regular-language monitor over the events of the session's broadcast channel
//! (subscribed before `run`), written from the statement:
//!   SessionStarted SyncStarted OperationReceived* SyncFinished
//!       (LiveModeStarted OperationReceived*)? (SessionFinished | Failed)
//! with `Failed` allowed from every state after `SessionStarted`; exactly one terminal event,
//! nothing after it, and a `run` that returned (or never returns although its stream is closed)
//! without a terminal event is a violation.
//!
//! Recorded but not judged: whether the terminal kind matches `run`'s `Ok`/`Err`, which error
//! variant is returned, what was sent on the sink.

use std::collections::BTreeMap;
use std::sync::Arc;
use std::time::Duration;

use futures_util::{SinkExt, StreamExt};
use p2panda_core::{Body, Hash, Header, Operation, SigningKey, Topic};
use p2panda_store::SqliteStore;
use p2panda_sync::ToSync;
use p2panda_sync::protocols::{LogSyncMessage, TopicLogSync, TopicLogSyncEvent};
use p2panda_sync::test_utils::{Peer, TestTopicSyncMessage as Msg, create_operation};
use p2panda_sync::traits::Protocol;
use serde::Serialize;
use tokio::sync::broadcast;
use vh_common::{Args, Report, Rng, Value, json};

use crate::io::{FaultSink, Item, SPIN_PANIC, ScriptStream, SinkFault, SinkOp};

type Hdr = Header<usize>;

// ------------------------------------------------------------------------------------------
// Shapes and worlds
// ------------------------------------------------------------------------------------------

#[derive(Clone, Debug, Hash, PartialEq, Eq, Serialize)]
pub struct Shape {
    /// Operations in the local store (the session sends them during sync).
    local_ops: usize,
    /// Operations the remote sends during sync.
    remote_ops: usize,
    /// Remote announces its own log in `Have` (otherwise an empty `Have`).
    have_nonempty: bool,
    live: bool,
    /// `Live` messages from the remote.
    remote_live: usize,
    /// Operations pushed into the session's live channel by the application.
    local_live: usize,
    /// The first local live operation is pushed twice.
    local_dup: bool,
    /// The application sends `ToSync::Close` (the remote then closes the stream).
    local_close: bool,
    /// The remote sends `Close` at the end of its transcript.
    remote_close: bool,
}

struct SignedOp {
    header: Hdr,
    header_bytes: Vec<u8>,
    body: Body,
}

impl SignedOp {
    fn operation(&self) -> Operation<usize> {
        Operation {
            hash: self.header.hash(),
            header: self.header.clone(),
            body: Some(self.body.clone()),
        }
    }
}

fn chain(key: &SigningKey, tag: &str, n: usize, log_id: usize) -> Vec<SignedOp> {
    let mut out = Vec::new();
    let mut backlink: Option<Hash> = None;
    for seq in 0..n {
        let body = Body::new(format!("{tag}-{seq}").as_bytes());
        let (header, header_bytes) = create_operation(key, &body, seq as u32, backlink, log_id);
        backlink = Some(header.hash());
        out.push(SignedOp {
            header,
            header_bytes,
            body,
        });
    }
    out
}

struct World {
    shape: Shape,
    topic: Topic,
    store: SqliteStore,
    remote_key: SigningKey,
    remote_chain: Vec<SignedOp>,
    local_live: Vec<SignedOp>,
    spare: Vec<SignedOp>,
}

impl World {
    async fn build(shape: &Shape, rng: &mut Rng) -> World {
        let mut peer = Peer {
            store: SqliteStore::temporary().await,
            signing_key: SigningKey::from_bytes(&rng.array32()),
        };
        let topic = Topic::from(rng.array32());
        for i in 0..shape.local_ops {
            let body = Body::new(format!("local-{i}").as_bytes());
            peer.create_operation(&body, 0).await;
        }
        let remote_key = SigningKey::from_bytes(&rng.array32());
        let spare_key = SigningKey::from_bytes(&rng.array32());
        let logs = BTreeMap::from([
            (peer.id(), vec![0usize]),
            (remote_key.verifying_key(), vec![0usize]),
        ]);
        peer.associate(&topic, &logs).await;
        let remote_chain = chain(&remote_key, "remote", shape.remote_ops + shape.remote_live, 0);
        let local_live = chain(&peer.signing_key, "local-live", shape.local_live, 1);
        let spare = chain(&spare_key, "spare", 2, 0);
        World {
            shape: shape.clone(),
            topic,
            store: peer.store.clone(),
            remote_key,
            remote_chain,
            local_live,
            spare,
        }
    }

    /// The well-formed remote transcript of this shape.
    fn transcript(&self) -> Vec<Msg> {
        let s = &self.shape;
        let mut t = Vec::new();
        let have = if s.have_nonempty && s.remote_ops > 0 {
            BTreeMap::from([(
                self.remote_key.verifying_key(),
                BTreeMap::from([(0usize, (s.remote_ops - 1) as u32)]),
            )])
        } else {
            BTreeMap::new()
        };
        t.push(Msg::Sync(LogSyncMessage::Have(have)));
        if s.remote_ops > 0 {
            let ops = &self.remote_chain[..s.remote_ops];
            let bytes: usize = ops
                .iter()
                .map(|o| o.header_bytes.len() + o.body.to_bytes().len())
                .sum();
            t.push(Msg::Sync(LogSyncMessage::PreSync {
                total_operations: s.remote_ops as u32,
                total_bytes: bytes as u32,
            }));
            for o in ops {
                t.push(Msg::Sync(LogSyncMessage::Operation(
                    o.header_bytes.clone(),
                    Some(o.body.to_bytes()),
                )));
            }
        }
        t.push(Msg::Sync(LogSyncMessage::Done));
        if s.live {
            for o in &self.remote_chain[s.remote_ops..] {
                t.push(Msg::Live(o.header.clone(), Some(o.body.clone())));
            }
            if s.remote_close {
                t.push(Msg::Close);
            }
        }
        t
    }

    fn make(&self, kind: Kind) -> Msg {
        match kind {
            Kind::Have => Msg::Sync(LogSyncMessage::Have(BTreeMap::new())),
            Kind::PreSync => Msg::Sync(LogSyncMessage::PreSync {
                total_operations: 1,
                total_bytes: 64,
            }),
            Kind::Operation => Msg::Sync(LogSyncMessage::Operation(
                self.spare[0].header_bytes.clone(),
                Some(self.spare[0].body.to_bytes()),
            )),
            Kind::OperationGarbage => {
                Msg::Sync(LogSyncMessage::Operation(vec![0xff, 0x00, 0x13, 0x37], None))
            }
            Kind::Done => Msg::Sync(LogSyncMessage::Done),
            Kind::Live => Msg::Live(self.spare[1].header.clone(), Some(self.spare[1].body.clone())),
            Kind::Close => Msg::Close,
        }
    }
}

#[derive(Clone, Copy, Debug, Hash, PartialEq, Eq, Serialize)]
enum Kind {
    Have,
    PreSync,
    Operation,
    OperationGarbage,
    Done,
    Live,
    Close,
}

const KINDS: [Kind; 7] = [
    Kind::Have,
    Kind::PreSync,
    Kind::Operation,
    Kind::OperationGarbage,
    Kind::Done,
    Kind::Live,
    Kind::Close,
];

fn kind_of(m: &Msg) -> Kind {
    match m {
        Msg::Sync(LogSyncMessage::Have(_)) => Kind::Have,
        Msg::Sync(LogSyncMessage::PreSync { .. }) => Kind::PreSync,
        Msg::Sync(LogSyncMessage::Operation(..)) => Kind::Operation,
        Msg::Sync(LogSyncMessage::Done) => Kind::Done,
        Msg::Live(..) => Kind::Live,
        Msg::Close => Kind::Close,
    }
}

#[derive(Clone, Copy, Debug, Hash, PartialEq, Eq, Serialize)]
enum StreamFault {
    Clean,
    /// Stream closes after `p` messages.
    Truncate(usize),
    Subst(usize, Kind),
    DecodeErr(usize),
    Dup(usize),
}

fn apply(t: Vec<Msg>, world: &World, f: StreamFault) -> Vec<Item<Msg>> {
    let mut items: Vec<Item<Msg>> = t.into_iter().map(Item::Msg).collect();
    match f {
        StreamFault::Clean => {}
        StreamFault::Truncate(p) => items.truncate(p),
        StreamFault::Subst(i, k) => items[i] = Item::Msg(world.make(k)),
        StreamFault::DecodeErr(i) => items[i] = Item::DecodeErr,
        StreamFault::Dup(i) => {
            let c = items[i].clone();
            items.insert(i + 1, c);
        }
    }
    items
}

// ------------------------------------------------------------------------------------------
// One session
// ------------------------------------------------------------------------------------------

#[derive(Clone, Copy, Debug, PartialEq, Eq, Serialize)]
enum Ev {
    SessionStarted,
    SyncStarted,
    OperationReceived,
    SyncFinished,
    LiveModeStarted,
    SessionFinished,
    Failed,
}

impl Ev {
    fn terminal(self) -> bool {
        matches!(self, Ev::SessionFinished | Ev::Failed)
    }
}

fn ev_of(e: &TopicLogSyncEvent<usize>) -> Ev {
    match e {
        TopicLogSyncEvent::SessionStarted => Ev::SessionStarted,
        TopicLogSyncEvent::SyncStarted { .. } => Ev::SyncStarted,
        TopicLogSyncEvent::OperationReceived { .. } => Ev::OperationReceived,
        TopicLogSyncEvent::SyncFinished { .. } => Ev::SyncFinished,
        TopicLogSyncEvent::LiveModeStarted => Ev::LiveModeStarted,
        TopicLogSyncEvent::SessionFinished { .. } => Ev::SessionFinished,
        TopicLogSyncEvent::Failed { .. } => Ev::Failed,
    }
}

#[derive(Clone, Debug, Serialize)]
enum Run {
    Ok,
    Err(String),
    Panic(String),
    /// The session kept polling its finished stream without ever returning (busy loop).
    Spin,
    Watchdog,
}

struct Outcome {
    events: Vec<Ev>,
    failed_text: Option<String>,
    lagged: bool,
    run: Run,
    yielded: usize,
    stream_ended: bool,
    polls_after_end: usize,
    sink_counts: [usize; 4],
    sink_failed_at: Vec<(SinkOp, usize)>,
    sent: Vec<Kind>,
}

async fn run_case(world: &Arc<World>, sf: StreamFault, kf: Option<SinkFault>) -> Outcome {
    let shape = &world.shape;
    let stream = ScriptStream::new(apply(world.transcript(), world, sf));
    let sstat = stream.stat.clone();
    let sink = FaultSink::<Msg>::new(kf);
    let kstat = sink.stat.clone();

    let (event_tx, mut event_rx) = broadcast::channel(4096);
    let (mut live_tx, live_rx) = futures_channel::mpsc::channel(512);
    if shape.live {
        for (i, o) in world.local_live.iter().enumerate() {
            live_tx.send(ToSync::Payload(o.operation())).await.unwrap();
            if i == 0 && shape.local_dup {
                live_tx.send(ToSync::Payload(o.operation())).await.unwrap();
            }
        }
        if shape.local_close {
            live_tx.send(ToSync::Close).await.unwrap();
        }
    }
    let session: TopicLogSync<Topic, SqliteStore, usize, usize> = TopicLogSync::new(
        world.topic,
        world.store.clone(),
        shape.live.then_some(live_rx),
        event_tx,
    );

    let handle = tokio::spawn(async move {
        let mut sink = sink;
        let mut stream = stream;
        session
            .run(&mut sink, &mut stream)
            .await
            .map_err(|e| format!("{e:?}"))
    });
    let abort = handle.abort_handle();
    let run = match tokio::time::timeout(Duration::from_secs(60), handle).await {
        Ok(Ok(Ok(()))) => Run::Ok,
        Ok(Ok(Err(e))) => Run::Err(e),
        Ok(Err(join)) => {
            if join.is_panic() {
                let p = join.into_panic();
                let text = p
                    .downcast_ref::<String>()
                    .cloned()
                    .or_else(|| p.downcast_ref::<&str>().map(|s| s.to_string()))
                    .unwrap_or_else(|| "non-string panic".into());
                if text == SPIN_PANIC {
                    Run::Spin
                } else {
                    Run::Panic(text)
                }
            } else {
                Run::Panic("task cancelled".into())
            }
        }
        Err(_) => {
            abort.abort();
            Run::Watchdog
        }
    };
    drop(live_tx);

    let mut events = Vec::new();
    let mut failed_text = None;
    let mut lagged = false;
    loop {
        match event_rx.try_recv() {
            Ok(e) => {
                if let TopicLogSyncEvent::Failed { error } = &e {
                    failed_text.get_or_insert(error.clone());
                }
                events.push(ev_of(&e));
            }
            Err(broadcast::error::TryRecvError::Lagged(_)) => lagged = true,
            Err(_) => break,
        }
    }

    let s = sstat.lock().unwrap().clone();
    let k = kstat.lock().unwrap();
    Outcome {
        events,
        failed_text,
        lagged,
        run,
        yielded: s.yielded,
        stream_ended: s.ended,
        polls_after_end: s.polls_after_end,
        sink_counts: [k.ready, k.start_send, k.flush, k.close],
        sink_failed_at: k.failed_at.clone(),
        sent: k.sent.iter().map(kind_of).collect(),
    }
}

// ------------------------------------------------------------------------------------------
// The monitor
// ------------------------------------------------------------------------------------------

#[derive(Clone, Copy, Debug, PartialEq, Eq)]
enum St {
    Start,
    Started,
    Syncing,
    SyncDone,
    Live,
    Terminal,
}

/// Regular-language monitor. Returns (signature, explanation) per violated clause.
fn monitor(events: &[Ev], run: &Run, close_failed: bool) -> Vec<(String, String)> {
    let mut v: Vec<(String, String)> = Vec::new();
    let mut st = St::Start;
    let mut grammar_reported = false;
    let mut after_terminal_reported = false;

    // Clause "SessionStarted first". Finding C22a has the structural signature "first event is
    // not SessionStarted and no SessionStarted anywhere in the trace"; after reporting exactly
    // that, the rest of the grammar is enforced as if the event had been there.
    if events.first() != Some(&Ev::SessionStarted) {
        if events.contains(&Ev::SessionStarted) {
            v.push((
                "C22:SessionStarted-not-first".into(),
                "SessionStarted is emitted, but not as the first event".into(),
            ));
        } else {
            v.push((
                "C22:SessionStarted-never-emitted".into(),
                "first event is not SessionStarted and no SessionStarted anywhere in the trace"
                    .into(),
            ));
        }
        st = St::Started;
    }

    for (i, &e) in events.iter().enumerate() {
        let next = match (st, e) {
            (St::Start, Ev::SessionStarted) => Some(St::Started),
            (St::Started, Ev::SyncStarted) => Some(St::Syncing),
            (St::Syncing, Ev::OperationReceived) => Some(St::Syncing),
            (St::Syncing, Ev::SyncFinished) => Some(St::SyncDone),
            (St::SyncDone, Ev::LiveModeStarted) => Some(St::Live),
            (St::Live, Ev::OperationReceived) => Some(St::Live),
            (St::SyncDone | St::Live, Ev::SessionFinished) => Some(St::Terminal),
            (St::Started | St::Syncing | St::SyncDone | St::Live, Ev::Failed) => {
                Some(St::Terminal)
            }
            _ => None,
        };
        match next {
            Some(n) => st = n,
            None if st == St::Terminal => {
                if !after_terminal_reported {
                    after_terminal_reported = true;
                    if e.terminal() {
                        v.push((
                            "C22:two-terminal-events".into(),
                            format!("event #{i} {e:?} is a second terminal event"),
                        ));
                    } else {
                        v.push((
                            "C22:event-after-terminal".into(),
                            format!("event #{i} {e:?} is emitted after the terminal event"),
                        ));
                    }
                }
            }
            None => {
                if !grammar_reported {
                    grammar_reported = true;
                    v.push((
                        format!("C22:grammar:{st:?}->{e:?}"),
                        format!("event #{i} {e:?} is not allowed in lifecycle state {st:?}"),
                    ));
                }
                // Resynchronise on the event so that the terminal clauses stay meaningful.
                st = match e {
                    Ev::SessionStarted => St::Started,
                    Ev::SyncStarted => St::Syncing,
                    Ev::OperationReceived => st,
                    Ev::SyncFinished => St::SyncDone,
                    Ev::LiveModeStarted => St::Live,
                    Ev::SessionFinished | Ev::Failed => St::Terminal,
                };
            }
        }
    }

    if st != St::Terminal {
        match run {
            Run::Ok | Run::Err(_) | Run::Panic(_) => {
                let how = if close_failed {
                    "sink-close-failed"
                } else {
                    match run {
                        Run::Ok => "run-returned-ok",
                        Run::Err(_) => "run-returned-err",
                        _ => "run-panicked",
                    }
                };
                v.push((
                    format!("C22:no-terminal-event:{how}"),
                    format!(
                        "run ended ({run:?}) but neither SessionFinished nor Failed was emitted; \
                         last lifecycle state {st:?}"
                    ),
                ));
            }
            Run::Spin => v.push((
                "C22:no-termination:busy-loop-on-closed-stream".into(),
                format!(
                    "the remote closed the stream, the session keeps polling it in a loop that \
                     never yields and never emits a terminal event; last lifecycle state {st:?}"
                ),
            )),
            Run::Watchdog => {}
        }
    }
    v
}

// ------------------------------------------------------------------------------------------
// Enumeration
// ------------------------------------------------------------------------------------------

struct CaseRec {
    key: Option<(Shape, StreamFault, Option<SinkFault>)>,
    violations: Vec<(String, String, Value)>,
    inconclusive: Option<String>,
    class: &'static str,
    reached: bool,
    events: usize,
    terminal: Option<Ev>,
    run_tag: &'static str,
    mismatch: bool,
    sample: Value,
}

fn fault_class(sf: StreamFault, kf: Option<SinkFault>) -> &'static str {
    match (sf, kf) {
        (StreamFault::Clean, None) => "clean",
        (StreamFault::Truncate(_), None) => "truncate",
        (StreamFault::Subst(..), None) => "substitute",
        (StreamFault::DecodeErr(_), None) => "decode_error",
        (StreamFault::Dup(_), None) => "duplicate",
        (StreamFault::Clean, Some(f)) => match (f.op, f.sticky) {
            (SinkOp::Ready, false) => "sink_ready_once",
            (SinkOp::Ready, true) => "sink_ready_broken",
            (SinkOp::StartSend, false) => "sink_start_send_once",
            (SinkOp::StartSend, true) => "sink_start_send_broken",
            (SinkOp::Flush, false) => "sink_flush_once",
            (SinkOp::Flush, true) => "sink_flush_broken",
            (SinkOp::Close, false) => "sink_close_once",
            (SinkOp::Close, true) => "sink_close_broken",
        },
        (_, Some(_)) => "double",
    }
}

fn judge(
    seed: u64,
    shape_no: usize,
    world: &World,
    sf: StreamFault,
    kf: Option<SinkFault>,
    out: &Outcome,
) -> CaseRec {
    let stream_reached = match sf {
        StreamFault::Clean => true,
        StreamFault::Truncate(p) => out.stream_ended && out.yielded == p,
        StreamFault::Subst(i, _) | StreamFault::DecodeErr(i) => out.yielded > i,
        StreamFault::Dup(i) => out.yielded > i + 1,
    };
    let sink_reached = kf.is_none() || !out.sink_failed_at.is_empty();
    let reached = stream_reached && sink_reached;

    let close_failed = out.sink_failed_at.iter().any(|(op, _)| *op == SinkOp::Close);
    let found = monitor(&out.events, &out.run, close_failed);

    let witness = json!({
        "seed": seed,
        "shape_no": shape_no,
        "shape": world.shape,
        "remote_transcript": world.transcript().iter().map(kind_of).collect::<Vec<_>>(),
        "stream_fault": sf,
        "sink_fault": kf,
        "events": out.events,
        "failed_event_text": out.failed_text,
        "run": out.run,
        "stream_items_consumed": out.yielded,
        "stream_closed_seen": out.stream_ended,
        "polls_after_stream_end": out.polls_after_end,
        "sink_calls_ready_send_flush_close": out.sink_counts,
        "sink_failures_returned": out.sink_failed_at,
        "sent_by_session": out.sent,
    });

    let mut inconclusive = None;
    if matches!(out.run, Run::Watchdog) {
        inconclusive = Some(format!(
            "watchdog: a session did not return within 60 s (shape {:?}, {sf:?}, {kf:?})",
            world.shape
        ));
    }
    if out.lagged {
        inconclusive = Some("event receiver lagged; trace incomplete".into());
    }

    let terminal = out.events.iter().copied().find(|e| e.terminal());
    let mismatch = match (&out.run, terminal) {
        (Run::Ok, Some(Ev::Failed)) | (Run::Err(_), Some(Ev::SessionFinished)) => true,
        _ => false,
    };

    CaseRec {
        key: reached.then(|| (world.shape.clone(), sf, kf)),
        violations: found
            .into_iter()
            .map(|(s, w)| (s, w, witness.clone()))
            .collect(),
        inconclusive,
        class: fault_class(sf, kf),
        reached,
        events: out.events.len(),
        terminal,
        run_tag: match out.run {
            Run::Ok => "run_ok",
            Run::Err(_) => "run_err",
            Run::Panic(_) => "run_panic",
            Run::Spin => "run_spin",
            Run::Watchdog => "run_watchdog",
        },
        mismatch,
        sample: witness,
    }
}

async fn run_shape(seed: u64, shape_no: usize, shape: Shape, doubles: usize) -> Vec<CaseRec> {
    let mut rng = Rng::fork(seed, shape_no as u64);
    let world = Arc::new(World::build(&shape, &mut rng).await);
    let mut recs = Vec::new();

    let clean = run_case(&world, StreamFault::Clean, None).await;
    let counts = clean.sink_counts;
    recs.push(judge(seed, shape_no, &world, StreamFault::Clean, None, &clean));

    let t = world.transcript();
    let mut stream_faults = Vec::new();
    for p in 0..t.len() {
        stream_faults.push(StreamFault::Truncate(p));
    }
    for (i, m) in t.iter().enumerate() {
        for k in KINDS {
            if k != kind_of(m) {
                stream_faults.push(StreamFault::Subst(i, k));
            }
        }
        stream_faults.push(StreamFault::DecodeErr(i));
        stream_faults.push(StreamFault::Dup(i));
    }
    let mut sink_faults = Vec::new();
    for (op, c) in [
        (SinkOp::Ready, counts[0]),
        (SinkOp::StartSend, counts[1]),
        (SinkOp::Flush, counts[2]),
        (SinkOp::Close, counts[3]),
    ] {
        for nth in 1..=c {
            for sticky in [false, true] {
                sink_faults.push(SinkFault { op, nth, sticky });
            }
        }
    }

    // sink calls reached under each single stream fault (used to aim the double faults)
    let mut counts_under: Vec<[usize; 4]> = Vec::new();
    for &sf in &stream_faults {
        let out = run_case(&world, sf, None).await;
        counts_under.push(out.sink_counts);
        recs.push(judge(seed, shape_no, &world, sf, None, &out));
    }
    for &kf in &sink_faults {
        let out = run_case(&world, StreamFault::Clean, Some(kf)).await;
        recs.push(judge(seed, shape_no, &world, StreamFault::Clean, Some(kf), &out));
    }
    // Double faults: a stream fault plus a sink failure placed in the later half of the sink
    // calls that the session makes under that stream fault, so that usually both are reached.
    for _ in 0..doubles {
        let i = rng.usize_below(stream_faults.len());
        let sf = stream_faults[i];
        let ops = [SinkOp::Ready, SinkOp::StartSend, SinkOp::Flush, SinkOp::Close];
        let j = rng.usize_below(4);
        let c = counts_under[i][j];
        if c == 0 {
            continue;
        }
        let kf = SinkFault {
            op: ops[j],
            nth: c - rng.usize_below(c.div_ceil(2)),
            sticky: rng.bool(),
        };
        let out = run_case(&world, sf, Some(kf)).await;
        recs.push(judge(seed, shape_no, &world, sf, Some(kf), &out));
    }
    recs
}

fn base_shapes() -> Vec<Shape> {
    let mut v = Vec::new();
    for local_ops in [0usize, 2] {
        for remote_ops in [0usize, 2] {
            // not live
            v.push(Shape {
                local_ops,
                remote_ops,
                have_nonempty: remote_ops > 0 && local_ops == 0,
                live: false,
                remote_live: 0,
                local_live: 0,
                local_dup: false,
                local_close: false,
                remote_close: false,
            });
            // live, remote closes
            v.push(Shape {
                local_ops,
                remote_ops,
                have_nonempty: false,
                live: true,
                remote_live: 2,
                local_live: 1,
                local_dup: false,
                local_close: false,
                remote_close: true,
            });
            // live, application closes, remote then closes the stream
            v.push(Shape {
                local_ops,
                remote_ops,
                have_nonempty: remote_ops > 0,
                live: true,
                remote_live: 1,
                local_live: 2,
                local_dup: true,
                local_close: true,
                remote_close: false,
            });
        }
    }
    v
}

fn random_shape(rng: &mut Rng) -> Shape {
    let live = rng.chance(0.65);
    let remote_ops = rng.usize_below(5);
    let (local_close, remote_close) = match rng.below(3) {
        0 => (true, false),
        1 => (false, true),
        _ => (true, true),
    };
    let local_live = if live { rng.usize_below(4) } else { 0 };
    Shape {
        local_ops: rng.usize_below(4),
        remote_ops,
        have_nonempty: remote_ops > 0 && rng.bool(),
        live,
        remote_live: if live { rng.usize_below(4) } else { 0 },
        local_live,
        local_dup: local_live > 0 && rng.bool(),
        local_close: live && local_close,
        remote_close: live && remote_close,
    }
}

pub fn run(args: &Args) {
    let rule = "case = (session shape, stream fault, sink fault): every truncation / substitution \
                by each other message kind / decode error / duplication at every transcript \
                position and a sink failure at every n-th poll_ready/start_send/poll_flush/\
                poll_close (one-off and broken-connection) of each shape, plus random double \
                faults; non-trivial = the injected fault was actually reached by the session (or \
                the case is the clean run); distinct = distinct (shape, faults)";
    let mut rep = Report::new(args, rule, 300);

    // quick: the 12 base shapes + 28 seeded random ones (~4 000 sessions); thorough: base +
    // random shapes up to the session budget.
    let budget = args.n(4_000, 30_000) as usize;
    let doubles = match args.tier {
        vh_common::Tier::Quick => 8,
        vh_common::Tier::Thorough => 30,
    };
    let mut shapes = base_shapes();
    {
        let mut rng = Rng::fork(args.seed, 0xC22);
        // seed-dependent extra shapes in both tiers
        let extra = match args.tier {
            vh_common::Tier::Quick => 28,
            vh_common::Tier::Thorough => 2_000,
        };
        let mut guard = 0;
        while shapes.len() < 12 + extra && guard < 100_000 {
            guard += 1;
            let s = random_shape(&mut rng);
            if !shapes.contains(&s) {
                shapes.push(s);
            }
        }
    }

    let rt = tokio::runtime::Builder::new_multi_thread()
        .worker_threads(8)
        .enable_all()
        .build()
        .unwrap();

    let seed = args.seed;
    let deadline = match args.tier {
        vh_common::Tier::Quick => Duration::from_secs(75),
        vh_common::Tier::Thorough => Duration::from_secs(25 * 60),
    };
    let mut sessions = 0usize;
    let mut shapes_run = 0usize;
    let mut by_class: BTreeMap<&'static str, (u64, u64)> = BTreeMap::new();
    let mut by_run: BTreeMap<&'static str, u64> = BTreeMap::new();
    let mut by_terminal: BTreeMap<String, u64> = BTreeMap::new();
    let mut events_total = 0u64;
    let mut mismatches = 0u64;
    let mut sampled: Vec<&'static str> = Vec::new();

    rt.block_on(async {
        let mut pending = futures_util::stream::iter(shapes.into_iter().enumerate())
            .map(|(i, s)| tokio::spawn(run_shape(seed, i, s, doubles)))
            .buffered(8);
        while let Some(joined) = pending.next().await {
            let recs = match joined {
                Ok(r) => r,
                Err(e) => {
                    rep.inconclusive(format!("a shape task died: {e}"));
                    continue;
                }
            };
            shapes_run += 1;
            for r in recs {
                sessions += 1;
                rep.case(r.key);
                let c = by_class.entry(r.class).or_insert((0, 0));
                c.0 += 1;
                if r.reached {
                    c.1 += 1;
                }
                *by_run.entry(r.run_tag).or_insert(0) += 1;
                *by_terminal
                    .entry(r.terminal.map(|t| format!("{t:?}")).unwrap_or("none".into()))
                    .or_insert(0) += 1;
                events_total += r.events as u64;
                if r.mismatch {
                    mismatches += 1;
                }
                if let Some(t) = r.inconclusive {
                    rep.inconclusive(t);
                }
                if !sampled.contains(&r.class) && sampled.len() < 4 && r.reached
                    && matches!(r.class, "clean" | "truncate" | "substitute" | "sink_flush_once")
                {
                    sampled.push(r.class);
                    rep.sample(r.sample);
                }
                for (sig, what, wit) in r.violations {
                    rep.violation(&sig, what, wit);
                }
            }
            if sessions >= budget || rep.elapsed() > deadline {
                break;
            }
        }
    });

    rep.extra("sessions_run", json!(sessions));
    rep.extra("shapes_run", json!(shapes_run));
    rep.extra("events_observed", json!(events_total));
    rep.extra(
        "cases_by_fault_class_total_and_reached",
        json!(by_class
            .iter()
            .map(|(k, (a, b))| (k.to_string(), json!([a, b])))
            .collect::<BTreeMap<_, _>>()),
    );
    rep.extra("run_results", json!(by_run));
    rep.extra("terminal_event_seen", json!(by_terminal));
    rep.extra("terminal_kind_vs_run_result_mismatch_recorded_not_judged", json!(mismatches));
    rep.finish(args);
}
