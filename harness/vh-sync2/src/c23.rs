//! C23 — live-mode forwarding through the real `TopicSyncManager`.
//!
//! One flow: a real manager on a real `SqliteStore`, 2–5 live sessions on topic A, 1–2 live
//! sessions on topic B, optionally a non-live session on A; some sessions are created before
//! `subscribe()`, some after. Every session runs the real `TopicLogSync::run`; its remote end is
//! the harness (an injectable stream, a recording sink). A task drains the manager event stream
//! (which is what performs the forwarding), one task per session records the session's own
//! broadcast events. After every session reported `LiveModeStarted` a seeded schedule is played:
//! a remote sends `Live(op)` into a session, the application publishes an op through
//! `session_handle`, re-injections of earlier ops from the same or other sessions (duplicates),
//! a remote leaves with `Close`; actions are separated by nothing, a few yields, or quiescence.
//!
//! Quiescence (never a bare sleep):
//!   * `paused` flows run on a current-thread runtime whose clock is paused once live mode is
//!     reached; a virtual `sleep` then returns only when *every* task is idle, so whatever is
//!     missing afterwards will never arrive — missing forwards are decided on state.
//!   * `mt` flows run on a multi-thread runtime (real schedule diversity); quiescence is decided
//!     by counters: wait until the ledger's completeness predicate holds, then send one marker op
//!     through every session and wait for the markers — every path is FIFO, so anything still in
//!     flight arrives before the marker. A watchdog here is `inconclusive`, never a verdict.
//!
//! Ledger oracle per operation X at final quiescence (sent[s] = `Live(X)` on s's sink, ev[s] =
//! `OperationReceived(X)` on s's own channel, mgr = occurrences on the manager stream):
//!   1. sent[s] <= 1                                   (at most once per session)
//!   2. not (sent[s] >= 1 and ev[s] >= 1)              (never back to the peer it came from: a
//!      session that accepted X from its remote must not send it, and one that already sent it
//!      must drop the remote's copy; the order in the witness says which)
//!   3. sessions of another topic never send X
//!   4. if some session accepted X from its remote (ev >= 1): every other live session of the
//!      topic sent it exactly once, and mgr == 1; in any case mgr <= 1
//!   5. a session whose remote sent X either accepted it or had already sent it (not swallowed)
//!   6. (mechanism level) a tap between the manager-side sender and the session's live receiver
//!      (both public fields) records what the manager side hands to session s: at most one copy
//!      per *other* session that reported X plus the local publishes to s. Without it the
//!      mutation "forward to the source session as well" is invisible on the wire, because the
//!      session's own window swallows the copy.
//! Recorded, not judged: delivery of purely local publishes, metrics, sync-phase traffic.
//! A second workload (c23w.rs) covers clause 1/2 with small windows that actually evict.

use std::collections::{BTreeMap, BTreeSet};
use std::pin::Pin;
use std::sync::atomic::{AtomicU64, Ordering};
use std::sync::{Arc, Mutex};
use std::task::{Context, Poll};
use std::time::{Duration, Instant};

use futures_channel::mpsc;
use futures_util::{Sink, SinkExt, StreamExt};
use p2panda_core::{Body, Hash, Operation, SigningKey, Topic};
use p2panda_store::SqliteStore;
use p2panda_sync::protocols::{LogSyncMessage, TopicLogSyncEvent};
use p2panda_sync::test_utils::{
    Peer, TestTopicSyncManager, TestTopicSyncMessage as Msg, create_operation,
};
use p2panda_sync::traits::{Manager, Protocol};
use p2panda_sync::{SessionConfig, ToSync};
use serde::Serialize;
use tokio::sync::broadcast;
use vh_common::{Args, Report, Rng, Tier, Value, json};

// ------------------------------------------------------------------------------------------
// Flow specification
// ------------------------------------------------------------------------------------------

#[derive(Clone, Debug, Serialize)]
enum Action {
    /// The remote of `session` sends `Live(op)`.
    Remote { session: usize, op: usize },
    /// The application publishes `op` through the handles of `sessions`.
    Local { sessions: Vec<usize>, op: usize },
    Yield(u8),
    Quiesce,
    /// The remote of `session` sends `Close`; the session ends.
    Leave { session: usize },
}

#[derive(Clone, Debug, Serialize)]
struct FlowSpec {
    flow_no: u64,
    mt: bool,
    /// topic index (0 = A, 1 = B) of every session; index = session id
    topics: Vec<usize>,
    live: Vec<bool>,
    /// sessions with id < this are created before `subscribe()`
    created_before_subscribe: usize,
    n_ops: usize,
    actions: Vec<Action>,
}

fn gen_flow(seed: u64, flow_no: u64, tier: Tier, force_mt: Option<bool>) -> FlowSpec {
    let mut rng = Rng::fork(seed, flow_no);
    let n_a = 2 + rng.usize_below(4);
    let n_b = 1 + rng.usize_below(2);
    let nonlive_a = rng.chance(0.3);
    let mut topics = Vec::new();
    let mut live = Vec::new();
    for _ in 0..n_a {
        topics.push(0);
        live.push(true);
    }
    for _ in 0..n_b {
        topics.push(1);
        live.push(true);
    }
    if nonlive_a {
        topics.push(0);
        live.push(false);
    }
    // shuffle session order so that ids of the two topics interleave
    let mut order: Vec<usize> = (0..topics.len()).collect();
    rng.shuffle(&mut order);
    let topics: Vec<usize> = order.iter().map(|&i| topics[i]).collect();
    let live: Vec<bool> = order.iter().map(|&i| live[i]).collect();
    let n = topics.len();
    let created_before_subscribe = match rng.below(3) {
        0 => 0,
        1 => n,
        _ => rng.usize_below(n + 1),
    };
    let mt = force_mt.unwrap_or_else(|| rng.chance(0.25));

    let target_ops = match tier {
        Tier::Quick => 20 + rng.usize_below(60),
        Tier::Thorough => 20 + rng.usize_below(181),
    };
    let live_of = |t: usize, gone: &BTreeSet<usize>| -> Vec<usize> {
        (0..n)
            .filter(|&s| topics[s] == t && live[s] && !gone.contains(&s))
            .collect()
    };
    let mut actions = Vec::new();
    let mut op_topic: Vec<usize> = Vec::new();
    let mut gone: BTreeSet<usize> = BTreeSet::new();
    let leave_at = if rng.chance(0.25) && n_a >= 3 {
        Some(target_ops / 2)
    } else {
        None
    };
    let dup_rate = *rng.pick(&[0.2, 0.5, 0.8]);
    let burst = rng.chance(0.3);
    while op_topic.len() < target_ops {
        if Some(op_topic.len()) == leave_at && gone.is_empty() {
            let cands = live_of(0, &gone);
            let s = *rng.pick(&cands);
            actions.push(Action::Quiesce);
            actions.push(Action::Leave { session: s });
            actions.push(Action::Quiesce);
            gone.insert(s);
        }
        let reinject = !op_topic.is_empty() && rng.chance(dup_rate);
        let op = if reinject {
            // mostly recent operations, sometimes any
            if rng.chance(0.7) {
                op_topic.len() - 1 - rng.usize_below(op_topic.len().min(4))
            } else {
                rng.usize_below(op_topic.len())
            }
        } else {
            op_topic.push(if rng.chance(0.8) { 0 } else { 1 });
            op_topic.len() - 1
        };
        let cands = live_of(op_topic[op], &gone);
        if rng.chance(0.75) {
            actions.push(Action::Remote {
                session: *rng.pick(&cands),
                op,
            });
        } else {
            let sessions: Vec<usize> = if rng.chance(0.7) {
                cands.clone()
            } else {
                let mut c = cands.clone();
                rng.shuffle(&mut c);
                c.truncate(1 + rng.usize_below(cands.len()));
                c
            };
            actions.push(Action::Local { sessions, op });
        }
        if !burst || rng.chance(0.2) {
            match rng.below(10) {
                0..=4 => {}
                5..=7 => actions.push(Action::Yield(1 + rng.below(3) as u8)),
                _ => actions.push(Action::Quiesce),
            }
        }
    }
    FlowSpec {
        flow_no,
        mt,
        topics,
        live,
        created_before_subscribe,
        n_ops: op_topic.len(),
        actions,
    }
}

// ------------------------------------------------------------------------------------------
// Observation log
// ------------------------------------------------------------------------------------------

#[derive(Clone, Debug, Serialize)]
enum Obs {
    InjectRemote { session: usize },
    InjectLocal { session: usize },
    Sent { session: usize },
    Received { session: usize },
    Manager { session: u64 },
    /// The manager side (forwarding or `session_handle`) put the operation into the session's
    /// live channel (observed by a tap between the manager's sender and the session's receiver).
    Handed { session: usize },
}

#[derive(Default)]
struct Log {
    /// global order of everything observed about an operation
    per_op: BTreeMap<Hash, Vec<(u64, Obs)>>,
    seq: u64,
    live_started: BTreeSet<usize>,
    ended: BTreeSet<usize>,
    sync_msgs_sent: u64,
    close_msgs_sent: u64,
    manager_items: u64,
    session_events: u64,
}

impl Log {
    fn push(&mut self, h: Hash, o: Obs) {
        self.seq += 1;
        let s = self.seq;
        self.per_op.entry(h).or_default().push((s, o));
    }
}

type Shared = Arc<Mutex<Log>>;

struct RecSink {
    session: usize,
    log: Shared,
}

impl Sink<Msg> for RecSink {
    type Error = ();
    fn poll_ready(self: Pin<&mut Self>, _: &mut Context<'_>) -> Poll<Result<(), ()>> {
        Poll::Ready(Ok(()))
    }
    fn start_send(self: Pin<&mut Self>, item: Msg) -> Result<(), ()> {
        let mut l = self.log.lock().unwrap();
        match item {
            Msg::Live(header, _) => l.push(header.hash(), Obs::Sent {
                session: self.session,
            }),
            Msg::Sync(_) => l.sync_msgs_sent += 1,
            Msg::Close => l.close_msgs_sent += 1,
        }
        Ok(())
    }
    fn poll_flush(self: Pin<&mut Self>, _: &mut Context<'_>) -> Poll<Result<(), ()>> {
        Poll::Ready(Ok(()))
    }
    fn poll_close(self: Pin<&mut Self>, _: &mut Context<'_>) -> Poll<Result<(), ()>> {
        Poll::Ready(Ok(()))
    }
}

// ------------------------------------------------------------------------------------------
// The ledger predicate
// ------------------------------------------------------------------------------------------

#[derive(Default, Clone)]
struct Counts {
    inj_remote: Vec<u32>,
    inj_local: Vec<u32>,
    sent: Vec<u32>,
    ev: Vec<u32>,
    handed: Vec<u32>,
    mgr: u32,
}

fn counts(n: usize, obs: &[(u64, Obs)]) -> Counts {
    let mut c = Counts {
        inj_remote: vec![0; n],
        inj_local: vec![0; n],
        sent: vec![0; n],
        ev: vec![0; n],
        handed: vec![0; n],
        mgr: 0,
    };
    for (_, o) in obs {
        match o {
            Obs::InjectRemote { session } => c.inj_remote[*session] += 1,
            Obs::InjectLocal { session } => c.inj_local[*session] += 1,
            Obs::Sent { session } => c.sent[*session] += 1,
            Obs::Received { session } => c.ev[*session] += 1,
            Obs::Manager { .. } => c.mgr += 1,
            Obs::Handed { session } => c.handed[*session] += 1,
        }
    }
    c
}

struct OpMeta {
    hash: Hash,
    topic: usize,
    /// sessions that were live members of the topic when the op was first injected and still are
    /// at the end (a session that left in between is not judged for this op)
    expect: Vec<usize>,
}

/// Liveness clauses (4, 5). `None` = complete.
fn incomplete(n: usize, meta: &OpMeta, obs: &[(u64, Obs)]) -> Option<(String, String)> {
    let c = counts(n, obs);
    for &s in &meta.expect {
        if c.inj_remote[s] > 0 && c.sent[s] + c.ev[s] == 0 {
            return Some((
                "C23:received-op-swallowed".into(),
                format!(
                    "the remote of session {s} sent the operation; the session neither reported \
                     it nor had sent it before"
                ),
            ));
        }
    }
    let accepted = c.ev.iter().any(|&e| e > 0);
    if accepted {
        for &s in &meta.expect {
            if c.ev[s] == 0 && c.sent[s] == 0 {
                return Some((
                    "C23:not-forwarded-to-live-session".into(),
                    format!(
                        "the operation was received by a session of the topic but live session \
                         {s} of the same topic never sent it to its remote"
                    ),
                ));
            }
        }
        if c.mgr == 0 {
            return Some((
                "C23:manager-stream-never-reported".into(),
                "the operation was received by a session but never appeared on the manager \
                 event stream"
                    .into(),
            ));
        }
    }
    None
}

/// Safety clauses (1, 2, 3, mgr <= 1).
fn unsafe_obs(
    n: usize,
    topics: &[usize],
    meta: &OpMeta,
    obs: &[(u64, Obs)],
) -> Vec<(String, String)> {
    let c = counts(n, obs);
    let mut v = Vec::new();
    for s in 0..n {
        if topics[s] != meta.topic && c.sent[s] > 0 {
            v.push((
                "C23:forwarded-across-topics".into(),
                format!("session {s} belongs to another topic and sent the operation"),
            ));
            continue;
        }
        if c.sent[s] > 1 {
            v.push((
                "C23:sent-more-than-once".into(),
                format!(
                    "session {s} sent the operation {} times within its de-duplication window",
                    c.sent[s]
                ),
            ));
        }
        if c.sent[s] >= 1 && c.ev[s] >= 1 {
            let first_sent = obs
                .iter()
                .find(|(_, o)| matches!(o, Obs::Sent { session } if *session == s))
                .map(|(q, _)| *q)
                .unwrap();
            let first_ev = obs
                .iter()
                .find(|(_, o)| matches!(o, Obs::Received { session } if *session == s))
                .map(|(q, _)| *q)
                .unwrap();
            if first_ev < first_sent {
                v.push((
                    "C23:sent-back-to-source-peer".into(),
                    format!(
                        "session {s} accepted the operation from its remote and afterwards sent \
                         it to that same remote"
                    ),
                ));
            } else {
                v.push((
                    "C23:accepted-after-sending".into(),
                    format!(
                        "session {s} had already sent the operation to its remote and still \
                         reported the remote's copy as newly received"
                    ),
                ));
            }
        }
        if c.ev[s] > 1 {
            v.push((
                "C23:session-reported-twice".into(),
                format!("session {s} reported the operation {} times", c.ev[s]),
            ));
        }
    }
    // Clause 6 (mechanism level, see module docs): what the manager side hands to session s is at
    // most one copy per *other* session that reported the operation, plus local publishes to s.
    for s in 0..n {
        let others: u32 = (0..n).filter(|&x| x != s).map(|x| c.ev[x]).sum();
        if c.handed[s] > others + c.inj_local[s] {
            v.push((
                "C23:manager-handed-op-back-to-reporting-session".into(),
                format!(
                    "session {s} was handed the operation {} times by the manager side, but only \
                     {others} reports by other sessions and {} local publishes account for it: \
                     the manager forwarded the operation back to the session that reported it",
                    c.handed[s], c.inj_local[s]
                ),
            ));
        }
    }
    if c.mgr > 1 {
        v.push((
            "C23:manager-stream-reported-twice".into(),
            format!("the manager event stream yielded the operation {} times", c.mgr),
        ));
    }
    v
}

// ------------------------------------------------------------------------------------------
// Running one flow
// ------------------------------------------------------------------------------------------

struct FlowResult {
    spec_summary: Value,
    nontrivial_key: Option<(u64, u64)>,
    violations: Vec<(String, String, Value)>,
    /// further violations of this flow, counted without a witness
    more: Vec<(String, String)>,
    inconclusive: Option<String>,
    stats: BTreeMap<&'static str, u64>,
    sample: Value,
}

fn make_ops(rng: &mut Rng, n: usize, tag: &str) -> Vec<Operation<usize>> {
    // a handful of authors, each with its own log
    let authors: Vec<SigningKey> = (0..3)
        .map(|_| SigningKey::from_bytes(&rng.array32()))
        .collect();
    let mut next: Vec<(u32, Option<Hash>)> = vec![(0, None); authors.len()];
    (0..n)
        .map(|i| {
            let a = rng.usize_below(authors.len());
            let body = Body::new(format!("{tag}-{i}").as_bytes());
            let (seq, backlink) = next[a];
            let (header, _) = create_operation(&authors[a], &body, seq, backlink, a);
            next[a] = (seq + 1, Some(header.hash()));
            Operation {
                hash: header.hash(),
                header,
                body: Some(body),
            }
        })
        .collect()
}

async fn wait_until(
    what: &str,
    limit: Duration,
    mut cond: impl FnMut() -> bool,
) -> Result<(), String> {
    let start = Instant::now();
    let mut spins = 0u32;
    while !cond() {
        if start.elapsed() > limit {
            return Err(format!("watchdog: {what} not reached within {limit:?}"));
        }
        spins += 1;
        if spins < 50 {
            tokio::task::yield_now().await;
        } else {
            tokio::time::sleep(Duration::from_micros(300)).await;
        }
    }
    Ok(())
}

async fn play(spec: &FlowSpec, seed: u64) -> FlowResult {
    let n = spec.topics.len();
    let mut rng = Rng::fork(seed ^ 0x0c23_0c23, spec.flow_no);
    let mut peer = Peer {
        store: SqliteStore::temporary().await,
        signing_key: SigningKey::from_bytes(&rng.array32()),
    };
    let topic_ids = [Topic::from(rng.array32()), Topic::from(rng.array32())];
    for t in &topic_ids {
        peer.associate(t, &BTreeMap::new()).await;
    }
    let ops = make_ops(&mut rng, spec.n_ops, "op");
    let markers = make_ops(&mut rng, n, "marker");

    let log: Shared = Default::default();
    let mut manager = TestTopicSyncManager::new(peer.store.clone());
    let mut remote_tx: Vec<Option<mpsc::UnboundedSender<Msg>>> = Vec::new();
    let mut tasks = Vec::new();
    let mut mgr_stream = None;

    for s in 0..=n {
        if s == spec.created_before_subscribe {
            let mut stream = manager.subscribe();
            let log = log.clone();
            let (tx, rx) = tokio::sync::oneshot::channel::<()>();
            mgr_stream = Some(tx);
            tasks.push(tokio::spawn(async move {
                let mut rx = rx;
                loop {
                    tokio::select! {
                        item = stream.next() => {
                            let Some(item) = item else { break };
                            let mut l = log.lock().unwrap();
                            l.manager_items += 1;
                            if let TopicLogSyncEvent::OperationReceived { operation, .. } = &item.event {
                                l.push(operation.hash, Obs::Manager { session: item.session_id });
                            }
                        }
                        _ = &mut rx => break,
                    }
                }
            }));
        }
        if s == n {
            break;
        }
        let remote_key = SigningKey::from_bytes(&rng.array32());
        let config = SessionConfig {
            topic: topic_ids[spec.topics[s]],
            remote: remote_key.verifying_key(),
            live_mode: spec.live[s],
        };
        let mut session = manager.session(s as u64, &config).await;
        let mut ev_rx = session.event_tx.subscribe();
        // Tap between the manager-side sender and the session's live receiver (both are public
        // fields): records what the manager side hands to this session, keeps FIFO order.
        if let Some(mut orig_rx) = session.live_mode_rx.take() {
            let (mut tap_tx, tap_rx) = mpsc::channel(1028);
            session.live_mode_rx = Some(tap_rx);
            let tap_log = log.clone();
            tasks.push(tokio::spawn(async move {
                while let Some(m) = orig_rx.next().await {
                    if let ToSync::Payload(op) = &m {
                        tap_log.lock().unwrap().push(op.hash, Obs::Handed { session: s });
                    }
                    if tap_tx.send(m).await.is_err() {
                        break;
                    }
                }
            }));
        }
        let (tx, rx) = mpsc::unbounded::<Msg>();
        tx.unbounded_send(Msg::Sync(LogSyncMessage::Have(BTreeMap::new())))
            .unwrap();
        tx.unbounded_send(Msg::Sync(LogSyncMessage::Done)).unwrap();
        remote_tx.push(Some(tx));
        let sink_log = log.clone();
        let end_log = log.clone();
        tasks.push(tokio::spawn(async move {
            let mut sink = RecSink {
                session: s,
                log: sink_log,
            };
            let mut stream = rx.map(Ok::<_, ()>);
            let _ = session.run(&mut sink, &mut stream).await;
            end_log.lock().unwrap().ended.insert(s);
        }));
        let ev_log = log.clone();
        tasks.push(tokio::spawn(async move {
            loop {
                match ev_rx.recv().await {
                    Ok(ev) => {
                        let mut l = ev_log.lock().unwrap();
                        l.session_events += 1;
                        match ev {
                            TopicLogSyncEvent::LiveModeStarted => {
                                l.live_started.insert(s);
                            }
                            TopicLogSyncEvent::OperationReceived { operation, .. } => {
                                l.push(operation.hash, Obs::Received { session: s });
                            }
                            _ => {}
                        }
                    }
                    Err(broadcast::error::RecvError::Lagged(_)) => {}
                    Err(broadcast::error::RecvError::Closed) => break,
                }
            }
        }));
    }

    let live_sessions: Vec<usize> = (0..n).filter(|&s| spec.live[s]).collect();
    let mut result = FlowResult {
        spec_summary: json!({
            "flow_no": spec.flow_no, "mode": if spec.mt { "mt" } else { "paused" },
            "session_topics": spec.topics, "session_live": spec.live,
            "created_before_subscribe": spec.created_before_subscribe,
            "ops": spec.n_ops, "actions": spec.actions.len(),
        }),
        nontrivial_key: None,
        violations: Vec::new(),
        more: Vec::new(),
        inconclusive: None,
        stats: BTreeMap::new(),
        sample: Value::Null,
    };

    // Barrier: every live session is in live mode (store access is over from here on).
    {
        let log = log.clone();
        let want = live_sessions.len();
        if let Err(e) = wait_until("LiveModeStarted on every live session", Duration::from_secs(60), || {
            log.lock().unwrap().live_started.len() >= want
        })
        .await
        {
            result.inconclusive = Some(e);
            return result;
        }
    }
    if !spec.mt {
        tokio::time::pause();
    }

    // Book-keeping of what was injected.
    let mut metas: BTreeMap<usize, OpMeta> = BTreeMap::new();
    let mut gone: BTreeSet<usize> = BTreeSet::new();
    let mut injected_remote = 0u64;
    let mut injected_local = 0u64;
    let mut quiesce_points = 0u64;

    macro_rules! quiesce {
        ($metas:expr) => {{
            quiesce_points += 1;
            if spec.mt {
                let log = log.clone();
                let metas_ref: Vec<(&usize, &OpMeta)> = $metas.iter().collect();
                let r = wait_until("ledger completeness", Duration::from_secs(30), || {
                    let l = log.lock().unwrap();
                    metas_ref.iter().all(|(_, m)| {
                        let obs = l.per_op.get(&m.hash).map(|v| v.as_slice()).unwrap_or(&[]);
                        let expect: Vec<usize> =
                            m.expect.iter().copied().filter(|s| !gone.contains(s)).collect();
                        let mm = OpMeta { hash: m.hash, topic: m.topic, expect };
                        incomplete(n, &mm, obs).is_none()
                    })
                })
                .await;
                r
            } else {
                tokio::time::sleep(Duration::from_millis(20)).await;
                Ok::<(), String>(())
            }
        }};
    }

    for action in &spec.actions {
        match action {
            Action::Remote { session, op } => {
                let o = &ops[*op];
                metas.entry(*op).or_insert_with(|| OpMeta {
                    hash: o.hash,
                    topic: spec.topics[*session],
                    expect: (0..n)
                        .filter(|&s| {
                            spec.topics[s] == spec.topics[*session]
                                && spec.live[s]
                                && !gone.contains(&s)
                        })
                        .collect(),
                });
                log.lock().unwrap().push(o.hash, Obs::InjectRemote { session: *session });
                if let Some(tx) = &remote_tx[*session] {
                    let _ = tx.unbounded_send(Msg::Live(o.header.clone(), o.body.clone()));
                }
                injected_remote += 1;
            }
            Action::Local { sessions, op } => {
                let o = &ops[*op];
                let t = spec.topics[sessions[0]];
                metas.entry(*op).or_insert_with(|| OpMeta {
                    hash: o.hash,
                    topic: t,
                    expect: (0..n)
                        .filter(|&s| spec.topics[s] == t && spec.live[s] && !gone.contains(&s))
                        .collect(),
                });
                for &s in sessions {
                    log.lock().unwrap().push(o.hash, Obs::InjectLocal { session: s });
                    if let Some(mut h) = manager.session_handle(s as u64).await {
                        let _ = h.send(ToSync::Payload(o.clone())).await;
                    }
                    injected_local += 1;
                }
            }
            Action::Yield(k) => {
                for _ in 0..*k {
                    tokio::task::yield_now().await;
                }
            }
            Action::Quiesce => {
                if let Err(e) = quiesce!(metas) {
                    result.inconclusive = Some(e);
                    return result;
                }
            }
            Action::Leave { session } => {
                if let Some(tx) = remote_tx[*session].take() {
                    let _ = tx.unbounded_send(Msg::Close);
                    // keep the sender alive until the session is gone
                    let log = log.clone();
                    let s = *session;
                    if spec.mt {
                        if let Err(e) = wait_until("leaving session ended", Duration::from_secs(30), || {
                            log.lock().unwrap().ended.contains(&s)
                        })
                        .await
                        {
                            result.inconclusive = Some(e);
                            return result;
                        }
                    } else {
                        tokio::time::sleep(Duration::from_millis(20)).await;
                    }
                    drop(tx);
                }
                gone.insert(*session);
            }
        }
    }

    // Final quiescence.
    let mut final_ok = quiesce!(metas);
    let mut marker_metas: BTreeMap<usize, OpMeta> = BTreeMap::new();
    if spec.mt && final_ok.is_ok() {
        // FIFO flush: one marker through every live session.
        for &s in &live_sessions {
            if gone.contains(&s) {
                continue;
            }
            let m = &markers[s];
            marker_metas.insert(s, OpMeta {
                hash: m.hash,
                topic: spec.topics[s],
                expect: (0..n)
                    .filter(|&x| spec.topics[x] == spec.topics[s] && spec.live[x] && !gone.contains(&x))
                    .collect(),
            });
            log.lock().unwrap().push(m.hash, Obs::InjectRemote { session: s });
            if let Some(tx) = &remote_tx[s] {
                let _ = tx.unbounded_send(Msg::Live(m.header.clone(), m.body.clone()));
            }
        }
        final_ok = quiesce!(marker_metas);
    }
    if !spec.mt {
        // a second, longer idle period: nothing may be left in any queue
        tokio::time::sleep(Duration::from_secs(1)).await;
    }
    if let Err(e) = final_ok {
        // In mt mode a missing forward cannot be told from a slow one: inconclusive. The safety
        // clauses are still judged below on what was observed.
        result.inconclusive = Some(e);
    }

    // Judge.
    let l = log.lock().unwrap();
    let mut per_sig: BTreeMap<String, u32> = BTreeMap::new();
    let mut received_ops = 0u64;
    let mut dup_ops = 0u64;
    let mut forwards = 0u64;
    let mut crossing = 0u64;
    for (idx, m) in metas.iter().map(|(i, m)| (*i as i64, m)).chain(
        marker_metas.iter().map(|(i, m)| (-(*i as i64) - 1, m)),
    ) {
        let obs = l.per_op.get(&m.hash).map(|v| v.as_slice()).unwrap_or(&[]);
        let c = counts(n, obs);
        if c.ev.iter().any(|&e| e > 0) {
            received_ops += 1;
        }
        let injections: u32 = c.inj_remote.iter().sum::<u32>() + c.inj_local.iter().sum::<u32>();
        if injections > 1 {
            dup_ops += 1;
        }
        if c.ev.iter().filter(|&&e| e > 0).count() > 1 {
            crossing += 1;
        }
        forwards += c.sent.iter().sum::<u32>() as u64;
        let expect: Vec<usize> = m.expect.iter().copied().filter(|s| !gone.contains(s)).collect();
        let mm = OpMeta {
            hash: m.hash,
            topic: m.topic,
            expect,
        };
        let mut found = unsafe_obs(n, &spec.topics, &mm, obs);
        if !spec.mt {
            if let Some(f) = incomplete(n, &mm, obs) {
                found.push(f);
            }
        }
        for (sig, what) in found {
            // full witnesses for the first three violations of a signature in this flow; the
            // rest is only counted (the report keeps three witnesses per signature anyway)
            let k = per_sig.entry(sig.clone()).or_insert(0u32);
            *k += 1;
            if *k > 3 {
                result.more.push((sig, what));
                continue;
            }
            result.violations.push((sig, what, json!({
                "seed": seed, "flow": result.spec_summary,
                "operation": if idx >= 0 { json!(idx) } else { json!(format!("marker-{}", -idx - 1)) },
                "operation_topic": m.topic,
                "expected_live_members": mm.expect,
                "sessions_gone": gone,
                "trace_of_this_operation_in_global_order": obs,
                "actions": spec.actions,
            })));
        }
    }
    // observations about operations nobody injected (cannot happen with an honest harness)
    let known: BTreeSet<Hash> = metas
        .values()
        .chain(marker_metas.values())
        .map(|m| m.hash)
        .collect();
    for (h, obs) in l.per_op.iter() {
        if !known.contains(h) {
            result.violations.push((
                "C23:unknown-operation-observed".into(),
                "an operation nobody injected was observed".into(),
                json!({"seed": seed, "flow": result.spec_summary, "trace": obs}),
            ));
        }
    }

    result.stats.insert("ops_injected", metas.len() as u64);
    result.stats.insert("remote_injections", injected_remote);
    result.stats.insert("local_publishes", injected_local);
    result.stats.insert("ops_accepted_by_some_session", received_ops);
    result.stats.insert("ops_injected_more_than_once", dup_ops);
    result.stats.insert("ops_accepted_by_two_or_more_sessions_concurrently", crossing);
    result.stats.insert("live_messages_sent_by_sessions", forwards);
    result.stats.insert("manager_stream_items", l.manager_items);
    result.stats.insert("session_events", l.session_events);
    result.stats.insert("quiescence_points", quiesce_points);
    result.stats.insert("sessions", n as u64);
    result.stats.insert("sessions_left", gone.len() as u64);
    result.stats.insert(if spec.mt { "flows_mt" } else { "flows_paused" }, 1);

    // non-trivial: at least one op was accepted and forwarded, and at least one duplicate arrived
    if received_ops > 0 && forwards > 0 && dup_ops > 0 && result.inconclusive.is_none() {
        let shape = vh_common::hash_of(&format!("{:?}", spec.actions));
        result.nontrivial_key = Some((spec.flow_no, shape));
    }
    if spec.flow_no < 2 {
        let first = metas.values().next();
        result.sample = json!({
            "flow": result.spec_summary,
            "first_actions": spec.actions.iter().take(12).collect::<Vec<_>>(),
            "trace_of_first_operation": first.and_then(|m| l.per_op.get(&m.hash)),
            "stats": result.stats,
        });
    }
    drop(l);

    // Teardown.
    if !spec.mt {
        tokio::time::resume();
    }
    drop(mgr_stream);
    for t in tasks {
        t.abort();
    }
    result
}

fn run_flow(seed: u64, flow_no: u64, tier: Tier, force_mt: Option<bool>) -> FlowResult {
    let spec = gen_flow(seed, flow_no, tier, force_mt);
    let rt = if spec.mt {
        tokio::runtime::Builder::new_multi_thread()
            .worker_threads(3)
            .enable_all()
            .build()
            .unwrap()
    } else {
        tokio::runtime::Builder::new_current_thread()
            .enable_all()
            .build()
            .unwrap()
    };
    let r = rt.block_on(play(&spec, seed));
    rt.shutdown_background();
    r
}

enum Job {
    Flow(FlowResult),
    Window(crate::c23w::WinResult),
}

pub fn run(args: &Args) {
    let rule = "case = one seeded multi-session live-mode flow through the real TopicSyncManager \
                (2-5 live sessions on topic A, 1-2 on topic B, optional non-live session, \
                sessions created before/after subscribe, 20-200 operations injected by remotes \
                or published locally, re-injected from other sessions with no gap / yields / \
                quiescence in between, a remote leaving); non-trivial = some operation was \
                accepted from a remote and forwarded and at least one duplicate injection \
                happened and the flow reached quiescence; distinct = distinct action schedules. \
                Second workload: one session with a window of 1-8 operations, arrivals from \
                application and remote over a small alphabet, one at a time; non-trivial = a \
                duplicate inside the window was suppressed and the window evicted at least once";
    let flows = args.n(600, 20_000);
    let mut rep = Report::new(args, rule, (flows / 2).max(20));
    let force_mt = match args.param("mode") {
        Some("mt") => Some(true),
        Some("paused") => Some(false),
        _ => None,
    };

    let next = Arc::new(AtomicU64::new(0));
    let (tx, rx) = std::sync::mpsc::channel::<Job>();
    // second workload: single sessions with small de-duplication windows (see c23w.rs)
    let windows = args.n(150, 5_000);
    let stride = ((flows + windows) / windows).max(2);
    let workers = args.param_u64("workers", 8) as usize;
    let deadline = Instant::now()
        + match args.tier {
            Tier::Quick => Duration::from_secs(80),
            Tier::Thorough => Duration::from_secs(28 * 60),
        };
    let seed = args.seed;
    let tier = args.tier;
    let mut handles = Vec::new();
    for _ in 0..workers {
        let next = next.clone();
        let tx = tx.clone();
        handles.push(std::thread::spawn(move || {
            loop {
                let i = next.fetch_add(1, Ordering::SeqCst);
                if i >= flows + windows || Instant::now() > deadline {
                    break;
                }
                // window cases are interleaved with the flows (one after every few flows)
                let r = if i % stride == stride - 1 && i / stride < windows {
                    Job::Window(crate::c23w::run_case(seed, i / stride))
                } else {
                    Job::Flow(run_flow(seed, i, tier, force_mt))
                };
                if tx.send(r).is_err() {
                    break;
                }
            }
        }));
    }
    drop(tx);

    let mut totals: BTreeMap<&'static str, u64> = BTreeMap::new();
    let mut flows_done = 0u64;
    let mut more: Vec<(String, String)> = Vec::new();
    let mut windows_done = 0u64;
    for job in rx {
        let r = match job {
            Job::Flow(r) => r,
            Job::Window(w) => {
                windows_done += 1;
                rep.case(w.key);
                for (k, v) in w.stats {
                    *totals.entry(k).or_insert(0) += v;
                }
                if let Some(t) = w.inconclusive {
                    rep.inconclusive(t);
                }
                for (sig, what, wit) in w.violations {
                    rep.violation(&sig, what, wit);
                }
                continue;
            }
        };
        flows_done += 1;
        rep.case(r.nontrivial_key);
        for (k, v) in r.stats {
            *totals.entry(k).or_insert(0) += v;
        }
        if let Some(t) = r.inconclusive {
            rep.inconclusive(t);
            *totals.entry("flows_inconclusive").or_insert(0) += 1;
        }
        if !r.sample.is_null() {
            rep.sample(r.sample);
        }
        for (sig, what, wit) in r.violations {
            rep.violation(&sig, what, wit);
        }
        more.extend(r.more);
    }
    for (sig, what) in more {
        rep.violation(&sig, what, Value::Null);
    }
    for h in handles {
        let _ = h.join();
    }
    if flows_done + windows_done < flows + windows {
        rep.inconclusive(format!(
            "time budget reached after {flows_done} flows and {windows_done} window cases of \
             {flows} + {windows}"
        ));
    }
    rep.extra("window_cases_run", json!(windows_done));
    rep.extra("flows_run", json!(flows_done));
    for (k, v) in totals {
        rep.extra(k, json!(v));
    }
    rep.extra(
        "dedup_window_note",
        json!("TopicSyncManager::session always builds sessions with the default window (1024); \
               every flow stays below 256 distinct operations, so all judged duplicates are \
               within the window"),
    );
    rep.finish(args);
}
