use vh_common::Args;
pub fn run(_args: &Args) { unimplemented!() }
