//! C23 — live-mode forwarding through the real `TopicSyncManager`.
//!
//! One flow: a real manager on a real `SqliteStore`, 2–5 live sessions on topic A, 1–2 live
//! sessions on topic B, optionally a non-live session on A; some sessions are created before
//! `subscribe()`, some after. Every session runs the real `TopicLogSync::run`; its remote end is
//! the harness (an injectable stream, a recording sink). A task drains the manager event stream
//! (which is what performs the forwarding), one task per session records the session's own
//! broadcast events. After every session reported `LiveModeStarted` a seeded schedule is played:
//! a remote sends `Live(op)` into a session, the application publishes an op through
//! `session_handle`, re-injections of earlier ops from the same or other sessions (duplicates),
//! a remote leaves with `Close`; actions are separated by nothing, a few yields, or quiescence.
//! In half of the flows 1-3 sessions join *late* (created through the manager and run only after
//! traffic has flowed, usually two on the same topic), and operations from before the join then
//! re-arrive through the remote of a late joiner; rarely a re-injection goes to the *other*
//! topic, so that the same operation lives on both topics.
//!
//! Quiescence (never a bare sleep):
//!   * `paused` flows run on a current-thread runtime whose clock is paused once live mode is
//!     reached; a virtual `sleep` then returns only when *every* task is idle, so whatever is
//!     missing afterwards will never arrive — missing forwards are decided on state.
//!   * `mt` flows run on a multi-thread runtime (real schedule diversity); quiescence is decided
//!     by counters: wait until the ledger's completeness predicate holds, then send one marker op
//!     through every session and wait for the markers — every path is FIFO, so anything still in
//!     flight arrives before the marker. A watchdog here is `inconclusive`, never a verdict.
//!
//! Ledger oracle per operation X at final quiescence (sent[s] = `Live(X)` on s's sink, ev[s] =
//! `OperationReceived(X)` on s's own channel, mgr = occurrences on the manager stream):
//!   1. sent[s] <= 1                                   (at most once per session)
//!   2. not (sent[s] >= 1 and ev[s] >= 1)              (never back to the peer it came from: a
//!      session that accepted X from its remote must not send it, and one that already sent it
//!      must drop the remote's copy; the order in the witness says which)
//!   3. sessions of another topic never send X
//!   4. per acceptance: whenever a session accepted X from its remote, every other session of
//!      that topic that was a live member at that moment (late joiners count from their join)
//!      ends up having sent X exactly once or having accepted it itself; mgr == 1 if X was
//!      accepted at all; in any case mgr <= 1
//!   5. a session whose remote sent X either accepted it or had already sent it (not swallowed)
//!   6. (mechanism level) a tap between the manager-side sender and the session's live receiver
//!      (both public fields) records what the manager side hands to session s: at most one copy
//!      per *other* session that reported X plus the local publishes to s. Without it the
//!      mutation "forward to the source session as well" is invisible on the wire, because the
//!      session's own window swallows the copy.
//! Recorded, not judged: delivery of purely local publishes, metrics, sync-phase traffic.
//! A second workload (c23w.rs) covers clause 1/2 with small windows that actually evict.

use std::collections::{BTreeMap, BTreeSet};
use std::pin::Pin;
use std::sync::atomic::{AtomicU64, Ordering};
use std::sync::{Arc, Mutex};
use std::task::{Context, Poll};
use std::time::{Duration, Instant};

use futures_channel::mpsc;
use futures_util::{Sink, SinkExt, StreamExt};
use p2panda_core::{Body, Hash, Operation, SigningKey, Topic};
use p2panda_store::SqliteStore;
use p2panda_sync::protocols::{LogSyncMessage, TopicLogSyncEvent};
use p2panda_sync::test_utils::{
    Peer, TestTopicSyncManager, TestTopicSyncMessage as Msg, create_operation,
};
use p2panda_sync::traits::{Manager, Protocol};
use p2panda_sync::{SessionConfig, ToSync};
use serde::Serialize;
use tokio::sync::broadcast;
use vh_common::{Args, Report, Rng, Tier, Value, json};

// ------------------------------------------------------------------------------------------
// Flow specification
// ------------------------------------------------------------------------------------------

#[derive(Clone, Debug, Serialize)]
enum Action {
    /// The remote of `session` sends `Live(op)`.
    Remote { session: usize, op: usize },
    /// The application publishes `op` through the handles of `sessions`.
    Local { sessions: Vec<usize>, op: usize },
    Yield(u8),
    Quiesce,
    /// The remote of `session` sends `Close`; the session ends.
    Leave { session: usize },
    /// A late joiner: the session is created through the manager and run only now, after traffic
    /// has flowed (always between two quiescence points).
    Join { session: usize },
}

#[derive(Clone, Debug, Serialize)]
struct FlowSpec {
    flow_no: u64,
    mt: bool,
    /// topic index (0 = A, 1 = B) of every session; index = session id
    topics: Vec<usize>,
    live: Vec<bool>,
    /// sessions that are created mid-flow by a `Join` action (they have the highest ids)
    late: Vec<bool>,
    /// initial sessions with id < this are created before `subscribe()`
    created_before_subscribe: usize,
    n_ops: usize,
    quick: bool,
    actions: Vec<Action>,
}

fn gen_flow(seed: u64, flow_no: u64, tier: Tier, force_mt: Option<bool>) -> FlowSpec {
    let mut rng = Rng::fork(seed, flow_no);
    let n_a = 2 + rng.usize_below(4);
    let n_b = 1 + rng.usize_below(2);
    let nonlive_a = rng.chance(0.3);
    let mut topics = Vec::new();
    let mut live = Vec::new();
    for _ in 0..n_a {
        topics.push(0);
        live.push(true);
    }
    for _ in 0..n_b {
        topics.push(1);
        live.push(true);
    }
    if nonlive_a {
        topics.push(0);
        live.push(false);
    }
    // shuffle session order so that ids of the two topics interleave
    let mut order: Vec<usize> = (0..topics.len()).collect();
    rng.shuffle(&mut order);
    let mut topics: Vec<usize> = order.iter().map(|&i| topics[i]).collect();
    let mut live: Vec<bool> = order.iter().map(|&i| live[i]).collect();
    let n_initial = topics.len();
    let created_before_subscribe = match rng.below(3) {
        0 => 0,
        1 => n_initial,
        _ => rng.usize_below(n_initial + 1),
    };
    // Late joiners (half of the flows): 1-3 live sessions that join after traffic has flowed,
    // mostly on topic A, usually at least two on the same topic so that an old operation
    // re-arriving through one late joiner has another late joiner as forwarding target.
    let mut late = vec![false; n_initial];
    if rng.chance(0.5) {
        let k = match rng.below(10) {
            0..=1 => 1,
            2..=7 => 2,
            _ => 3,
        };
        let main_topic = if rng.chance(0.8) { 0 } else { 1 };
        for i in 0..k {
            topics.push(if i < 2 || rng.chance(0.7) { main_topic } else { 1 - main_topic });
            live.push(true);
            late.push(true);
        }
    }
    let n = topics.len();
    let has_late = n > n_initial;
    let mt = force_mt.unwrap_or_else(|| rng.chance(0.25));

    let target_ops = match tier {
        Tier::Quick => 20 + rng.usize_below(60),
        Tier::Thorough => 20 + rng.usize_below(181),
    };
    let live_of = |t: usize, gone: &BTreeSet<usize>, joined: &BTreeSet<usize>| -> Vec<usize> {
        (0..n)
            .filter(|&s| {
                topics[s] == t && live[s] && !gone.contains(&s) && (!late[s] || joined.contains(&s))
            })
            .collect()
    };
    let mut actions = Vec::new();
    // topics an operation has been injected into so far
    let mut op_topics: Vec<[bool; 2]> = Vec::new();
    let mut gone: BTreeSet<usize> = BTreeSet::new();
    let mut joined: BTreeSet<usize> = BTreeSet::new();
    let leave_at = if rng.chance(0.25) && n_a >= 3 {
        Some(target_ops / 2)
    } else {
        None
    };
    let join_at = if has_late {
        Some(target_ops * (3 + rng.usize_below(4)) / 10)
    } else {
        None
    };
    // number of re-arrivals of old operations through late joiners still to schedule
    let mut rearrivals_left = 0usize;
    let dup_rate = *rng.pick(&[0.2, 0.5, 0.8]);
    let burst = rng.chance(0.3);
    let separator = |rng: &mut Rng, actions: &mut Vec<Action>| match rng.below(10) {
        0..=4 => {}
        5..=7 => actions.push(Action::Yield(1 + rng.below(3) as u8)),
        _ => actions.push(Action::Quiesce),
    };
    while op_topics.len() < target_ops {
        if Some(op_topics.len()) == leave_at && gone.is_empty() {
            let cands = live_of(0, &gone, &joined);
            let s = *rng.pick(&cands);
            actions.push(Action::Quiesce);
            actions.push(Action::Leave { session: s });
            actions.push(Action::Quiesce);
            gone.insert(s);
        }
        if Some(op_topics.len()) == join_at && joined.is_empty() && !op_topics.is_empty() {
            actions.push(Action::Quiesce);
            for s in n_initial..n {
                actions.push(Action::Join { session: s });
                joined.insert(s);
            }
            actions.push(Action::Quiesce);
            rearrivals_left = 3 + rng.usize_below(8);
        }
        // An operation from before the join re-arrives through the remote of a late joiner.
        if rearrivals_left > 0 && rng.chance(0.6) {
            rearrivals_left -= 1;
            let s = n_initial + rng.usize_below(n - n_initial);
            let t = topics[s];
            let old: Vec<usize> = (0..op_topics.len()).filter(|&o| op_topics[o][t]).collect();
            if !old.is_empty() {
                let op = *rng.pick(&old);
                actions.push(Action::Remote { session: s, op });
                if !burst || rng.chance(0.2) {
                    separator(&mut rng, &mut actions);
                }
                continue;
            }
        }
        let reinject = !op_topics.is_empty() && rng.chance(dup_rate);
        let op = if reinject {
            // mostly recent operations, sometimes any
            if rng.chance(0.7) {
                op_topics.len() - 1 - rng.usize_below(op_topics.len().min(4))
            } else {
                rng.usize_below(op_topics.len())
            }
        } else {
            let mut t = [false; 2];
            t[if rng.chance(0.8) { 0 } else { 1 }] = true;
            op_topics.push(t);
            op_topics.len() - 1
        };
        // the topic this injection goes to: one the operation already lives in, or (rarely, for
        // re-injections) the other topic — the same operation on two topics
        let own: Vec<usize> = (0..2).filter(|&t| op_topics[op][t]).collect();
        let mut t = *rng.pick(&own);
        if reinject && rng.chance(0.08) {
            t = 1 - t;
        }
        let cands = live_of(t, &gone, &joined);
        if cands.is_empty() {
            continue;
        }
        op_topics[op][t] = true;
        if rng.chance(0.75) {
            actions.push(Action::Remote {
                session: *rng.pick(&cands),
                op,
            });
        } else {
            let sessions: Vec<usize> = if rng.chance(0.7) {
                cands.clone()
            } else {
                let mut c = cands.clone();
                rng.shuffle(&mut c);
                c.truncate(1 + rng.usize_below(cands.len()));
                c
            };
            actions.push(Action::Local { sessions, op });
        }
        if !burst || rng.chance(0.2) {
            separator(&mut rng, &mut actions);
        }
    }
    FlowSpec {
        flow_no,
        mt,
        topics,
        live,
        late,
        created_before_subscribe,
        n_ops: op_topics.len(),
        quick: tier == Tier::Quick,
        actions,
    }
}

// ------------------------------------------------------------------------------------------
// Observation log
// ------------------------------------------------------------------------------------------

#[derive(Clone, Debug, Serialize)]
enum Obs {
    InjectRemote { session: usize },
    InjectLocal { session: usize },
    Sent { session: usize },
    Received { session: usize },
    Manager { session: u64 },
    /// The manager side (forwarding or `session_handle`) put the operation into the session's
    /// live channel (observed by a tap between the manager's sender and the session's receiver).
    Handed { session: usize },
}

#[derive(Default)]
struct Log {
    /// global order of everything observed about an operation
    per_op: BTreeMap<Hash, Vec<(u64, Obs)>>,
    seq: u64,
    live_started: BTreeSet<usize>,
    ended: BTreeSet<usize>,
    sync_msgs_sent: u64,
    close_msgs_sent: u64,
    manager_items: u64,
    session_events: u64,
}

impl Log {
    fn push(&mut self, h: Hash, o: Obs) {
        self.seq += 1;
        let s = self.seq;
        self.per_op.entry(h).or_default().push((s, o));
    }
}

type Shared = Arc<Mutex<Log>>;

struct RecSink {
    session: usize,
    log: Shared,
}

impl Sink<Msg> for RecSink {
    type Error = ();
    fn poll_ready(self: Pin<&mut Self>, _: &mut Context<'_>) -> Poll<Result<(), ()>> {
        Poll::Ready(Ok(()))
    }
    fn start_send(self: Pin<&mut Self>, item: Msg) -> Result<(), ()> {
        let mut l = self.log.lock().unwrap();
        match item {
            Msg::Live(header, _) => l.push(header.hash(), Obs::Sent {
                session: self.session,
            }),
            Msg::Sync(_) => l.sync_msgs_sent += 1,
            Msg::Close => l.close_msgs_sent += 1,
        }
        Ok(())
    }
    fn poll_flush(self: Pin<&mut Self>, _: &mut Context<'_>) -> Poll<Result<(), ()>> {
        Poll::Ready(Ok(()))
    }
    fn poll_close(self: Pin<&mut Self>, _: &mut Context<'_>) -> Poll<Result<(), ()>> {
        Poll::Ready(Ok(()))
    }
}

// ------------------------------------------------------------------------------------------
// The ledger predicate
// ------------------------------------------------------------------------------------------

#[derive(Default, Clone)]
struct Counts {
    inj_remote: Vec<u32>,
    inj_local: Vec<u32>,
    sent: Vec<u32>,
    ev: Vec<u32>,
    handed: Vec<u32>,
    mgr: u32,
}

fn counts(n: usize, obs: &[(u64, Obs)]) -> Counts {
    let mut c = Counts {
        inj_remote: vec![0; n],
        inj_local: vec![0; n],
        sent: vec![0; n],
        ev: vec![0; n],
        handed: vec![0; n],
        mgr: 0,
    };
    for (_, o) in obs {
        match o {
            Obs::InjectRemote { session } => c.inj_remote[*session] += 1,
            Obs::InjectLocal { session } => c.inj_local[*session] += 1,
            Obs::Sent { session } => c.sent[*session] += 1,
            Obs::Received { session } => c.ev[*session] += 1,
            Obs::Manager { .. } => c.mgr += 1,
            Obs::Handed { session } => c.handed[*session] += 1,
        }
    }
    c
}

/// Who is a member of what, and since when.
struct Env<'a> {
    n: usize,
    topics: &'a [usize],
    live: &'a [bool],
    /// global observation sequence number from which the session is a live member of its topic
    /// (0 for initial sessions, `u64::MAX` for a late joiner that has not joined yet)
    join_seq: &'a [u64],
    gone: &'a BTreeSet<usize>,
}

/// Liveness clauses (4, 5). `None` = complete.
///
/// Clause 4 is evaluated per acceptance: whenever a session reported the operation, every other
/// session of that topic that was a live member *at that moment* (late joiners count from their
/// join on) must end up having sent it to its remote or having accepted it from its remote.
fn incomplete(env: &Env, obs: &[(u64, Obs)]) -> Option<(String, String)> {
    let c = counts(env.n, obs);
    for (_, o) in obs {
        if let Obs::InjectRemote { session: s } = o {
            if !env.gone.contains(s) && c.sent[*s] + c.ev[*s] == 0 {
                return Some((
                    "C23:received-op-swallowed".into(),
                    format!(
                        "the remote of session {s} sent the operation; the session neither \
                         reported it nor had sent it before"
                    ),
                ));
            }
        }
    }
    let mut accepted = false;
    for (q, o) in obs {
        let Obs::Received { session: src } = o else {
            continue;
        };
        accepted = true;
        for s in 0..env.n {
            if s != *src
                && env.topics[s] == env.topics[*src]
                && env.live[s]
                && env.join_seq[s] < *q
                && !env.gone.contains(&s)
                && c.ev[s] == 0
                && c.sent[s] == 0
            {
                return Some((
                    "C23:not-forwarded-to-live-session".into(),
                    format!(
                        "session {src} accepted the operation from its remote (observation #{q}) \
                         while session {s} was a live member of the same topic (since #{}), but \
                         session {s} never sent it to its remote",
                        env.join_seq[s]
                    ),
                ));
            }
        }
    }
    if accepted && c.mgr == 0 {
        return Some((
            "C23:manager-stream-never-reported".into(),
            "the operation was received by a session but never appeared on the manager event \
             stream"
                .into(),
        ));
    }
    None
}

/// Safety clauses (1, 2, 3, 6, mgr <= 1).
fn unsafe_obs(env: &Env, obs: &[(u64, Obs)]) -> Vec<(String, String)> {
    let n = env.n;
    let topics = env.topics;
    let c = counts(n, obs);
    // topics the operation was injected into
    let mut op_topics = [false; 2];
    for (_, o) in obs {
        if let Obs::InjectRemote { session } | Obs::InjectLocal { session } = o {
            op_topics[topics[*session]] = true;
        }
    }
    let mut v = Vec::new();
    for s in 0..n {
        if !op_topics[topics[s]] && c.sent[s] > 0 {
            v.push((
                "C23:forwarded-across-topics".into(),
                format!(
                    "session {s} belongs to a topic the operation never arrived on and sent the \
                     operation"
                ),
            ));
            continue;
        }
        if c.sent[s] > 1 {
            v.push((
                "C23:sent-more-than-once".into(),
                format!(
                    "session {s} sent the operation {} times within its de-duplication window",
                    c.sent[s]
                ),
            ));
        }
        if c.sent[s] >= 1 && c.ev[s] >= 1 {
            let first_sent = obs
                .iter()
                .find(|(_, o)| matches!(o, Obs::Sent { session } if *session == s))
                .map(|(q, _)| *q)
                .unwrap();
            let first_ev = obs
                .iter()
                .find(|(_, o)| matches!(o, Obs::Received { session } if *session == s))
                .map(|(q, _)| *q)
                .unwrap();
            if first_ev < first_sent {
                v.push((
                    "C23:sent-back-to-source-peer".into(),
                    format!(
                        "session {s} accepted the operation from its remote and afterwards sent \
                         it to that same remote"
                    ),
                ));
            } else {
                v.push((
                    "C23:accepted-after-sending".into(),
                    format!(
                        "session {s} had already sent the operation to its remote and still \
                         reported the remote's copy as newly received"
                    ),
                ));
            }
        }
        if c.ev[s] > 1 {
            v.push((
                "C23:session-reported-twice".into(),
                format!("session {s} reported the operation {} times", c.ev[s]),
            ));
        }
    }
    // Clause 6 (mechanism level, see module docs): what the manager side hands to session s is at
    // most one copy per *other* session of its topic that reported the operation, plus local
    // publishes to s.
    for s in 0..n {
        let others: u32 = (0..n)
            .filter(|&x| x != s && topics[x] == topics[s])
            .map(|x| c.ev[x])
            .sum();
        if c.handed[s] > others + c.inj_local[s] {
            v.push((
                "C23:manager-handed-op-back-to-reporting-session".into(),
                format!(
                    "session {s} was handed the operation {} times by the manager side, but only \
                     {others} reports by other sessions of its topic and {} local publishes \
                     account for it",
                    c.handed[s], c.inj_local[s]
                ),
            ));
        }
    }
    if c.mgr > 1 {
        v.push((
            "C23:manager-stream-reported-twice".into(),
            format!("the manager event stream yielded the operation {} times", c.mgr),
        ));
    }
    v
}

// ------------------------------------------------------------------------------------------
// Running one flow
// ------------------------------------------------------------------------------------------

struct FlowResult {
    spec_summary: Value,
    nontrivial_key: Option<(u64, u64)>,
    violations: Vec<(String, String, Value)>,
    /// further violations of this flow, counted without a witness
    more: Vec<(String, String)>,
    inconclusive: Option<String>,
    stats: BTreeMap<&'static str, u64>,
    sample: Value,
}

fn make_ops(rng: &mut Rng, n: usize, tag: &str) -> Vec<Operation<usize>> {
    // a handful of authors, each with its own log
    let authors: Vec<SigningKey> = (0..3)
        .map(|_| SigningKey::from_bytes(&rng.array32()))
        .collect();
    let mut next: Vec<(u32, Option<Hash>)> = vec![(0, None); authors.len()];
    (0..n)
        .map(|i| {
            let a = rng.usize_below(authors.len());
            let body = Body::new(format!("{tag}-{i}").as_bytes());
            let (seq, backlink) = next[a];
            let (header, _) = create_operation(&authors[a], &body, seq, backlink, a);
            next[a] = (seq + 1, Some(header.hash()));
            Operation {
                hash: header.hash(),
                header,
                body: Some(body),
            }
        })
        .collect()
}

async fn wait_until(
    what: &str,
    limit: Duration,
    mut cond: impl FnMut() -> bool,
) -> Result<(), String> {
    let start = Instant::now();
    let mut spins = 0u32;
    while !cond() {
        if start.elapsed() > limit {
            return Err(format!("watchdog: {what} not reached within {limit:?}"));
        }
        spins += 1;
        if spins < 50 {
            tokio::task::yield_now().await;
        } else {
            tokio::time::sleep(Duration::from_micros(300)).await;
        }
    }
    Ok(())
}

/// Create session `s` through the manager, tap its live channel, run it against a harness-owned
/// remote end and record its events. Returns the sender that plays the remote.
async fn start_session(
    manager: &mut TestTopicSyncManager,
    s: usize,
    topic: Topic,
    live_mode: bool,
    remote_key: &SigningKey,
    log: &Shared,
    tasks: &mut Vec<tokio::task::JoinHandle<()>>,
) -> mpsc::UnboundedSender<Msg> {
    let config = SessionConfig {
        topic,
        remote: remote_key.verifying_key(),
        live_mode,
    };
    let mut session = manager.session(s as u64, &config).await;
    let mut ev_rx = session.event_tx.subscribe();
    // Tap between the manager-side sender and the session's live receiver (both are public
    // fields): records what the manager side hands to this session, keeps FIFO order.
    if let Some(mut orig_rx) = session.live_mode_rx.take() {
        let (mut tap_tx, tap_rx) = mpsc::channel(1028);
        session.live_mode_rx = Some(tap_rx);
        let tap_log = log.clone();
        tasks.push(tokio::spawn(async move {
            while let Some(m) = orig_rx.next().await {
                if let ToSync::Payload(op) = &m {
                    tap_log
                        .lock()
                        .unwrap()
                        .push(op.hash, Obs::Handed { session: s });
                }
                if tap_tx.send(m).await.is_err() {
                    break;
                }
            }
        }));
    }
    let (tx, rx) = mpsc::unbounded::<Msg>();
    tx.unbounded_send(Msg::Sync(LogSyncMessage::Have(BTreeMap::new())))
        .unwrap();
    tx.unbounded_send(Msg::Sync(LogSyncMessage::Done)).unwrap();
    let sink_log = log.clone();
    let end_log = log.clone();
    tasks.push(tokio::spawn(async move {
        let mut sink = RecSink {
            session: s,
            log: sink_log,
        };
        let mut stream = rx.map(Ok::<_, ()>);
        let _ = session.run(&mut sink, &mut stream).await;
        end_log.lock().unwrap().ended.insert(s);
    }));
    let ev_log = log.clone();
    tasks.push(tokio::spawn(async move {
        loop {
            match ev_rx.recv().await {
                Ok(ev) => {
                    let mut l = ev_log.lock().unwrap();
                    l.session_events += 1;
                    match ev {
                        TopicLogSyncEvent::LiveModeStarted => {
                            l.live_started.insert(s);
                        }
                        TopicLogSyncEvent::OperationReceived { operation, .. } => {
                            l.push(operation.hash, Obs::Received { session: s });
                        }
                        _ => {}
                    }
                }
                Err(broadcast::error::RecvError::Lagged(_)) => {}
                Err(broadcast::error::RecvError::Closed) => break,
            }
        }
    }));
    tx
}

async fn play(spec: &FlowSpec, seed: u64) -> FlowResult {
    let n = spec.topics.len();
    let n_initial = spec.late.iter().filter(|l| !**l).count();
    let mut rng = Rng::fork(seed ^ 0x0c23_0c23, spec.flow_no);
    let mut peer = Peer {
        store: SqliteStore::temporary().await,
        signing_key: SigningKey::from_bytes(&rng.array32()),
    };
    let topic_ids = [Topic::from(rng.array32()), Topic::from(rng.array32())];
    for t in &topic_ids {
        peer.associate(t, &BTreeMap::new()).await;
    }
    let ops = make_ops(&mut rng, spec.n_ops, "op");
    let markers = make_ops(&mut rng, n, "marker");
    let remote_keys: Vec<SigningKey> = (0..n)
        .map(|_| SigningKey::from_bytes(&rng.array32()))
        .collect();

    let log: Shared = Default::default();
    let mut manager = TestTopicSyncManager::new(peer.store.clone());
    let mut remote_tx: Vec<Option<mpsc::UnboundedSender<Msg>>> = (0..n).map(|_| None).collect();
    let mut tasks = Vec::new();
    let mut mgr_stream = None;

    for s in 0..=n_initial {
        if s == spec.created_before_subscribe {
            let mut stream = manager.subscribe();
            let log = log.clone();
            let (tx, rx) = tokio::sync::oneshot::channel::<()>();
            mgr_stream = Some(tx);
            tasks.push(tokio::spawn(async move {
                let mut rx = rx;
                loop {
                    tokio::select! {
                        item = stream.next() => {
                            let Some(item) = item else { break };
                            let mut l = log.lock().unwrap();
                            l.manager_items += 1;
                            if let TopicLogSyncEvent::OperationReceived { operation, .. } = &item.event {
                                l.push(operation.hash, Obs::Manager { session: item.session_id });
                            }
                        }
                        _ = &mut rx => break,
                    }
                }
            }));
        }
        if s == n_initial {
            break;
        }
        let tx = start_session(
            &mut manager,
            s,
            topic_ids[spec.topics[s]],
            spec.live[s],
            &remote_keys[s],
            &log,
            &mut tasks,
        )
        .await;
        remote_tx[s] = Some(tx);
    }

    let mut result = FlowResult {
        spec_summary: json!({
            "flow_no": spec.flow_no, "mode": if spec.mt { "mt" } else { "paused" },
            "session_topics": spec.topics, "session_live": spec.live,
            "session_joins_late": spec.late,
            "created_before_subscribe": spec.created_before_subscribe,
            "ops": spec.n_ops, "actions": spec.actions.len(),
        }),
        nontrivial_key: None,
        violations: Vec::new(),
        more: Vec::new(),
        inconclusive: None,
        stats: BTreeMap::new(),
        sample: Value::Null,
    };

    // Barrier: every initial live session is in live mode (store access is over from here on).
    {
        let log = log.clone();
        let want = (0..n_initial).filter(|&s| spec.live[s]).count();
        if let Err(e) = wait_until(
            "LiveModeStarted on every live session",
            Duration::from_secs(60),
            || log.lock().unwrap().live_started.len() >= want,
        )
        .await
        {
            result.inconclusive = Some(e);
            return result;
        }
    }
    if !spec.mt {
        tokio::time::pause();
    }

    // Book-keeping of what was injected and who is a member since when.
    let mut metas: BTreeMap<usize, Hash> = BTreeMap::new();
    let mut gone: BTreeSet<usize> = BTreeSet::new();
    let mut join_seq: Vec<u64> = (0..n)
        .map(|s| if spec.late[s] { u64::MAX } else { 0 })
        .collect();
    let mut injected_remote = 0u64;
    let mut injected_local = 0u64;
    let mut quiesce_points = 0u64;

    // mt flows only: how long to wait for the completeness counters before giving up as
    // inconclusive (a broken tree makes every mt flow wait this long, so keep it short in quick)
    let mt_watchdog = Duration::from_secs(if spec.quick { 10 } else { 30 });

    macro_rules! quiesce {
        ($hashes:expr) => {{
            quiesce_points += 1;
            if spec.mt {
                let log = log.clone();
                let hashes: Vec<Hash> = $hashes;
                let env = Env {
                    n,
                    topics: &spec.topics,
                    live: &spec.live,
                    join_seq: &join_seq,
                    gone: &gone,
                };
                wait_until("ledger completeness", mt_watchdog, || {
                    let l = log.lock().unwrap();
                    hashes.iter().all(|h| {
                        let obs = l.per_op.get(h).map(|v| v.as_slice()).unwrap_or(&[]);
                        incomplete(&env, obs).is_none()
                    })
                })
                .await
            } else {
                tokio::time::sleep(Duration::from_millis(20)).await;
                Ok::<(), String>(())
            }
        }};
    }

    for action in &spec.actions {
        match action {
            Action::Remote { session, op } => {
                let o = &ops[*op];
                metas.entry(*op).or_insert(o.hash);
                log.lock()
                    .unwrap()
                    .push(o.hash, Obs::InjectRemote { session: *session });
                if let Some(tx) = &remote_tx[*session] {
                    let _ = tx.unbounded_send(Msg::Live(o.header.clone(), o.body.clone()));
                }
                injected_remote += 1;
            }
            Action::Local { sessions, op } => {
                let o = &ops[*op];
                metas.entry(*op).or_insert(o.hash);
                for &s in sessions {
                    log.lock()
                        .unwrap()
                        .push(o.hash, Obs::InjectLocal { session: s });
                    if let Some(mut h) = manager.session_handle(s as u64).await {
                        let _ = h.send(ToSync::Payload(o.clone())).await;
                    }
                    injected_local += 1;
                }
            }
            Action::Yield(k) => {
                for _ in 0..*k {
                    tokio::task::yield_now().await;
                }
            }
            Action::Quiesce => {
                if let Err(e) = quiesce!(metas.values().copied().collect()) {
                    result.inconclusive = Some(e);
                    return result;
                }
            }
            Action::Leave { session } => {
                if let Some(tx) = remote_tx[*session].take() {
                    let _ = tx.unbounded_send(Msg::Close);
                    // keep the sender alive until the session is gone
                    let log = log.clone();
                    let s = *session;
                    if spec.mt {
                        if let Err(e) =
                            wait_until("leaving session ended", Duration::from_secs(30), || {
                                log.lock().unwrap().ended.contains(&s)
                            })
                            .await
                        {
                            result.inconclusive = Some(e);
                            return result;
                        }
                    } else {
                        tokio::time::sleep(Duration::from_millis(20)).await;
                    }
                    drop(tx);
                }
                gone.insert(*session);
            }
            Action::Join { session } => {
                // The sync phase of the new session talks to SQLite: real clock while it joins.
                // The generator puts a quiescence point before and after every join, so nothing
                // is in flight while membership changes.
                let s = *session;
                if !spec.mt {
                    tokio::time::resume();
                }
                let tx = start_session(
                    &mut manager,
                    s,
                    topic_ids[spec.topics[s]],
                    spec.live[s],
                    &remote_keys[s],
                    &log,
                    &mut tasks,
                )
                .await;
                remote_tx[s] = Some(tx);
                let wlog = log.clone();
                let joined = wait_until(
                    "LiveModeStarted on a late joiner",
                    Duration::from_secs(60),
                    || wlog.lock().unwrap().live_started.contains(&s),
                )
                .await;
                if !spec.mt {
                    tokio::time::pause();
                    tokio::time::sleep(Duration::from_millis(20)).await;
                }
                if let Err(e) = joined {
                    result.inconclusive = Some(e);
                    return result;
                }
                join_seq[s] = log.lock().unwrap().seq;
            }
        }
    }

    // Final quiescence.
    let mut final_ok = quiesce!(metas.values().copied().collect());
    let mut marker_metas: BTreeMap<usize, Hash> = BTreeMap::new();
    if spec.mt && final_ok.is_ok() {
        // FIFO flush: one marker through every live session.
        for s in 0..n {
            if !spec.live[s] || gone.contains(&s) || join_seq[s] == u64::MAX {
                continue;
            }
            let m = &markers[s];
            marker_metas.insert(s, m.hash);
            log.lock()
                .unwrap()
                .push(m.hash, Obs::InjectRemote { session: s });
            if let Some(tx) = &remote_tx[s] {
                let _ = tx.unbounded_send(Msg::Live(m.header.clone(), m.body.clone()));
            }
        }
        final_ok = quiesce!(marker_metas.values().copied().collect());
    }
    if !spec.mt {
        // a second, longer idle period: nothing may be left in any queue
        tokio::time::sleep(Duration::from_secs(1)).await;
    }
    if let Err(e) = final_ok {
        // In mt mode a missing forward cannot be told from a slow one: inconclusive. The safety
        // clauses are still judged below on what was observed.
        result.inconclusive = Some(e);
    }

    // Judge.
    let l = log.lock().unwrap();
    let env = Env {
        n,
        topics: &spec.topics,
        live: &spec.live,
        join_seq: &join_seq,
        gone: &gone,
    };
    let mut per_sig: BTreeMap<String, u32> = BTreeMap::new();
    let mut received_ops = 0u64;
    let mut dup_ops = 0u64;
    let mut forwards = 0u64;
    let mut crossing = 0u64;
    let mut late_rearrivals = 0u64;
    let mut two_topic_ops = 0u64;
    for (idx, h) in metas
        .iter()
        .map(|(i, h)| (*i as i64, h))
        .chain(marker_metas.iter().map(|(i, h)| (-(*i as i64) - 1, h)))
    {
        let obs = l.per_op.get(h).map(|v| v.as_slice()).unwrap_or(&[]);
        let c = counts(n, obs);
        if c.ev.iter().any(|&e| e > 0) {
            received_ops += 1;
        }
        let injections: u32 = c.inj_remote.iter().sum::<u32>() + c.inj_local.iter().sum::<u32>();
        if injections > 1 {
            dup_ops += 1;
        }
        if c.ev.iter().filter(|&&e| e > 0).count() > 1 {
            crossing += 1;
        }
        // an operation some session accepted before the join is accepted again by a late joiner
        let first_ev = obs
            .iter()
            .find(|(_, o)| matches!(o, Obs::Received { .. }))
            .map(|(q, _)| *q);
        if let Some(q0) = first_ev {
            if (0..n).any(|s| spec.late[s] && c.ev[s] > 0 && join_seq[s] != u64::MAX && q0 < join_seq[s])
            {
                late_rearrivals += 1;
            }
        }
        let mut on = [false; 2];
        for (_, o) in obs {
            if let Obs::Received { session } = o {
                on[spec.topics[*session]] = true;
            }
        }
        if on[0] && on[1] {
            two_topic_ops += 1;
        }
        forwards += c.sent.iter().sum::<u32>() as u64;
        let mut found = unsafe_obs(&env, obs);
        if !spec.mt {
            if let Some(f) = incomplete(&env, obs) {
                found.push(f);
            }
        }
        for (sig, what) in found {
            // full witnesses for the first three violations of a signature in this flow; the
            // rest is only counted (the report keeps three witnesses per signature anyway)
            let k = per_sig.entry(sig.clone()).or_insert(0u32);
            *k += 1;
            if *k > 3 {
                result.more.push((sig, what));
                continue;
            }
            result.violations.push((
                sig,
                what,
                json!({
                    "seed": seed, "flow": result.spec_summary,
                    "operation": if idx >= 0 { json!(idx) } else { json!(format!("marker-{}", -idx - 1)) },
                    "session_member_since_observation": join_seq,
                    "sessions_gone": gone,
                    "trace_of_this_operation_in_global_order": obs,
                    "actions": spec.actions,
                }),
            ));
        }
    }
    // observations about operations nobody injected (cannot happen with an honest harness)
    let known: BTreeSet<Hash> = metas
        .values()
        .chain(marker_metas.values())
        .copied()
        .collect();
    for (h, obs) in l.per_op.iter() {
        if !known.contains(h) {
            result.violations.push((
                "C23:unknown-operation-observed".into(),
                "an operation nobody injected was observed".into(),
                json!({"seed": seed, "flow": result.spec_summary, "trace": obs}),
            ));
        }
    }

    let late_joined = (0..n).filter(|&s| spec.late[s] && join_seq[s] != u64::MAX).count();
    result.stats.insert("ops_injected", metas.len() as u64);
    result.stats.insert("remote_injections", injected_remote);
    result.stats.insert("local_publishes", injected_local);
    result.stats.insert("ops_accepted_by_some_session", received_ops);
    result.stats.insert("ops_injected_more_than_once", dup_ops);
    result.stats.insert("ops_accepted_by_two_or_more_sessions", crossing);
    result.stats.insert("old_ops_accepted_again_through_a_late_joiner", late_rearrivals);
    result.stats.insert("ops_accepted_on_both_topics", two_topic_ops);
    result.stats.insert("live_messages_sent_by_sessions", forwards);
    result.stats.insert("manager_stream_items", l.manager_items);
    result.stats.insert("session_events", l.session_events);
    result.stats.insert("quiescence_points", quiesce_points);
    result.stats.insert("sessions", n as u64);
    result.stats.insert("sessions_left", gone.len() as u64);
    result.stats.insert("sessions_joined_late", late_joined as u64);
    result.stats.insert("flows_with_late_joiners", (late_joined > 0) as u64);
    result.stats.insert(if spec.mt { "flows_mt" } else { "flows_paused" }, 1);

    // non-trivial: at least one op was accepted and forwarded, and at least one duplicate arrived
    if received_ops > 0 && forwards > 0 && dup_ops > 0 && result.inconclusive.is_none() {
        let shape = vh_common::hash_of(&format!("{:?}", spec.actions));
        result.nontrivial_key = Some((spec.flow_no, shape));
    }
    if spec.flow_no < 2 {
        let first = metas.values().next();
        result.sample = json!({
            "flow": result.spec_summary,
            "first_actions": spec.actions.iter().take(12).collect::<Vec<_>>(),
            "trace_of_first_operation": first.and_then(|h| l.per_op.get(h)),
            "stats": result.stats,
        });
    }
    drop(l);

    // Teardown.
    if !spec.mt {
        tokio::time::resume();
    }
    drop(mgr_stream);
    for t in tasks {
        t.abort();
    }
    result
}

fn run_flow(seed: u64, flow_no: u64, tier: Tier, force_mt: Option<bool>) -> FlowResult {
    let spec = gen_flow(seed, flow_no, tier, force_mt);
    let rt = if spec.mt {
        tokio::runtime::Builder::new_multi_thread()
            .worker_threads(3)
            .enable_all()
            .build()
            .unwrap()
    } else {
        tokio::runtime::Builder::new_current_thread()
            .enable_all()
            .build()
            .unwrap()
    };
    let r = rt.block_on(play(&spec, seed));
    rt.shutdown_background();
    r
}

enum Job {
    Flow(FlowResult),
    Window(crate::c23w::WinResult),
}

pub fn run(args: &Args) {
    let rule = "case = one seeded multi-session live-mode flow through the real TopicSyncManager \
                (2-5 live sessions on topic A, 1-2 on topic B, optional non-live session, \
                sessions created before/after subscribe, 20-200 operations injected by remotes \
                or published locally, re-injected from other sessions with no gap / yields / \
                quiescence in between, a remote leaving, sessions joining late with old operations \
                re-arriving through them, an operation arriving on both topics); non-trivial = some operation was \
                accepted from a remote and forwarded and at least one duplicate injection \
                happened and the flow reached quiescence; distinct = distinct action schedules. \
                Second workload: one session with a window of 1-8 operations, arrivals from \
                application and remote over a small alphabet, one at a time; non-trivial = a \
                duplicate inside the window was suppressed and the window evicted at least once";
    let flows = args.n(600, 20_000);
    let mut rep = Report::new(args, rule, (flows / 2).max(20));
    let force_mt = match args.param("mode") {
        Some("mt") => Some(true),
        Some("paused") => Some(false),
        _ => None,
    };

    let next = Arc::new(AtomicU64::new(0));
    let (tx, rx) = std::sync::mpsc::channel::<Job>();
    // second workload: single sessions with small de-duplication windows (see c23w.rs)
    let windows = args.n(150, 5_000);
    let stride = ((flows + windows) / windows).max(2);
    let workers = args.param_u64("workers", 8) as usize;
    let deadline = Instant::now()
        + match args.tier {
            Tier::Quick => Duration::from_secs(55),
            Tier::Thorough => Duration::from_secs(28 * 60),
        };
    let seed = args.seed;
    let tier = args.tier;
    let mut handles = Vec::new();
    for _ in 0..workers {
        let next = next.clone();
        let tx = tx.clone();
        handles.push(std::thread::spawn(move || {
            loop {
                let i = next.fetch_add(1, Ordering::SeqCst);
                if i >= flows + windows || Instant::now() > deadline {
                    break;
                }
                // window cases are interleaved with the flows (one after every few flows)
                let r = if i % stride == stride - 1 && i / stride < windows {
                    Job::Window(crate::c23w::run_case(seed, i / stride))
                } else {
                    Job::Flow(run_flow(seed, i, tier, force_mt))
                };
                if tx.send(r).is_err() {
                    break;
                }
            }
        }));
    }
    drop(tx);

    let mut totals: BTreeMap<&'static str, u64> = BTreeMap::new();
    let mut flows_done = 0u64;
    let mut more: Vec<(String, String)> = Vec::new();
    let mut windows_done = 0u64;
    for job in rx {
        let r = match job {
            Job::Flow(r) => r,
            Job::Window(w) => {
                windows_done += 1;
                rep.case(w.key);
                for (k, v) in w.stats {
                    *totals.entry(k).or_insert(0) += v;
                }
                if let Some(t) = w.inconclusive {
                    rep.inconclusive(t);
                }
                for (sig, what, wit) in w.violations {
                    rep.violation(&sig, what, wit);
                }
                continue;
            }
        };
        flows_done += 1;
        rep.case(r.nontrivial_key);
        for (k, v) in r.stats {
            *totals.entry(k).or_insert(0) += v;
        }
        if let Some(t) = r.inconclusive {
            rep.inconclusive(t);
            *totals.entry("flows_inconclusive").or_insert(0) += 1;
        }
        if !r.sample.is_null() {
            rep.sample(r.sample);
        }
        for (sig, what, wit) in r.violations {
            rep.violation(&sig, what, wit);
        }
        more.extend(r.more);
    }
    for (sig, what) in more {
        rep.violation(&sig, what, Value::Null);
    }
    for h in handles {
        let _ = h.join();
    }
    if flows_done + windows_done < flows + windows {
        rep.inconclusive(format!(
            "time budget reached after {flows_done} flows and {windows_done} window cases of \
             {flows} + {windows}"
        ));
    }
    rep.extra("window_cases_run", json!(windows_done));
    rep.extra("flows_run", json!(flows_done));
    for (k, v) in totals {
        rep.extra(k, json!(v));
    }
    rep.extra(
        "dedup_window_note",
        json!("TopicSyncManager::session always builds sessions with the default window (1024); \
               every flow stays below 256 distinct operations, so all judged duplicates are \
               within the window"),
    );
    rep.finish(args);
}
