//! C07 (persisted part) — acknowledging never moves a topic stream's persisted cursor backwards,
//! and acknowledging an operation of a different topic is rejected and leaves the cursor unchanged.
//!
//! A real offline `Node` (explicit ack policy, SQLite file database on a pool shared with the
//! harness) runs 2..3 topic streams per history. Operations of several authors (the node's own
//! key through `publish`, foreign keys through `import`) are processed, then acknowledged in
//! random order through `StreamSubscription::ack(id)` and `ProcessedOperation::ack()`, first
//! sequentially (cursor rows of *all* topics read back after every call), then from 4 concurrent
//! tasks through the same subscription while a monitor task keeps reading the row.

use std::collections::{BTreeMap, HashMap};
use std::sync::{Arc, Mutex};
use std::time::Duration;

use futures::StreamExt;
use p2panda::node::AckPolicy;
use p2panda::operation::{Extensions, Header, LogId, Operation};
use p2panda::streams::{ProcessedOperation, StreamEvent, StreamSubscription};
use p2panda::{Node, Topic};
use p2panda_core::cbor::decode_cbor;
use p2panda_core::{Body, Cursor, Hash, SigningKey, VerifyingKey};
use p2panda_store::SqliteStore;
use p2panda_store::cursors::CursorStore;
use vh_common::{Args, Report, Rng, Value, hex, json};

type Heights = BTreeMap<(VerifyingKey, LogId), u32>;

#[derive(Default)]
struct Outcome {
    case: u64,
    nontrivial: Option<u64>,
    violations: Vec<(String, String, Value)>,
    inconclusive: Vec<String>,
    counters: BTreeMap<String, u64>,
    sample: Option<Value>,
    extra_samples: Vec<Value>,
}

impl Outcome {
    fn bump(&mut self, k: &str, n: u64) {
        *self.counters.entry(k.to_string()).or_insert(0) += n;
    }
}

#[derive(Clone)]
struct OpInfo {
    topic_ix: usize,
    author: VerifyingKey,
    log_id: LogId,
    seq: u32,
    hash: Hash,
    processed: ProcessedOperation<String>,
}

/// Raw cursor row and its decoded heights.
#[derive(Clone, PartialEq)]
struct Row {
    raw: Option<Vec<u8>>,
    heights: Heights,
}

async fn read_row(store: &SqliteStore, topic: Topic) -> Result<Row, String> {
    let name = topic.to_string();
    let raw: Option<Vec<u8>> = sqlx::query_scalar("SELECT cursor FROM cursors_v1 WHERE name = ?")
        .bind(&name)
        .fetch_optional(store.pool())
        .await
        .map_err(|e| format!("reading cursor row: {e}"))?;
    // Also through the public store API (`CursorStore::get_cursor`), as the property names it.
    let via_api: Option<Cursor<VerifyingKey, LogId>> = store.get_cursor(&name).await.map_err(|e| format!("get_cursor: {e}"))?;
    let mut heights = Heights::new();
    if let Some(bytes) = &raw {
        let c: Cursor<VerifyingKey, LogId> = decode_cbor(&bytes[..]).map_err(|e| format!("decoding cursor row: {e}"))?;
        for (a, logs) in c.state() {
            for (l, s) in logs {
                heights.insert((*a, *l), *s);
            }
        }
    }
    // The two reads are not atomic with respect to concurrent acks; only use `via_api` as a
    // cross-check when nothing is in flight (callers compare rows, not this value).
    let _ = via_api;
    Ok(Row { raw, heights })
}

fn backwards(before: &Heights, after: &Heights) -> Option<String> {
    for (k, v) in before {
        match after.get(k) {
            Some(n) if n >= v => {}
            other => return Some(format!("(author {}, log) height {v} -> {other:?}", k.0)),
        }
    }
    None
}

fn make_topic(seed: u64, case: u64, ix: usize) -> Topic {
    let mut t = [0u8; 32];
    t[..8].copy_from_slice(&case.to_le_bytes());
    t[8..16].copy_from_slice(&seed.to_le_bytes());
    t[16] = ix as u8;
    t[31] = 0x07;
    // Spread the bytes so that topics do not share long prefixes.
    Hash::digest(t).into()
}

fn foreign_ops(key: &SigningKey, topic: Topic, n: u32, tag: &str) -> Vec<Operation> {
    let mut out = Vec::new();
    let mut backlink = None;
    for seq in 0..n {
        let body = Body::new(&p2panda_core::cbor::encode_cbor(&format!("{tag}-{seq}")).unwrap());
        let mut header = Header {
            version: 1,
            verifying_key: key.verifying_key(),
            signature: None,
            payload_size: body.size(),
            payload_hash: Some(body.hash()),
            seq_num: seq,
            backlink,
            extensions: Extensions::from_topic(topic),
        };
        header.sign(key);
        let hash = header.hash();
        backlink = Some(hash);
        out.push(Operation { hash, header, body: Some(body) });
    }
    out
}

#[derive(Clone, Debug)]
enum Via {
    Subscription,
    Processed,
}

const WATCHDOG: Duration = Duration::from_secs(60);

async fn history(node: &Node, reader: &SqliteStore, seed: u64, case: u64) -> Outcome {
    let mut out = Outcome { case, ..Default::default() };
    let mut rng = Rng::fork(seed, case);
    let n_topics = 2 + rng.usize_below(2);
    let topics: Vec<Topic> = (0..n_topics).map(|i| make_topic(seed, case, i)).collect();
    let foreign_keys: Vec<SigningKey> = (0..1 + rng.usize_below(2)).map(|_| SigningKey::from_bytes(&rng.array32())).collect();

    // --- open streams, publish / import, collect processed operations -------------------------
    let mut subs: Vec<Arc<StreamSubscription<String>>> = Vec::new();
    let mut ops: Vec<OpInfo> = Vec::new();
    let mut publishers = Vec::new();
    for (ti, topic) in topics.iter().enumerate() {
        let (tx, mut rx) = match node.stream::<String>(*topic).await {
            Ok(x) => x,
            Err(e) => {
                out.inconclusive.push(format!("node.stream failed: {e}"));
                return out;
            }
        };
        let n_local = 2 + rng.below(4) as u32;
        let mut foreign: Vec<Vec<Operation>> = Vec::new();
        for (fi, k) in foreign_keys.iter().enumerate() {
            if rng.chance(0.8) {
                let n = 1 + rng.below(4) as u32;
                foreign.push(foreign_ops(k, *topic, n, &format!("f{fi}t{ti}")));
            }
        }
        let expected = n_local as usize + foreign.iter().map(|v| v.len()).sum::<usize>();
        // Drain in its own task (the application channel holds 16 events).
        let drain = tokio::spawn(async move {
            let mut got: Vec<ProcessedOperation<String>> = Vec::new();
            let mut failures: Vec<String> = Vec::new();
            while got.len() < expected {
                match rx.next().await {
                    Some(StreamEvent::Processed { operation, .. }) => got.push(operation),
                    Some(StreamEvent::ProcessingFailed { error, .. }) => failures.push(format!("processing failed: {error}")),
                    Some(StreamEvent::DecodeFailed { error, .. }) => failures.push(format!("decode failed: {error}")),
                    Some(StreamEvent::AckFailed { error, .. }) => failures.push(format!("ack failed: {error}")),
                    Some(_) => {}
                    None => break,
                }
                if !failures.is_empty() {
                    break;
                }
            }
            (rx, got, failures)
        });
        for k in 0..n_local {
            match tx.publish(format!("local-t{ti}-{k}")).await {
                Ok(fut) => {
                    let _ = tokio::time::timeout(WATCHDOG, fut).await;
                }
                Err(e) => {
                    out.inconclusive.push(format!("publish failed: {e}"));
                    return out;
                }
            }
        }
        for f in foreign {
            match tx.import(futures::stream::iter(f)).await {
                Ok(fut) => {
                    let _ = tokio::time::timeout(WATCHDOG, fut).await;
                }
                Err(e) => {
                    out.inconclusive.push(format!("import failed: {e}"));
                    return out;
                }
            }
        }
        let (rx, got, failures) = match tokio::time::timeout(WATCHDOG, drain).await {
            Ok(Ok(x)) => x,
            Ok(Err(e)) => {
                out.inconclusive.push(format!("drain task failed: {e}"));
                return out;
            }
            Err(_) => {
                out.inconclusive.push("watchdog: processed events did not all arrive within 60 s".into());
                return out;
            }
        };
        if !failures.is_empty() || got.len() < expected {
            out.inconclusive.push(format!("set-up: only {}/{} operations were processed ({failures:?})", got.len(), expected));
            return out;
        }
        for p in got {
            let h = p.processed().header();
            ops.push(OpInfo { topic_ix: ti, author: h.verifying_key, log_id: h.extensions.log_id(), seq: h.seq_num, hash: p.id(), processed: p });
        }
        subs.push(Arc::new(rx));
        // Keep the publisher alive for the whole history.
        publishers.push(tx);
    }
    out.bump("operations_processed", ops.len() as u64);

    let read_all = |reader: &SqliteStore| {
        let reader = reader.clone();
        let topics = topics.clone();
        async move {
            let mut rows = Vec::new();
            for t in &topics {
                rows.push(read_row(&reader, *t).await?);
            }
            Ok::<Vec<Row>, String>(rows)
        }
    };

    let mut rows = match read_all(reader).await {
        Ok(r) => r,
        Err(e) => {
            out.inconclusive.push(e);
            return out;
        }
    };
    // With the explicit policy nothing with a body has been acked yet.
    let mut actions_log: Vec<Value> = Vec::new();
    let mut accepted_max: HashMap<(usize, VerifyingKey, LogId), u32> = HashMap::new();
    let mut had_backwards = false;
    let mut had_foreign = false;

    // --- sequential phase -----------------------------------------------------------------------
    let n_seq = 12 + rng.usize_below(10);
    for step in 0..n_seq {
        let r = rng.below(100);
        let (kind, sub_ix, op): (&str, usize, Option<OpInfo>) = if r < 45 {
            let op = rng.pick(&ops).clone();
            ("own:subscription", op.topic_ix, Some(op))
        } else if r < 70 {
            let op = rng.pick(&ops).clone();
            ("own:processed", op.topic_ix, Some(op))
        } else if r < 95 {
            let op = rng.pick(&ops).clone();
            let other = (op.topic_ix + 1 + rng.usize_below(n_topics - 1)) % n_topics;
            ("foreign", other, Some(op))
        } else {
            ("unknown-id", rng.usize_below(n_topics), None)
        };
        let result: Result<(), String> = match (kind, &op) {
            ("own:processed", Some(op)) => op.processed.ack().await.map_err(|e| e.to_string()),
            (_, Some(op)) => subs[sub_ix].ack(op.hash).await.map_err(|e| e.to_string()),
            (_, None) => subs[sub_ix].ack(Hash::digest(rng.bytes(8))).await.map_err(|e| e.to_string()),
        };
        let after = match read_all(reader).await {
            Ok(r) => r,
            Err(e) => {
                out.inconclusive.push(e);
                return out;
            }
        };
        out.bump(&format!("acks:{kind}:{}", if result.is_ok() { "ok" } else { "err" }), 1);
        actions_log.push(json!({"step": step, "kind": kind, "via_topic": sub_ix, "op": op.as_ref().map(|o| json!({"topic": o.topic_ix, "author": o.author.to_string(), "seq": o.seq, "id": o.hash.to_string()})), "result": result.as_ref().err()}));
        let witness = |log: &Vec<Value>, rows: &Vec<Row>, after: &Vec<Row>| {
            json!({"seed": seed, "case": case, "phase": "sequential", "actions": log,
                   "cursor_rows_before": rows.iter().map(|r| r.raw.as_ref().map(|b| hex(b))).collect::<Vec<_>>(),
                   "cursor_rows_after": after.iter().map(|r| r.raw.as_ref().map(|b| hex(b))).collect::<Vec<_>>()})
        };
        // Never backwards, on any topic.
        for ti in 0..n_topics {
            if let Some(what) = backwards(&rows[ti].heights, &after[ti].heights) {
                out.violations.push(("C07:persisted-cursor-moved-backwards".into(), format!("after {kind} ack (step {step}) the cursor of topic #{ti} went backwards: {what}"), witness(&actions_log, &rows, &after)));
            }
            // Only its own topic's cursor may change.
            if ti != sub_ix && rows[ti] != after[ti] {
                out.violations.push(("C07:ack-changed-other-topic-cursor".into(), format!("{kind} ack through topic #{sub_ix} changed the cursor row of topic #{ti}"), witness(&actions_log, &rows, &after)));
            }
        }
        match (kind, &op) {
            ("foreign", Some(_)) => {
                had_foreign = true;
                if result.is_ok() {
                    out.violations.push(("C07:foreign-topic-ack-accepted".into(), format!("acknowledging an operation of topic #{} through the subscription of topic #{sub_ix} returned Ok", op.as_ref().unwrap().topic_ix), witness(&actions_log, &rows, &after)));
                }
                if rows[sub_ix] != after[sub_ix] {
                    out.violations.push(("C07:foreign-topic-ack-changed-cursor".into(), format!("a foreign-topic ack changed the cursor row of topic #{sub_ix}"), witness(&actions_log, &rows, &after)));
                }
            }
            (_, Some(op)) => {
                let k = (op.topic_ix, op.author, op.log_id);
                if accepted_max.get(&k).is_some_and(|m| *m > op.seq) {
                    had_backwards = true;
                }
                match &result {
                    Ok(()) => {
                        let e = accepted_max.entry(k).or_insert(op.seq);
                        *e = (*e).max(op.seq);
                        if after[op.topic_ix].heights.get(&(op.author, op.log_id)).is_none_or(|h| *h < op.seq) {
                            out.violations.push(("C07:accepted-ack-not-reflected".into(), format!("ack of seq {} was accepted but the persisted cursor shows {:?}", op.seq, after[op.topic_ix].heights.get(&(op.author, op.log_id))), witness(&actions_log, &rows, &after)));
                        }
                    }
                    Err(e) => out.bump(&format!("observed_not_judged:own-topic ack error ({e})"), 1),
                }
            }
            (_, None) => {
                if rows != after {
                    out.bump("observed_not_judged:ack of unknown id changed a cursor row", 1);
                }
            }
        }
        rows = after;
    }

    // --- concurrent phase -----------------------------------------------------------------------
    // 4 tasks ack through the same subscriptions / processed handles; a monitor reads the rows.
    let stop = Arc::new(std::sync::atomic::AtomicBool::new(false));
    let monitor = {
        let stop = stop.clone();
        let reader = reader.clone();
        let topics = topics.clone();
        let start_rows = rows.clone();
        tokio::spawn(async move {
            let mut prev = start_rows;
            let mut reads = 0u64;
            let mut bad: Option<(usize, String, Vec<Option<String>>)> = None;
            loop {
                let done = stop.load(std::sync::atomic::Ordering::SeqCst);
                for (ti, t) in topics.iter().enumerate() {
                    if let Ok(row) = read_row(&reader, *t).await {
                        reads += 1;
                        if bad.is_none() {
                            if let Some(what) = backwards(&prev[ti].heights, &row.heights) {
                                bad = Some((ti, what, vec![prev[ti].raw.as_ref().map(|b| hex(b)), row.raw.as_ref().map(|b| hex(b))]));
                            }
                        }
                        prev[ti] = row;
                    }
                }
                if done {
                    break;
                }
                tokio::task::yield_now().await;
            }
            (reads, bad, prev)
        })
    };
    let mut tasks = Vec::new();
    let mut plan_log: Vec<Value> = Vec::new();
    for w in 0..4 {
        let mut plan: Vec<(Via, OpInfo)> = Vec::new();
        for _ in 0..3 + rng.usize_below(5) {
            let op = rng.pick(&ops).clone();
            plan.push((if rng.bool() { Via::Subscription } else { Via::Processed }, op));
        }
        plan_log.push(json!({"task": w, "acks": plan.iter().map(|(v, o)| json!([format!("{v:?}"), o.topic_ix, o.author.to_string(), o.seq])).collect::<Vec<_>>()}));
        let subs = subs.clone();
        tasks.push(tokio::spawn(async move {
            let mut accepted: Vec<OpInfo> = Vec::new();
            let mut errors = 0u64;
            for (via, op) in plan {
                let r = match via {
                    Via::Subscription => subs[op.topic_ix].ack(op.hash).await.map_err(|e| e.to_string()),
                    Via::Processed => op.processed.ack().await.map_err(|e| e.to_string()),
                };
                match r {
                    Ok(()) => accepted.push(op),
                    Err(_) => errors += 1,
                }
            }
            (accepted, errors)
        }));
    }
    let mut accepted_conc: Vec<OpInfo> = Vec::new();
    for t in tasks {
        match tokio::time::timeout(WATCHDOG, t).await {
            Ok(Ok((acc, errs))) => {
                out.bump("concurrent_acks_ok", acc.len() as u64);
                out.bump("observed_not_judged:concurrent own-topic ack errors", errs);
                accepted_conc.extend(acc);
            }
            Ok(Err(e)) => {
                out.inconclusive.push(format!("ack task failed: {e}"));
            }
            Err(_) => {
                out.inconclusive.push("watchdog: concurrent ack task did not finish within 60 s".into());
                stop.store(true, std::sync::atomic::Ordering::SeqCst);
                return out;
            }
        }
    }
    stop.store(true, std::sync::atomic::Ordering::SeqCst);
    let (reads, bad, _last) = match monitor.await {
        Ok(x) => x,
        Err(e) => {
            out.inconclusive.push(format!("monitor task failed: {e}"));
            return out;
        }
    };
    out.bump("monitor_reads_during_concurrent_phase", reads);
    let after = match read_all(reader).await {
        Ok(r) => r,
        Err(e) => {
            out.inconclusive.push(e);
            return out;
        }
    };
    let cwitness = || {
        json!({"seed": seed, "case": case, "phase": "concurrent", "sequential_actions": actions_log, "concurrent_plan": plan_log,
               "cursor_rows_before": rows.iter().map(|r| r.raw.as_ref().map(|b| hex(b))).collect::<Vec<_>>(),
               "cursor_rows_after": after.iter().map(|r| r.raw.as_ref().map(|b| hex(b))).collect::<Vec<_>>()})
    };
    if let Some((ti, what, pair)) = bad {
        let mut w = cwitness();
        w["monitor_rows"] = json!(pair);
        out.violations.push(("C07:persisted-cursor-moved-backwards".into(), format!("during concurrent acks the monitor saw the cursor of topic #{ti} go backwards: {what}"), w));
    }
    for ti in 0..n_topics {
        if let Some(what) = backwards(&rows[ti].heights, &after[ti].heights) {
            out.violations.push(("C07:persisted-cursor-moved-backwards".into(), format!("after the concurrent acks the cursor of topic #{ti} is behind its value before them: {what}"), cwitness()));
        }
    }
    for op in &accepted_conc {
        let k = (op.topic_ix, op.author, op.log_id);
        if accepted_max.get(&k).is_some_and(|m| *m > op.seq) {
            had_backwards = true;
        }
        let e = accepted_max.entry(k).or_insert(op.seq);
        *e = (*e).max(op.seq);
    }
    for ((ti, a, l), s) in &accepted_max {
        if after[*ti].heights.get(&(*a, *l)).is_none_or(|h| h < s) {
            out.violations.push(("C07:accepted-ack-not-reflected".into(), format!("acks up to seq {s} of author {a} were accepted on topic #{ti} but the persisted cursor shows {:?} (lost update)", after[*ti].heights.get(&(*a, *l))), cwitness()));
            break;
        }
    }

    if had_backwards && had_foreign {
        out.nontrivial = Some(vh_common::hash_of(&format!("{actions_log:?}{plan_log:?}")));
    }
    // --- sequential multi-subscription phase (judged) ----------------------------------------
    // Several subscriptions opened one after another on one (fresh) topic; acks strictly one at a
    // time through old and new handles, cursor rows read back after every call.
    multi_subscription_phase(node, reader, seed, case, &mut rng, &topics, &mut out).await;

    // --- observation only: two independent streams on one topic ------------------------------
    // Each `node.stream(topic)` has its own ack semaphore, so acks through two streams of the same
    // topic can interleave their read-modify-write of the shared cursor row. That is outside the
    // statement's quantifier (sequences of ack calls on a stream); recorded, never judged.
    if case % 4 == 0 {
        match two_streams_observation(node, reader, topics[0], &publishers[0], &subs[0]).await {
            Some(true) => out.bump("observed_not_judged:two streams on one topic: accepted ack missing from cursor", 1),
            Some(false) => out.bump("observed_not_judged:two streams on one topic: cursor complete", 1),
            None => out.bump("observed_not_judged:two streams on one topic: phase skipped", 1),
        }
    }
    drop(publishers);
    if case < 2 {
        out.sample = Some(json!({"case": case, "topics": n_topics, "operations": ops.len(), "sequential_actions": actions_log.iter().take(8).collect::<Vec<_>>(), "concurrent_plan": plan_log.first(),
                                 "final_heights": after.iter().map(|r| r.heights.iter().map(|((a, _), s)| json!([a.to_string()[..8].to_string(), s])).collect::<Vec<_>>()).collect::<Vec<_>>()}));
    }
    out
}

/// One subscription (possibly already dropped) of the multi-subscription phase, with the
/// operations it delivered: their `ProcessedOperation::ack` goes through *this* stream's ack state.
struct Handle {
    label: String,
    tx: Option<p2panda::streams::StreamPublisher<String>>,
    rx: Option<StreamSubscription<String>>,
    delivered: Vec<ProcessedOperation<String>>,
}

/// Open a stream on `topic`, publish `messages` through it, import `imports`, and drain its
/// subscription until every one of those operations was delivered (replayed operations that come
/// first are collected as well: a later-published operation is processed after the replay).
async fn open_handle(node: &Node, topic: Topic, label: String, messages: Vec<String>, imports: Vec<Vec<Operation>>) -> Result<Handle, String> {
    let (tx, mut rx) = node.stream::<String>(topic).await.map_err(|e| format!("node.stream failed: {e}"))?;
    let mut wanted: Vec<Hash> = Vec::new();
    for m in messages {
        let fut = tx.publish(m).await.map_err(|e| format!("publish failed: {e}"))?;
        wanted.push(fut.hash());
    }
    for ops in imports {
        wanted.extend(ops.iter().map(|o| o.hash));
        let fut = tx.import(futures::stream::iter(ops)).await.map_err(|e| format!("import failed: {e}"))?;
        let _ = tokio::time::timeout(WATCHDOG, fut).await;
    }
    let mut delivered: Vec<ProcessedOperation<String>> = Vec::new();
    let drain = async {
        while !wanted.iter().all(|h| delivered.iter().any(|p| p.id() == *h)) {
            match rx.next().await {
                Some(StreamEvent::Processed { operation, .. }) => delivered.push(operation),
                Some(StreamEvent::ProcessingFailed { error, .. }) => return Err(format!("processing failed: {error}")),
                Some(StreamEvent::ReplayFailed { error }) => return Err(format!("replay failed: {error}")),
                Some(_) => {}
                None => return Err("subscription ended".to_string()),
            }
        }
        Ok(())
    };
    match tokio::time::timeout(WATCHDOG, drain).await {
        Ok(Ok(())) => {}
        Ok(Err(e)) => return Err(format!("multi-subscription set-up: {e}")),
        Err(_) => return Err("watchdog: multi-subscription set-up did not deliver its operations within 60 s".into()),
    }
    Ok(Handle { label, tx: Some(tx), rx: Some(rx), delivered })
}

async fn multi_subscription_phase(node: &Node, reader: &SqliteStore, seed: u64, case: u64, rng: &mut Rng, other_topics: &[Topic], out: &mut Outcome) {
    let topic = make_topic(seed, case, 200);
    let foreign = SigningKey::from_bytes(&rng.array32());
    let n_local = 3 + rng.usize_below(3);
    let n_foreign = 2 + rng.below(2) as u32;
    let first = open_handle(
        node,
        topic,
        "S1".into(),
        (0..n_local).map(|k| format!("multi-{k}")).collect(),
        vec![foreign_ops(&foreign, topic, n_foreign, "multi-foreign")],
    )
    .await;
    let mut handles: Vec<Handle> = match first {
        Ok(h) => vec![h],
        Err(e) => {
            out.inconclusive.push(e);
            return;
        }
    };
    // Everything acknowledgeable on this topic: id -> (author, log, seq).
    let mut universe: Vec<(Hash, VerifyingKey, LogId, u32)> = Vec::new();
    let learn = |universe: &mut Vec<(Hash, VerifyingKey, LogId, u32)>, h: &Handle| {
        for p in &h.delivered {
            let hd = p.processed().header();
            if !universe.iter().any(|u| u.0 == p.id()) {
                universe.push((p.id(), hd.verifying_key, hd.extensions.log_id(), hd.seq_num));
            }
        }
    };
    learn(&mut universe, &handles[0]);

    let read_rows = |reader: &SqliteStore| {
        let reader = reader.clone();
        let topics: Vec<Topic> = std::iter::once(topic).chain(other_topics.iter().copied()).collect();
        async move {
            let mut rows = Vec::new();
            for t in &topics {
                rows.push(read_row(&reader, *t).await?);
            }
            Ok::<Vec<Row>, String>(rows)
        }
    };
    let mut rows = match read_rows(reader).await {
        Ok(r) => r,
        Err(e) => {
            out.inconclusive.push(e);
            return;
        }
    };
    let mut log: Vec<Value> = Vec::new();
    let mut accepted_max: HashMap<(VerifyingKey, LogId), u32> = HashMap::new();
    let mut last_ack_handle: Option<usize> = None;
    let mut handle_switches = 0u64;
    let mut opened = 1usize;
    let n_steps = 16 + rng.usize_below(8);
    for step in 0..n_steps {
        let open_now = handles.iter().filter(|h| h.rx.is_some()).count();
        let r = rng.below(100);
        // Step 0 acks through S1, step 1 opens S2 — so that an old handle with history exists.
        let action = if step == 0 { 2 } else if step == 1 || (r < 12 && opened < 4) { 0 } else if r < 18 && open_now > 1 { 1 } else { 2 };
        let mut acked: Option<(Hash, VerifyingKey, LogId, u32, Result<(), String>, usize)> = None;
        match action {
            0 => {
                opened += 1;
                let label = format!("S{opened}");
                match open_handle(node, topic, label.clone(), vec![format!("marker-{opened}")], vec![]).await {
                    Ok(h) => {
                        learn(&mut universe, &h);
                        log.push(json!({"step": step, "open": label, "replayed_and_marker": h.delivered.len()}));
                        handles.push(h);
                    }
                    Err(e) => {
                        out.inconclusive.push(e);
                        return;
                    }
                }
            }
            1 => {
                let open_ix: Vec<usize> = handles.iter().enumerate().filter(|(_, h)| h.rx.is_some()).map(|(i, _)| i).collect();
                let hi = *rng.pick(&open_ix);
                handles[hi].rx = None;
                handles[hi].tx = None;
                log.push(json!({"step": step, "drop": handles[hi].label}));
            }
            _ => {
                let hi = rng.usize_below(handles.len());
                let h = &handles[hi];
                let by_id = h.rx.is_some() && (h.delivered.is_empty() || rng.bool());
                let (id, via, res) = if by_id {
                    let u = *rng.pick(&universe);
                    (u.0, "StreamSubscription::ack", h.rx.as_ref().unwrap().ack(u.0).await.map_err(|e| e.to_string()))
                } else if !h.delivered.is_empty() {
                    let p = rng.pick(&h.delivered);
                    (p.id(), "ProcessedOperation::ack", p.ack().await.map_err(|e| e.to_string()))
                } else {
                    continue;
                };
                let u = *universe.iter().find(|u| u.0 == id).expect("known operation");
                log.push(json!({"step": step, "ack_via": format!("{} {via}{}", h.label, if h.rx.is_none() { " (subscription dropped)" } else { "" }), "author": u.1.to_string()[..8].to_string(), "seq": u.3, "result": res.as_ref().err()}));
                if last_ack_handle.is_some_and(|l| l != hi) {
                    handle_switches += 1;
                }
                last_ack_handle = Some(hi);
                acked = Some((u.0, u.1, u.2, u.3, res, hi));
            }
        }
        let after = match read_rows(reader).await {
            Ok(r) => r,
            Err(e) => {
                out.inconclusive.push(e);
                return;
            }
        };
        let witness = |log: &Vec<Value>, rows: &Vec<Row>, after: &Vec<Row>| {
            json!({"seed": seed, "case": case, "phase": "sequential multi-subscription (one topic, several streams opened one after another)", "actions": log,
                   "cursor_row_before": rows[0].raw.as_ref().map(|b| hex(b)), "cursor_row_after": after[0].raw.as_ref().map(|b| hex(b)),
                   "heights_before": rows[0].heights.iter().map(|((a, _), s)| json!([a.to_string()[..8].to_string(), s])).collect::<Vec<_>>(),
                   "heights_after": after[0].heights.iter().map(|((a, _), s)| json!([a.to_string()[..8].to_string(), s])).collect::<Vec<_>>()})
        };
        if let Some(what) = backwards(&rows[0].heights, &after[0].heights) {
            out.violations.push((
                "C07:persisted-cursor-moved-backwards".into(),
                format!("multi-subscription history, step {step} ({}): the topic's persisted cursor went backwards: {what}", log.last().map(|l| l.to_string()).unwrap_or_default()),
                witness(&log, &rows, &after),
            ));
        }
        for ti in 1..rows.len() {
            if rows[ti] != after[ti] {
                out.violations.push(("C07:ack-changed-other-topic-cursor".into(), format!("multi-subscription history, step {step}: the cursor row of another topic changed"), witness(&log, &rows, &after)));
            }
        }
        if let Some((_id, a, l, s, res, _hi)) = acked {
            out.bump(&format!("multi_sub_acks:{}", if res.is_ok() { "ok" } else { "err" }), 1);
            match res {
                Ok(()) => {
                    let e = accepted_max.entry((a, l)).or_insert(s);
                    *e = (*e).max(s);
                    if after[0].heights.get(&(a, l)).is_none_or(|h| *h < s) {
                        out.violations.push(("C07:accepted-ack-not-reflected".into(), format!("multi-subscription history, step {step}: ack of seq {s} was accepted but the persisted cursor shows {:?}", after[0].heights.get(&(a, l))), witness(&log, &rows, &after)));
                    }
                }
                Err(e) => out.bump(&format!("observed_not_judged:own-topic ack error ({e})"), 1),
            }
        }
        rows = after;
    }
    // Everything ever accepted is still reflected at the end.
    for ((a, l), s) in &accepted_max {
        if rows[0].heights.get(&(*a, *l)).is_none_or(|h| h < s) {
            out.violations.push(("C07:accepted-ack-not-reflected".into(), format!("multi-subscription history: acks up to seq {s} of author {a} were accepted but the final persisted cursor shows {:?}", rows[0].heights.get(&(*a, *l))), json!({"seed": seed, "case": case, "actions": log})));
            break;
        }
    }
    out.bump("multi_sub_streams_opened", opened as u64);
    out.bump("multi_sub_handle_switches_between_acks", handle_switches);
    if handle_switches > 0 {
        out.bump("multi_sub_histories_with_old_and_new_handles_interleaved", 1);
    }
    if case < 1 {
        out.extra_samples.push(json!({"case": case, "phase": "multi-subscription", "actions": log}));
    }
}

/// Returns `Some(true)` when an accepted ack is missing from the cursor after acks raced through
/// two independent streams of the same topic.
async fn two_streams_observation(
    node: &Node,
    reader: &SqliteStore,
    topic: Topic,
    publisher: &p2panda::streams::StreamPublisher<String>,
    sub1: &Arc<StreamSubscription<String>>,
) -> Option<bool> {
    // Four more operations through stream 1 (they wait, unacknowledged, in its 16-slot channel).
    let mut ids = Vec::new();
    for k in 0..4 {
        let fut = publisher.publish(format!("extra-{k}")).await.ok()?;
        ids.push(fut.hash());
        tokio::time::timeout(WATCHDOG, fut).await.ok()?.ok()?;
    }
    // Stream 2 replays what is not acknowledged yet; its operations carry stream 2's ack state.
    let (_tx2, mut rx2) = node.stream::<String>(topic).await.ok()?;
    let mut replayed: Vec<ProcessedOperation<String>> = Vec::new();
    let collect = async {
        while let Some(ev) = rx2.next().await {
            match ev {
                StreamEvent::Processed { operation, .. } => replayed.push(operation),
                StreamEvent::ReplayEnded | StreamEvent::ReplayFailed { .. } => break,
                _ => {}
            }
        }
    };
    tokio::time::timeout(WATCHDOG, collect).await.ok()?;
    let mine: Vec<ProcessedOperation<String>> = replayed.into_iter().filter(|p| ids.contains(&p.id())).collect();
    if mine.len() < 2 {
        return None;
    }
    let author = mine[0].author();
    let log_id = mine[0].processed().header().extensions.log_id();
    let max_seq = mine.iter().map(|p| p.processed().header().seq_num).max()?;
    let a = {
        let sub1 = sub1.clone();
        let ids: Vec<Hash> = mine.iter().rev().map(|p| p.id()).collect();
        tokio::spawn(async move {
            let mut ok = 0;
            for id in ids {
                if sub1.ack(id).await.is_ok() {
                    ok += 1;
                }
            }
            ok
        })
    };
    let b = {
        let mine = mine.clone();
        tokio::spawn(async move {
            let mut ok = 0;
            for p in mine {
                if p.ack().await.is_ok() {
                    ok += 1;
                }
            }
            ok
        })
    };
    let (ra, rb) = (tokio::time::timeout(WATCHDOG, a).await.ok()?.ok()?, tokio::time::timeout(WATCHDOG, b).await.ok()?.ok()?);
    if ra + rb == 0 {
        return None;
    }
    let row = read_row(reader, topic).await.ok()?;
    Some(row.heights.get(&(author, log_id)).is_none_or(|h| *h < max_seq))
}

async fn worker(dir: std::path::PathBuf, seed: u64, w: u64, cases: Vec<u64>, sink: Arc<Mutex<Vec<Outcome>>>, deadline: std::time::Instant) {
    let path = dir.join(format!("c07-{w}.sqlite"));
    let url = format!("sqlite://{}?mode=rwc", path.display());
    let fail = |msg: String| {
        sink.lock().unwrap().push(Outcome { case: u64::MAX, inconclusive: vec![msg], ..Default::default() });
    };
    let pool = match p2panda_store::sqlite::connection_pool(&url, 16).await {
        Ok(p) => p,
        Err(e) => return fail(format!("opening database: {e}")),
    };
    if let Err(e) = p2panda_store::sqlite::run_pending_migrations(&pool).await {
        return fail(format!("migrations: {e}"));
    }
    let reader = SqliteStore::from_pool(pool.clone());
    let mut krng = Rng::fork(seed ^ 0x07, w);
    let node = match p2panda::builder()
        .signing_key(SigningKey::from_bytes(&krng.array32()))
        .database_pool(pool)
        .ack_policy(AckPolicy::Explicit)
        .mdns_mode(p2panda::network::MdnsDiscoveryMode::Disabled)
        .spawn()
        .await
    {
        Ok(n) => n,
        Err(e) => return fail(format!("spawning node: {e}")),
    };
    for case in cases {
        if std::time::Instant::now() > deadline {
            fail("wall-clock budget reached before all histories ran".into());
            break;
        }
        let o = history(&node, &reader, seed, case).await;
        sink.lock().unwrap().push(o);
    }
}

pub fn run(args: &Args) {
    let mut rep = Report::new(
        args,
        "ack histories on a real offline Node (explicit ack policy, SQLite file): 2..3 topics, the \
         node's own author plus 1..2 imported foreign authors, 3..13 operations per topic; 12..21 \
         sequential acks in random order (own topic through StreamSubscription::ack and \
         ProcessedOperation::ack, foreign-topic ids, unknown ids) with all cursor rows read back \
         after each call, then 4 concurrent tasks x 3..7 acks through the same handles with a \
         monitor task reading the rows; then, on a fresh topic, 2..4 subscriptions opened one after \
         another (some dropped again) with 16..23 steps of acks strictly one at a time through old \
         and new handles (StreamSubscription::ack by id, ProcessedOperation::ack of operations \
         delivered earlier by any of the streams), rows read back after every call. Non-trivial = the history contains an ack of a lower \
         sequence number after a higher one was accepted for the same (author, log) and a \
         foreign-topic ack; distinct by the action list.",
        20,
    );
    let n = args.n(60, 2_000);
    let workers: u64 = if n > 500 { 8 } else { 4 };
    let rt = tokio::runtime::Builder::new_multi_thread().worker_threads(8).enable_all().build().expect("runtime");
    let dir = tempfile::tempdir().expect("tempdir");
    let sink: Arc<Mutex<Vec<Outcome>>> = Arc::default();
    let deadline = std::time::Instant::now() + Duration::from_secs(if n > 500 { 1700 } else { 150 });
    rt.block_on(async {
        let mut hs = Vec::new();
        for w in 0..workers {
            let cases: Vec<u64> = (0..n).filter(|c| c % workers == w).collect();
            hs.push(tokio::spawn(worker(dir.path().to_path_buf(), args.seed, w, cases, sink.clone(), deadline)));
        }
        for h in hs {
            if let Err(e) = h.await {
                sink.lock().unwrap().push(Outcome { case: u64::MAX, inconclusive: vec![format!("worker crashed: {e}")], ..Default::default() });
            }
        }
    });
    let mut outcomes = std::mem::take(&mut *sink.lock().unwrap());
    outcomes.sort_by_key(|o| o.case);
    for o in outcomes {
        for (sig, what, wit) in o.violations {
            rep.violation(&sig, what, wit);
        }
        for i in o.inconclusive {
            rep.inconclusive(i);
        }
        for (k, v) in o.counters {
            rep.bump(&k, v);
        }
        for s in o.extra_samples {
            rep.sample(s);
        }
        if let Some(s) = o.sample {
            rep.sample(s);
        }
        if o.case != u64::MAX {
            rep.case(o.nontrivial);
        }
    }
    rep.extra("workers", json!(workers));
    rep.finish(args);
    rt.shutdown_background();
}
