//! C17 — an ephemeral subscription never stalls on invalid messages.
//!
//! The real `EphemeralStreamSubscription` (built through the real `Gossip::stream` /
//! `GossipHandle::subscribe` over the probe actor's channels) is driven in two ways per case:
//!
//! 1. by a *faithful executor simulation* with a counting waker: the task is polled when it is
//!    new, after it returned an item (the consumer calls `next()` again) and after its waker was
//!    woken — never otherwise. When the executor has no reason left to poll, the final valid
//!    message has not been yielded and unread messages remain in the channel, the stream is
//!    stalled (state-based criterion, no clock involved);
//! 2. end to end on a paused-time tokio runtime: `timeout(1 virtual hour, loop { sub.next() })`.
//!    A paused runtime only advances its clock when every task is idle, so an elapsed timeout with
//!    unread messages in the channel is the same state observed by a real executor.

use std::pin::Pin;
use std::sync::Arc;
use std::sync::atomic::{AtomicU64, Ordering};
use std::task::{Context, Poll, Wake, Waker};
use std::time::Duration;

use futures::{Stream, StreamExt};
use p2panda::streams::verif::{OperationForge, ephemeral_stream};
use p2panda::streams::{EphemeralStreamPublisher, EphemeralStreamSubscription};
use p2panda_core::{SigningKey, Topic};
use p2panda_store::SqliteStoreBuilder;
use vh_common::{Args, Report, Rng, hex, json};

use crate::probe::{BROADCAST_CAPACITY, Env};
use crate::wire::{Wrapped, cbor_text};

pub struct CountingWaker(pub AtomicU64);

impl Wake for CountingWaker {
    fn wake(self: Arc<Self>) {
        self.0.fetch_add(1, Ordering::SeqCst);
    }
    fn wake_by_ref(self: &Arc<Self>) {
        self.0.fetch_add(1, Ordering::SeqCst);
    }
}

#[derive(Clone, Copy, Debug, PartialEq, Eq, Hash)]
enum Kind {
    Valid,
    Undecodable,
    Truncated,
    BadSignature,
    WrongVersion,
    ResignedOtherKey,
    /// Only as the *cause* attributed to a poll: the receiver was overrun (`Lagged`).
    Lagged,
}

impl Kind {
    fn name(self) -> &'static str {
        match self {
            Kind::Valid => "valid",
            Kind::Undecodable => "undecodable",
            Kind::Truncated => "truncated",
            Kind::BadSignature => "bad-signature",
            Kind::WrongVersion => "wrong-version",
            Kind::ResignedOtherKey => "resigned-other-key",
            Kind::Lagged => "lagged",
        }
    }
    fn code(self) -> char {
        match self {
            Kind::Valid => 'V',
            Kind::Undecodable => 'u',
            Kind::Truncated => 't',
            Kind::BadSignature => 's',
            Kind::WrongVersion => 'w',
            Kind::ResignedOtherKey => 'r',
            Kind::Lagged => 'L',
        }
    }
}

#[derive(Clone)]
struct Item {
    kind: Kind,
    bytes: Arc<Vec<u8>>,
    /// Body text for valid items (to recognise the yield).
    body: Option<Arc<String>>,
}

/// One step of the workload: send these items back to back, then (interleaved mode) let the
/// executor run with probability given by the case.
struct Step {
    items: Vec<Item>,
    run_executor_after: bool,
}

struct Pool {
    key: SigningKey,
    valid: Vec<Item>,
    bad_sig: Vec<Item>,
    wrong_version: Vec<Item>,
    resigned: Vec<Item>,
}

const TS: u64 = 1_700_000_000_000_000;

fn make_pool(seed: u64) -> Pool {
    let mut rng = Rng::fork(seed ^ 0xC17, 0);
    let key = SigningKey::from_bytes(&rng.array32());
    let other = SigningKey::from_bytes(&rng.array32());
    let mut valid = Vec::new();
    let mut bad_sig = Vec::new();
    let mut wrong_version = Vec::new();
    let mut resigned = Vec::new();
    for k in 0..48u64 {
        let body = format!("v:{k}");
        let w = Wrapped::honest(&key, 1, TS + k, k % 3, &cbor_text(&body));
        valid.push(Item { kind: Kind::Valid, bytes: Arc::new(w.encode()), body: Some(Arc::new(body.clone())) });
        // Signature bytes damaged.
        let mut b = w.clone();
        b.signature[(k % 64) as usize] ^= 1 << (k % 8);
        bad_sig.push(Item { kind: Kind::BadSignature, bytes: Arc::new(b.encode()), body: None });
        // Version altered: once without re-signing, once honestly signed over version 2.
        let mut v = w.clone();
        v.version = 2 + k % 5;
        wrong_version.push(Item { kind: Kind::WrongVersion, bytes: Arc::new(v.encode()), body: None });
        let v2 = Wrapped::honest(&key, 2, TS + k, 0, &cbor_text(&body));
        wrong_version.push(Item { kind: Kind::WrongVersion, bytes: Arc::new(v2.encode()), body: None });
        // Signed by another key while reporting the original author.
        let mut r = Wrapped::honest(&other, 1, TS + k, 0, &cbor_text(&body));
        let sig = other.sign(&crate::wire::signed_bytes(1, key.verifying_key().as_bytes(), TS + k, 0, &cbor_text(&body)));
        r.author = *key.verifying_key().as_bytes();
        r.signature = sig.to_bytes();
        resigned.push(Item { kind: Kind::ResignedOtherKey, bytes: Arc::new(r.encode()), body: None });
    }
    Pool { key, valid, bad_sig, wrong_version, resigned }
}

fn gen_item(rng: &mut Rng, pool: &Pool, cheap_only: bool) -> Item {
    let r = rng.below(100);
    let r = if cheap_only { r % 45 + 30 } else { r };
    match r {
        0..=19 => rng.pick(&pool.valid).clone(),
        20..=29 => rng.pick(&pool.bad_sig).clone(),
        30..=49 => {
            // Undecodable: random junk, empty, a lone CBOR head, or a non-array item.
            let bytes = match rng.below(5) {
                0 => Vec::new(),
                1 => vec![0x86],
                2 => cbor_text("not a tuple"),
                3 => vec![0xff],
                _ => {
                    let n = 1 + rng.usize_below(60);
                    rng.bytes(n)
                }
            };
            Item { kind: Kind::Undecodable, bytes: Arc::new(bytes), body: None }
        }
        50..=59 => {
            let v = rng.pick(&pool.valid);
            let cut = 1 + rng.usize_below(v.bytes.len() - 1);
            Item { kind: Kind::Truncated, bytes: Arc::new(v.bytes[..cut].to_vec()), body: None }
        }
        60..=74 => rng.pick(&pool.wrong_version).clone(),
        75..=89 => rng.pick(&pool.resigned).clone(),
        _ => rng.pick(&pool.bad_sig).clone(),
    }
}

struct Case {
    steps: Vec<Step>,
    final_body: String,
    interleaved: bool,
    /// Compressed kind string, e.g. "u3 s1 B140 V1" (B = burst overflowing the channel).
    shape: String,
    invalid_before_final: u64,
    bursts: u64,
}

fn gen_case(seed: u64, case: u64, pool: &Pool) -> Case {
    let mut rng = Rng::fork(seed, case);
    let interleaved = rng.bool();
    let len = match rng.below(10) {
        0..=4 => 1 + rng.usize_below(8),
        5..=7 => 1 + rng.usize_below(40),
        _ => 1 + rng.usize_below(200),
    };
    let p_run = [0.0, 0.2, 0.5, 1.0][rng.usize_below(4)];
    let mut steps = Vec::new();
    let mut shape = String::new();
    let mut invalid = 0u64;
    let mut bursts = 0u64;
    let push_shape = |shape: &mut String, c: char, n: usize| {
        if !shape.is_empty() {
            shape.push(' ');
        }
        shape.push(c);
        shape.push_str(&n.to_string());
    };
    let mut run_kind: Option<(char, usize)> = None;
    let mut i = 0;
    while i < len {
        // A burst overflows the 128-slot broadcast before the subscription is polled again.
        if bursts < 2 && rng.chance(0.06) {
            if let Some((c, n)) = run_kind.take() {
                push_shape(&mut shape, c, n);
            }
            let n = BROADCAST_CAPACITY + 1 + rng.usize_below(40);
            let items: Vec<Item> = (0..n).map(|_| gen_item(&mut rng, pool, true)).collect();
            invalid += items.iter().filter(|x| x.kind != Kind::Valid).count() as u64;
            invalid += 1; // the Lagged error itself
            steps.push(Step { items, run_executor_after: interleaved && rng.chance(p_run) });
            push_shape(&mut shape, 'B', n);
            bursts += 1;
            i += 1;
            continue;
        }
        let it = gen_item(&mut rng, pool, false);
        if it.kind != Kind::Valid {
            invalid += 1;
        }
        let c = it.kind.code();
        match &mut run_kind {
            Some((k, n)) if *k == c => *n += 1,
            other => {
                if let Some((k, n)) = other.take() {
                    push_shape(&mut shape, k, n);
                }
                *other = Some((c, 1));
            }
        }
        steps.push(Step { items: vec![it], run_executor_after: interleaved && rng.chance(p_run) });
        i += 1;
    }
    if let Some((c, n)) = run_kind.take() {
        push_shape(&mut shape, c, n);
    }
    let final_body = format!("FINAL:{case}");
    let w = Wrapped::honest(&pool.key, 1, TS + 1_000_000 + case, 0, &cbor_text(&final_body));
    steps.push(Step {
        items: vec![Item { kind: Kind::Valid, bytes: Arc::new(w.encode()), body: Some(Arc::new(final_body.clone())) }],
        run_executor_after: false,
    });
    // In queued mode a total above the channel capacity lags the receiver as well.
    let total: usize = steps.iter().map(|s| s.items.len()).sum();
    if !interleaved && total > BROADCAST_CAPACITY && bursts == 0 {
        invalid += 1;
    }
    Case { steps, final_body, interleaved, shape, invalid_before_final: invalid, bursts }
}

/// Outcome of the executor simulation.
#[derive(Debug)]
enum Sim {
    Ok { polls: u64, yielded: u64, pending_selfwake: u64, expected: u64, max_consumed: u64 },
    Stall { after: Kind, unread: usize, polls: u64, trace: Vec<String> },
    ValidDropped { which: String, polls: u64, trace: Vec<String> },
    Closed,
    ModelMismatch(String),
}

fn simulate(
    case: &Case,
    sub: &mut EphemeralStreamSubscription<String>,
    tx: &tokio::sync::broadcast::Sender<Vec<u8>>,
) -> Sim {
    let counter = Arc::new(CountingWaker(AtomicU64::new(0)));
    let waker = Waker::from(counter.clone());
    let mut cx = Context::from_waker(&waker);

    // Flat list of everything sent so far (for attributing polls to items).
    let mut sent: Vec<Item> = Vec::new();
    // Our model of the broadcast receiver position: index into `sent` of the next item to read.
    let mut read_pos: usize = 0;
    // Valid items the receiver has consumed (in order) and must therefore have yielded.
    let mut expected: Vec<Arc<String>> = Vec::new();
    let mut yielded: Vec<String> = Vec::new();
    let mut trace: Vec<String> = Vec::new();
    let mut max_consumed = 0u64;

    let mut never_polled = true;
    let mut last_ready = false;
    let mut wakes_at_last_poll_end = 0u64;
    let mut last_cause: Kind = Kind::Valid;
    let mut polls = 0u64;
    let mut pending_selfwake = 0u64;
    let mut got_final = false;
    let mut closed = false;

    let mut run_executor = |sent: &Vec<Item>,
                            read_pos: &mut usize,
                            expected: &mut Vec<Arc<String>>,
                            yielded: &mut Vec<String>,
                            trace: &mut Vec<String>,
                            max_consumed_in_one_poll: &mut u64|
     -> Option<Sim> {
        loop {
            let woken = counter.0.load(Ordering::SeqCst) > wakes_at_last_poll_end;
            if !(never_polled || last_ready || woken) || got_final || closed {
                return None;
            }
            // Channel model: an overrun receiver first jumps to the oldest retained message
            // (and is told `Lagged`); then a poll takes one or more messages, in order. How many
            // it took is read off the channel afterwards (`Sender::len()` = unread messages of
            // the only receiver).
            let backlog = sent.len() - *read_pos;
            let lagged = backlog > BROADCAST_CAPACITY;
            if lagged {
                *read_pos = sent.len() - BROADCAST_CAPACITY;
            }
            let w0 = counter.0.load(Ordering::SeqCst);
            let r = Pin::new(&mut *sub).poll_next(&mut cx);
            polls += 1;
            never_polled = false;
            let w1 = counter.0.load(Ordering::SeqCst);
            // Wakes that happened *during* the poll count as a reason to poll again.
            wakes_at_last_poll_end = w0;
            let unread = tx.len();
            let new_pos = sent.len().saturating_sub(unread);
            if unread > sent.len() || new_pos < *read_pos || tx.receiver_count() != 1 {
                return Some(Sim::ModelMismatch(format!(
                    "channel holds {unread} unread after poll #{polls}, harness model had the receiver at {} of {} sent (receivers={})",
                    *read_pos, sent.len(), tx.receiver_count()
                )));
            }
            let consumed = &sent[*read_pos..new_pos];
            *read_pos = new_pos;
            // Every valid message taken from the channel is owed to the application.
            for it in consumed {
                if it.kind == Kind::Valid {
                    expected.push(it.body.clone().unwrap());
                }
            }
            let cause = match consumed.last() {
                Some(it) => Some(it.kind),
                None if lagged => Some(Kind::Lagged),
                None => None,
            };
            *max_consumed_in_one_poll = (*max_consumed_in_one_poll).max(consumed.len() as u64);
            match r {
                Poll::Ready(Some(m)) => {
                    last_ready = true;
                    if trace.len() < 400 {
                        trace.push(format!("poll#{polls} cause={} -> Ready({:?})", cause.map(|k| k.name()).unwrap_or("empty"), m.body()));
                    }
                    if m.body() == &case.final_body {
                        got_final = true;
                    }
                    yielded.push(m.body().clone());
                }
                Poll::Ready(None) => {
                    closed = true;
                }
                Poll::Pending => {
                    last_ready = false;
                    if let Some(k) = cause {
                        last_cause = k;
                    }
                    if w1 > w0 {
                        pending_selfwake += 1;
                    }
                    if trace.len() < 400 {
                        trace.push(format!(
                            "poll#{polls} cause={} -> Pending woken_during_poll={} unread={}",
                            cause.map(|k| k.name()).unwrap_or("empty"),
                            w1 > w0,
                            tx.len()
                        ));
                    }
                }
            }
        }
    };

    for step in &case.steps {
        for it in &step.items {
            sent.push(it.clone());
            // `send` wakes a registered receiver waker synchronously.
            let _ = tx.send((*it.bytes).clone());
        }
        if step.run_executor_after {
            if let Some(bad) = run_executor(&sent, &mut read_pos, &mut expected, &mut yielded, &mut trace, &mut max_consumed) {
                return bad;
            }
        }
    }
    // Everything is sent: let the executor run to quiescence.
    if let Some(bad) = run_executor(&sent, &mut read_pos, &mut expected, &mut yielded, &mut trace, &mut max_consumed) {
        return bad;
    }
    drop(run_executor);
    if closed {
        return Sim::Closed;
    }
    let keep = |t: &Vec<String>| t.iter().rev().take(12).rev().cloned().collect::<Vec<_>>();
    if !got_final {
        let unread = tx.len();
        if unread > 0 {
            return Sim::Stall { after: last_cause, unread, polls, trace: keep(&trace) };
        }
        return Sim::ValidDropped { which: case.final_body.clone(), polls, trace: keep(&trace) };
    }
    // Every valid message the receiver consumed must have been yielded, in order.
    // (Subsequence check: a yield of something that was *not* valid is C16's business and only
    // shows up in the yielded count.)
    let mut gi = 0;
    for e in &expected {
        while gi < yielded.len() && yielded[gi] != **e {
            gi += 1;
        }
        if gi == yielded.len() {
            return Sim::ValidDropped { which: e.to_string(), polls, trace: keep(&trace) };
        }
        gi += 1;
    }
    Sim::Ok { polls, yielded: yielded.len() as u64, pending_selfwake, expected: expected.len() as u64, max_consumed }
}

#[derive(Debug)]
enum E2e {
    Ok,
    Parked { unread: usize, yielded: u64 },
    Closed,
}

/// Same workload against a real executor with virtual time.
fn end_to_end(
    rt: &tokio::runtime::Runtime,
    case: &Case,
    mut sub: EphemeralStreamSubscription<String>,
    tx: &tokio::sync::broadcast::Sender<Vec<u8>>,
) -> E2e {
    let final_body = case.final_body.clone();
    let yielded = Arc::new(AtomicU64::new(0));
    let y2 = yielded.clone();
    let res = rt.block_on(async {
        let receiver = async move {
            loop {
                match sub.next().await {
                    Some(m) => {
                        y2.fetch_add(1, Ordering::SeqCst);
                        if m.body() == &final_body {
                            break true;
                        }
                    }
                    None => break false,
                }
            }
        };
        let sender = async {
            for step in &case.steps {
                for it in &step.items {
                    let _ = tx.send((*it.bytes).clone());
                }
                if step.run_executor_after {
                    // Yield to the receiver task for a virtual millisecond.
                    tokio::time::sleep(Duration::from_millis(1)).await;
                }
            }
        };
        let mut recv_task = tokio::spawn(receiver);
        sender.await;
        // Everything is sent. One virtual hour for the receiver task to get to the final message.
        match tokio::time::timeout(Duration::from_secs(3600), &mut recv_task).await {
            Ok(Ok(true)) => E2e::Ok,
            Ok(Ok(false)) => E2e::Closed,
            Ok(Err(e)) => panic!("receiver task: {e}"),
            Err(_elapsed) => {
                // The task (and with it the subscription) is still alive and parked: look at the
                // channel now, then dispose of the task.
                let unread = tx.len();
                let y = yielded.load(Ordering::SeqCst);
                recv_task.abort();
                let _ = recv_task.await;
                E2e::Parked { unread, yielded: y }
            }
        }
    });
    res
}

pub fn run(args: &Args) {
    let mut rep = Report::new(
        args,
        "seeded sequences of 1..200 items of kinds {valid, undecodable junk, truncated, damaged \
         signature, altered/unsupported version, re-signed by another key, burst of 129..168 items \
         overflowing the 128-slot broadcast (Lagged)} followed by one final valid message; half the \
         cases queue everything before the first poll, half interleave sends with executor runs. \
         Each case runs twice on the real EphemeralStreamSubscription: under a faithful executor \
         simulation with a counting waker (stall = executor has no reason to poll, final message \
         not yielded, unread messages remain) and end-to-end under timeout(1 virtual hour) on a \
         paused-time runtime. Non-trivial = at least one invalid or lagged item precedes the final \
         valid message; distinct by (mode, compressed kind sequence).",
        50,
    );
    let n = args.n(3_000, 300_000);
    let rt = tokio::runtime::Builder::new_multi_thread().worker_threads(2).enable_all().build().expect("runtime");
    let paused = tokio::runtime::Builder::new_current_thread().enable_time().start_paused(true).build().expect("paused runtime");
    let env = rt.block_on(Env::new());
    let store = rt.block_on(async { SqliteStoreBuilder::new().build().await.expect("memory store") });
    let pool = make_pool(args.seed);
    let forge = OperationForge::from_signing_key(SigningKey::from_bytes(&[9u8; 32]), store);

    let mut handle = None;
    let mut watchdog_hit = false;
    let budget = Duration::from_secs(if n > 10_000 { 1700 } else { 120 });
    for case_no in 0..n {
        if rep.elapsed() > budget {
            watchdog_hit = true;
            rep.extra("stopped_at_case", json!(case_no));
            break;
        }
        // A fresh topic through the real `Gossip::stream` every 64 cases; fresh real
        // subscriptions (`GossipHandle::subscribe`) for every case.
        if case_no % 64 == 0 {
            let mut t = [0u8; 32];
            t[..8].copy_from_slice(&case_no.to_le_bytes());
            t[8..16].copy_from_slice(&args.seed.to_le_bytes());
            t[31] = 0x17;
            let topic: Topic = t.into();
            handle = Some((topic, rt.block_on(env.open(topic))));
            rep.bump("gossip_streams_opened", 1);
        }
        let (topic, (gossip_handle, channels)) = handle.as_ref().unwrap();
        let tx = &channels.from_gossip_tx;
        let case = gen_case(args.seed, case_no, &pool);
        let total_items: usize = case.steps.iter().map(|s| s.items.len()).sum();
        let witness = |extra: serde_json::Value| {
            json!({
                "seed": args.seed, "case": case_no, "mode": if case.interleaved { "interleaved" } else { "queued" },
                "shape": case.shape, "items": total_items, "detail": extra,
                "first_items_hex": case.steps.iter().flat_map(|s| s.items.iter()).take(6).map(|i| json!({"kind": i.kind.name(), "bytes": hex(&i.bytes[..i.bytes.len().min(160)])})).collect::<Vec<_>>(),
            })
        };

        // Phase 1: executor simulation.
        let (_p, mut sub): (EphemeralStreamPublisher<String>, EphemeralStreamSubscription<String>) =
            ephemeral_stream(*topic, forge.clone(), gossip_handle.clone());
        let sim = simulate(&case, &mut sub, tx);
        drop(sub);
        rep.bump("items_sent", total_items as u64 * 2);
        match &sim {
            Sim::Ok { polls, yielded, pending_selfwake, expected, max_consumed } => {
                let cur = rep.extra.get("sim_max_messages_consumed_by_one_poll").and_then(|v| v.as_u64()).unwrap_or(0);
                rep.extra("sim_max_messages_consumed_by_one_poll", json!(cur.max(*max_consumed)));
                rep.bump("sim_polls", *polls);
                rep.bump("sim_yielded", *yielded);
                rep.bump("sim_valid_consumed", *expected);
                rep.bump("sim_pending_polls_with_self_wake", *pending_selfwake);
                rep.bump("sim_final_yielded", 1);
            }
            Sim::Stall { after, unread, polls, trace } => {
                rep.bump("sim_polls", *polls);
                let sig = if *after == Kind::Lagged { "C17:stall-after-lagged" } else { "C17:stall-after-invalid-message" };
                rep.violation(
                    sig,
                    format!(
                        "poll that consumed a {} item returned Pending without the waker being woken; {unread} unread message(s) incl. the final valid one remain and nothing will poll again",
                        after.name()
                    ),
                    witness(json!({"after": after.name(), "unread": unread, "polls": polls, "last_polls": trace})),
                );
            }
            Sim::ValidDropped { which, polls, trace } => {
                rep.bump("sim_polls", *polls);
                rep.violation(
                    "C17:valid-message-consumed-not-yielded",
                    format!("valid message {which:?} was taken from the channel but never yielded"),
                    witness(json!({"which": which, "last_polls": trace})),
                );
            }
            Sim::Closed => rep.inconclusive("subscription reported end of stream while the harness holds the sender"),
            Sim::ModelMismatch(m) => rep.inconclusive(format!("case {case_no}: harness channel model disagrees with tokio broadcast: {m}")),
        }

        // Phase 2: end to end, virtual time.
        let (_p, sub): (EphemeralStreamPublisher<String>, EphemeralStreamSubscription<String>) =
            ephemeral_stream(*topic, forge.clone(), gossip_handle.clone());
        let e2e = end_to_end(&paused, &case, sub, tx);
        match &e2e {
            E2e::Ok => rep.bump("e2e_final_yielded", 1),
            E2e::Parked { unread, yielded } => {
                if *unread > 0 {
                    rep.violation(
                        "C17:e2e-parked-with-unread-messages",
                        format!(
                            "real executor, virtual time: receiver task stayed parked for 1 virtual hour after yielding {yielded} message(s) while {unread} unread message(s) incl. the final valid one sat in the channel"
                        ),
                        witness(json!({"unread": unread, "yielded": yielded, "simulation": format!("{sim:?}").chars().take(300).collect::<String>()})),
                    );
                } else {
                    rep.violation(
                        "C17:valid-message-consumed-not-yielded",
                        "end to end: channel drained but the final valid message was never yielded",
                        witness(json!({"phase": "e2e", "yielded": yielded})),
                    );
                }
            }
            E2e::Closed => rep.inconclusive("e2e: subscription reported end of stream while the harness holds the sender"),
        }

        let nontrivial = case.invalid_before_final > 0;
        rep.case(if nontrivial { Some((case.interleaved, case.shape.clone())) } else { None });
        if case.bursts > 0 || (!case.interleaved && total_items > BROADCAST_CAPACITY) {
            rep.bump("cases_with_lag", 1);
        }
        if case.interleaved {
            rep.bump("cases_interleaved", 1);
        } else {
            rep.bump("cases_queued", 1);
        }
        if rep.want_sample() && nontrivial && (case_no % 7 == 0 || case.bursts > 0) {
            rep.sample(json!({"case": case_no, "mode": if case.interleaved { "interleaved" } else { "queued" }, "shape": case.shape, "simulation": format!("{sim:?}").chars().take(200).collect::<String>(), "e2e": format!("{e2e:?}")}));
        }
    }
    if watchdog_hit {
        rep.inconclusive("wall-clock budget reached before all cases ran");
    }
    {
        let s = env.shared.lock().unwrap();
        rep.extra("probe_subscribes", json!(s.subscribes));
        rep.extra("probe_unsubscribes", json!(s.unsubscribes));
    }
    drop(handle);
    rep.finish(args);
    // Do not wait for actor shutdown.
    rt.shutdown_background();
}
