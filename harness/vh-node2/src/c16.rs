//! C16 — ephemeral messages are authentic and unique per publish.
//!
//! Subscriber side: tampered / forged / re-signed wire messages are injected into the channel the
//! real `EphemeralStreamSubscription` reads from; whatever it yields is judged on *content* against
//! (a) the set of messages that were honestly signed in this run and (b) an independent
//! re-computation of the signed tuple (`wire.rs`).
//!
//! Publisher side: the real `EphemeralStreamPublisher` publishes sequences while the wall clock
//! (p2panda-core's `test_utils` mock clock — `Timestamp::now()` reads it in this build) is held,
//! stepped forward and stepped back; every byte string that reaches the gossip channel is decoded
//! and re-verified, its (timestamp, logical) must be strictly greater than the previous one and the
//! byte strings must be pairwise distinct. Everything published is looped back into the
//! subscription.

use std::collections::HashSet;
use std::pin::Pin;
use std::sync::Arc;
use std::sync::atomic::AtomicU64;
use std::task::{Context, Poll, Waker};
use std::time::Duration;

use futures::Stream;
use mock_instant::thread_local::MockClock;
use p2panda::streams::verif::{OperationForge, ephemeral_stream};
use p2panda::streams::{EphemeralStreamPublisher, EphemeralStreamSubscription};
use p2panda_core::{SigningKey, Topic};
use p2panda_store::SqliteStoreBuilder;
use tokio::sync::broadcast;
use vh_common::{Args, Report, Rng, hex, json};

use crate::c17::CountingWaker;
use crate::probe::Env;
use crate::wire::{Wrapped, cbor_array_head, cbor_bytes, cbor_text, cbor_uint, signed_bytes};

type ContentKey = ([u8; 32], u64, Vec<u8>);

struct Yielded {
    author: [u8; 32],
    timestamp: u64,
    body: String,
}

struct SubDriver<'a> {
    sub: EphemeralStreamSubscription<String>,
    tx: &'a broadcast::Sender<Vec<u8>>,
    waker: Waker,
    pending_with_unread: u64,
}

impl<'a> SubDriver<'a> {
    fn new(sub: EphemeralStreamSubscription<String>, tx: &'a broadcast::Sender<Vec<u8>>) -> Self {
        let waker = Waker::from(Arc::new(CountingWaker(AtomicU64::new(0))));
        SubDriver { sub, tx, waker, pending_with_unread: 0 }
    }

    /// Inject one wire message and poll the subscription until it has consumed it.
    fn inject(&mut self, bytes: &[u8]) -> Option<Yielded> {
        let _ = self.tx.send(bytes.to_vec());
        let mut cx = Context::from_waker(&self.waker);
        for _ in 0..6 {
            match Pin::new(&mut self.sub).poll_next(&mut cx) {
                Poll::Ready(Some(m)) => {
                    return Some(Yielded { author: *m.author().as_bytes(), timestamp: m.timestamp(), body: m.body().clone() });
                }
                Poll::Ready(None) => return None,
                Poll::Pending => {
                    if self.tx.len() == 0 {
                        return None;
                    }
                    // (Pending while unread messages remain is C17's subject; here we just poll on.)
                    self.pending_with_unread += 1;
                }
            }
        }
        None
    }
}

/// What the harness did to an honest message.
struct Tamper {
    class: &'static str,
    label: String,
    bytes: Vec<u8>,
    /// True when the reference says this wire message must not be yielded (content altered,
    /// signature invalid or unsupported version). False: byte-level variation of honest content.
    must_reject: bool,
}

fn raw(version: &[u8], author: &[u8], sig: &[u8], ts: &[u8], logical: &[u8], body: &[u8], n: u64) -> Vec<u8> {
    let mut out = Vec::new();
    cbor_array_head(n, &mut out);
    for part in [version, author, sig, ts, logical, body] {
        out.extend_from_slice(part);
    }
    out
}

fn enc_uint(n: u64) -> Vec<u8> {
    let mut v = Vec::new();
    cbor_uint(n, &mut v);
    v
}

fn enc_bytes(b: &[u8]) -> Vec<u8> {
    let mut v = Vec::new();
    cbor_bytes(b, &mut v);
    v
}

fn tamperings(rng: &mut Rng, base: &Wrapped, key: &SigningKey, other: &SigningKey, sibling: &Wrapped) -> Vec<Tamper> {
    let bytes = base.encode();
    let mut out = Vec::new();
    // 1. every single-byte flip x 3 masks.
    for pos in 0..bytes.len() {
        let m3 = 1 + rng.below(255) as u8;
        for (mi, mask) in [0x01u8, 0x80, m3].into_iter().enumerate() {
            if mi == 2 && (mask == 0x01 || mask == 0x80) {
                continue;
            }
            let mut b = bytes.clone();
            b[pos] ^= mask;
            // Whether this must be rejected is decided by the reference parser at judging time
            // (a flip can in principle produce an equivalent encoding); default: must reject.
            out.push(Tamper { class: "byte-flip", label: format!("pos={pos} mask={mask:#04x}"), bytes: b, must_reject: true });
        }
    }
    // 2. truncations.
    for cut in 0..bytes.len() {
        out.push(Tamper { class: "truncated", label: format!("len={cut}"), bytes: bytes[..cut].to_vec(), must_reject: true });
    }
    // 3. field substitutions (without re-signing).
    let mut sub = |label: &str, f: &dyn Fn(&mut Wrapped)| {
        let mut w = base.clone();
        f(&mut w);
        if &w != base {
            out.push(Tamper { class: "field-substitution", label: label.to_string(), bytes: w.encode(), must_reject: true });
        }
    };
    for v in [0u64, 2, 3, 255, u64::MAX] {
        sub(&format!("version={v}"), &|w| w.version = v);
    }
    sub("author=other-key", &|w| w.author = *other.verifying_key().as_bytes());
    sub("signature=sibling's", &|w| w.signature = sibling.signature);
    sub("signature=zero", &|w| w.signature = [0u8; 64]);
    sub("timestamp+1", &|w| w.timestamp += 1);
    sub("timestamp-1", &|w| w.timestamp -= 1);
    sub("timestamp=0", &|w| w.timestamp = 0);
    sub("timestamp=max", &|w| w.timestamp = u64::MAX);
    sub("timestamp=sibling's", &|w| w.timestamp = sibling.timestamp);
    sub("logical+1", &|w| w.logical += 1);
    sub("logical=max", &|w| w.logical = u64::MAX);
    sub("body=sibling's", &|w| w.body = sibling.body.clone());
    sub("body=empty-text", &|w| w.body = cbor_text(""));
    sub("body+suffix", &|w| {
        let s: String = ciborium::from_reader(&w.body[..]).unwrap();
        w.body = cbor_text(&format!("{s}!"));
    });
    sub("timestamp<->logical", &|w| std::mem::swap(&mut w.timestamp, &mut w.logical));
    // 4. re-signed by another key while still reporting the original author.
    {
        let mut w = base.clone();
        w.body = cbor_text("forged by other key");
        let sig = other.sign(&signed_bytes(1, &w.author, w.timestamp, w.logical, &w.body));
        w.signature = sig.to_bytes();
        out.push(Tamper { class: "resigned-other-key", label: "new body, original author".into(), bytes: w.encode(), must_reject: true });
        let mut w = base.clone();
        let sig = other.sign(&signed_bytes(1, &w.author, w.timestamp, w.logical, &w.body));
        w.signature = sig.to_bytes();
        out.push(Tamper { class: "resigned-other-key", label: "same content, original author".into(), bytes: w.encode(), must_reject: true });
    }
    // 5. honestly signed by the author, but over an unsupported version (unique body).
    for v in [0u64, 2, 7] {
        let w = Wrapped::honest(key, v, base.timestamp, base.logical, &cbor_text(&format!("v{v}-only {}", hex(&base.author[..4]))));
        out.push(Tamper { class: "unsupported-version", label: format!("validly signed over version {v}"), bytes: w.encode(), must_reject: true });
    }
    // 6. CBOR type confusion / structure changes.
    let ver = enc_uint(base.version);
    let au = enc_bytes(&base.author);
    let sg = enc_bytes(&base.signature);
    let ts = enc_uint(base.timestamp);
    let lg = enc_uint(base.logical);
    let bd = base.body.clone();
    let as_int_array = |b: &[u8]| {
        let mut v = Vec::new();
        cbor_array_head(b.len() as u64, &mut v);
        for x in b {
            cbor_uint(*x as u64, &mut v);
        }
        v
    };
    let mut conf = |label: &str, bytes: Vec<u8>, must_reject: bool| {
        out.push(Tamper { class: "type-confusion", label: label.to_string(), bytes, must_reject });
    };
    // Same content, other representation: not judged as "must reject".
    conf("author as int array", raw(&ver, &as_int_array(&base.author), &sg, &ts, &lg, &bd, 6), false);
    conf("signature as int array", raw(&ver, &au, &as_int_array(&base.signature), &ts, &lg, &bd, 6), false);
    conf("timestamp non-minimal (same value)", raw(&ver, &au, &sg, &{ let mut v = vec![0x1b]; v.extend_from_slice(&base.timestamp.to_be_bytes()); v }, &{ let mut v = vec![0x1b]; v.extend_from_slice(&base.logical.to_be_bytes()); v }, &bd, 6), false);
    conf("trailing bytes after item", { let mut b = bytes.clone(); b.extend_from_slice(&[0x00, 0x01, 0x02]); b }, false);
    conf("indefinite-length array", { let mut b = vec![0x9f]; b.extend_from_slice(&bytes[1..]); b.push(0xff); b }, false);
    conf("7th element appended", { let mut b = raw(&ver, &au, &sg, &ts, &lg, &bd, 7); b.push(0x00); b }, false);
    // Different content.
    conf("5 elements (signature missing)", { let mut v = Vec::new(); cbor_array_head(5, &mut v); for p in [&ver, &au, &ts, &lg, &bd] { v.extend_from_slice(p); } v }, true);
    conf("version as text", raw(&cbor_text("1"), &au, &sg, &ts, &lg, &bd, 6), true);
    conf("timestamp as negative int", raw(&ver, &au, &sg, &[0x20], &lg, &bd, 6), true);
    conf("timestamp as float", raw(&ver, &au, &sg, &[0xfa, 0x3f, 0x80, 0x00, 0x00], &lg, &bd, 6), true);
    conf("body as byte string", raw(&ver, &au, &sg, &ts, &lg, &{ let s: String = ciborium::from_reader(&bd[..]).unwrap(); enc_bytes(s.as_bytes()) }, 6), true);
    conf("body as array", raw(&ver, &au, &sg, &ts, &lg, &[0x81, 0x61, 0x78], 6), true);
    conf("wrapped in outer array", { let mut v = vec![0x81]; v.extend_from_slice(&bytes); v }, true);
    conf("tagged item", { let mut v = vec![0xc1]; v.extend_from_slice(&bytes); v }, false);
    conf("author 31 bytes", raw(&ver, &enc_bytes(&base.author[..31]), &sg, &ts, &lg, &bd, 6), true);
    conf("signature 63 bytes", raw(&ver, &au, &enc_bytes(&base.signature[..63]), &ts, &lg, &bd, 6), true);
    conf("map instead of array", { let mut v = vec![0xa3]; v.extend_from_slice(&ver); v.extend_from_slice(&au); v.extend_from_slice(&sg); v.extend_from_slice(&ts); v.extend_from_slice(&lg); v.extend_from_slice(&bd); v }, true);
    out
}

struct Judge {
    honest: HashSet<ContentKey>,
}

impl Judge {
    /// Returns `(signature, explanation)` of the first rule the yield breaks.
    fn judge(&self, injected: &[u8], class: &str, y: &Yielded) -> Option<(String, String)> {
        let key: ContentKey = (y.author, y.timestamp, cbor_text(&y.body));
        if let Some(p) = Wrapped::parse_lenient(injected) {
            if !p.verifies() {
                return Some((
                    format!("C16:yielded-without-valid-signature:{class}"),
                    "the yielded message's signature does not verify for the reported author over (version, author, timestamp, logical, body)".into(),
                ));
            }
            if (p.author, p.timestamp, p.body.clone()) != key {
                return Some((
                    format!("C16:yielded-content-differs-from-signed-content:{class}"),
                    format!("application was told (ts={}, body={:?}) but the signed wire content is (ts={}, body={})", y.timestamp, y.body, p.timestamp, hex(&p.body)),
                ));
            }
            if p.version != 1 {
                return Some((
                    "C16:yielded-unsupported-version".into(),
                    format!("a message of spec version {} was yielded as if it were a version-1 message", p.version),
                ));
            }
        }
        if !self.honest.contains(&key) {
            return Some((
                format!("C16:forged-content-yielded:{class}"),
                format!("yielded (author, timestamp={}, body={:?}) was never honestly signed as a version-1 message in this run", y.timestamp, y.body),
            ));
        }
        None
    }
}

fn topic_for(seed: u64, n: u64, tag: u8) -> Topic {
    let mut t = [0u8; 32];
    t[..8].copy_from_slice(&n.to_le_bytes());
    t[8..16].copy_from_slice(&seed.to_le_bytes());
    t[31] = tag;
    t.into()
}

pub fn run(args: &Args) {
    let mut rep = Report::new(
        args,
        "(a) tampering of honest 120-byte wire messages: every single-byte flip x 3 masks, every \
         truncation, field substitutions (version, author, signature, timestamp, logical, body), \
         re-signing by another key under the original author, messages validly signed over an \
         unsupported version, CBOR type/structure confusion; each injected into the real \
         subscription, yields judged on content against the honestly-signed set and an independent \
         re-verification. Non-trivial = an injected message the reference says must be rejected; \
         distinct by (base, class, label). (b) publish sequences of 50..500 messages through the \
         real publisher while the mock wall clock is held / stepped forward / stepped back; every \
         published byte string is re-verified, must carry a strictly greater (timestamp, logical) \
         than its predecessor and be byte-distinct, and is looped back through the subscription. \
         Non-trivial = a publish whose clock reading is <= the previous message's timestamp; \
         distinct by (sequence, index).",
        200,
    );
    let n_bases = args.n(6, 300);
    let n_seqs = args.n(24, 1_500);
    let rt = tokio::runtime::Builder::new_multi_thread().worker_threads(2).enable_all().build().expect("runtime");
    let env = rt.block_on(Env::new());
    let store = rt.block_on(async { SqliteStoreBuilder::new().build().await.expect("memory store") });
    let mut judge = Judge { honest: HashSet::new() };

    // ---------------------------------------------------------------------------------------
    // (a) tampering
    // ---------------------------------------------------------------------------------------
    let topic = topic_for(args.seed, 0, 0x16);
    let (handle, channels) = rt.block_on(env.open(topic));
    let forge = OperationForge::from_signing_key(SigningKey::from_bytes(&[9u8; 32]), store.clone());
    let (_publisher, sub): (EphemeralStreamPublisher<String>, EphemeralStreamSubscription<String>) =
        ephemeral_stream(topic, forge, handle.clone());
    let mut drv = SubDriver::new(sub, &channels.from_gossip_tx);
    for b in 0..n_bases {
        let mut rng = Rng::fork(args.seed, b);
        let key = SigningKey::from_bytes(&rng.array32());
        let other = SigningKey::from_bytes(&rng.array32());
        let ts = 1_600_000_000_000_000 + rng.below(200_000_000_000_000);
        let logical = rng.below(24);
        let body: String = (0..7).map(|_| (b'a' + rng.below(26) as u8) as char).collect();
        let base = Wrapped::honest(&key, 1, ts, logical, &cbor_text(&body));
        let sibling = Wrapped::honest(&key, 1, ts + 1 + rng.below(1000), 0, &cbor_text(&format!("{body}-sib")));
        let attacker_msg = Wrapped::honest(&other, 1, ts, logical, &cbor_text(&body));
        for w in [&base, &sibling, &attacker_msg] {
            judge.honest.insert((w.author, w.timestamp, w.body.clone()));
        }
        let base_bytes = base.encode();
        if b == 0 {
            rep.extra("base_message_len", json!(base_bytes.len()));
        }
        // Positive controls: honest messages are yielded with their content.
        for (label, w) in [("honest", &base), ("honest sibling", &sibling), ("honest, other author", &attacker_msg), ("honest replayed", &base)] {
            let bytes = w.encode();
            match drv.inject(&bytes) {
                Some(y) => {
                    rep.bump("honest_yielded", 1);
                    if let Some((sig, what)) = judge.judge(&bytes, "honest", &y) {
                        rep.violation(&sig, what, json!({"seed": args.seed, "base": b, "label": label, "injected_hex": hex(&bytes)}));
                    }
                }
                None => rep.bump("honest_not_yielded(not judged here, see C17)", 1),
            }
            rep.case(None::<()>);
        }
        for t in tamperings(&mut rng, &base, &key, &other, &sibling) {
            let yielded = drv.inject(&t.bytes);
            rep.bump(&format!("injected:{}", t.class), 1);
            match &yielded {
                Some(y) => {
                    rep.bump(&format!("yielded:{}", t.class), 1);
                    if let Some((sig, what)) = judge.judge(&t.bytes, t.class, y) {
                        rep.violation(
                            &sig,
                            format!("{} [{}: {}]", what, t.class, t.label),
                            json!({"seed": args.seed, "base": b, "class": t.class, "label": t.label, "honest_hex": hex(&base_bytes), "injected_hex": hex(&t.bytes),
                                   "yielded": {"author": hex(&y.author), "timestamp": y.timestamp, "body": y.body}}),
                        );
                    } else if t.must_reject {
                        // Yielded although we labelled it must-reject, yet content is honest and
                        // re-verifies: byte-level malleability. Recorded, not judged.
                        rep.bump("yielded_equivalent_encoding(not judged)", 1);
                        rep.bump(&format!("yielded_equivalent_encoding(not judged):{}:{}", t.class, t.label.split(' ').next().unwrap_or("")), 1);
                    }
                }
                None => {
                    if !t.must_reject {
                        rep.bump("equivalent_encoding_rejected(not judged)", 1);
                    }
                }
            }
            rep.case(if t.must_reject { Some((b, t.class, t.label.clone())) } else { None });
            if rep.want_sample() && b == 0 && (t.label == "pos=40 mask=0x01" || t.label == "timestamp+1") {
                rep.sample(json!({"class": t.class, "label": t.label, "injected_hex": hex(&t.bytes), "yielded": yielded.is_some()}));
            }
        }
    }
    rep.extra("tamper_pending_polls_with_unread", json!(drv.pending_with_unread));
    drop(drv);
    drop(handle);

    // ---------------------------------------------------------------------------------------
    // (b) publish sequences under clock faults (this thread's mock clock)
    // ---------------------------------------------------------------------------------------
    let mut clock_kinds = [0u64; 3]; // forward, held, back
    for s in 0..n_seqs {
        let mut rng = Rng::fork(args.seed ^ 0xB16, s);
        let topic = topic_for(args.seed, s + 1, 0x61);
        let (handle, mut channels) = rt.block_on(env.open(topic));
        let key = SigningKey::from_bytes(&rng.array32());
        let author = *key.verifying_key().as_bytes();
        let forge = OperationForge::from_signing_key(key, store.clone());
        let mode = rng.below(5); // 0 held, 1 forward only, 2 mostly back, 3 mixed, 4 mixed around zero
        let mut clock: u64 = if mode == 4 { rng.below(50) } else { 1_600_000_000_000_000 + rng.below(100_000_000_000_000) };
        MockClock::set_system_time(Duration::from_micros(clock));
        let (publisher, sub): (EphemeralStreamPublisher<String>, EphemeralStreamSubscription<String>) =
            ephemeral_stream(topic, forge, handle.clone());
        let publisher2 = publisher.clone();
        let mut drv = SubDriver::new(sub, &channels.from_gossip_tx);
        let len = 50 + rng.below(451);
        let mut prev: Option<(u64, u64)> = None;
        let mut seen: HashSet<Vec<u8>> = HashSet::new();
        let mut first_bad: Option<(String, String, serde_json::Value)> = None;
        let mut duplicates = 0u64;
        let mut non_increasing = 0u64;
        let mut trace: Vec<serde_json::Value> = Vec::new();
        for k in 0..len {
            // Move the wall clock.
            let step = match mode {
                0 => 0i64,
                1 => rng.mag(40) as i64,
                2 => if rng.chance(0.7) { -(rng.mag(36) as i64) - 1 } else { rng.mag(20) as i64 },
                _ => match rng.below(4) {
                    0 => 0,
                    1 => -(rng.mag(34) as i64) - 1,
                    _ => rng.mag(30) as i64,
                },
            };
            clock = (clock as i64).saturating_add(step).max(0) as u64;
            clock_kinds[if step > 0 { 0 } else if step == 0 { 1 } else { 2 }] += 1;
            MockClock::set_system_time(Duration::from_micros(clock));
            let body = if rng.chance(0.4) { "same".to_string() } else { format!("m{k}") };
            let p = if k % 3 == 2 { &publisher2 } else { &publisher };
            if let Err(e) = futures::executor::block_on(p.publish(body.clone())) {
                rep.inconclusive(format!("publish failed: {e}"));
                break;
            }
            let Ok(bytes) = channels.to_gossip_rx.try_recv() else {
                rep.violation("C16:publish-produced-no-message", "publish returned Ok but nothing reached the gossip channel", json!({"seed": args.seed, "sequence": s, "index": k}));
                break;
            };
            rep.bump("published", 1);
            let Some(w) = Wrapped::parse_lenient(&bytes) else {
                rep.violation("C16:published-message-unparseable", "published bytes are not a wrapped-message tuple", json!({"seed": args.seed, "sequence": s, "index": k, "hex": hex(&bytes)}));
                break;
            };
            if !(w.version == 1 && w.author == author && w.body == cbor_text(&body) && w.verifies()) {
                rep.violation(
                    "C16:published-message-not-authentic",
                    "published message does not carry a valid signature of the publisher over (1, author, timestamp, logical, body)",
                    json!({"seed": args.seed, "sequence": s, "index": k, "hex": hex(&bytes)}),
                );
                break;
            }
            judge.honest.insert((w.author, w.timestamp, w.body.clone()));
            let cur = (w.timestamp, w.logical);
            let nontrivial = prev.is_some_and(|p| clock <= p.0);
            if trace.len() < 2000 {
                trace.push(json!([k, clock, w.timestamp, w.logical]));
            }
            if let Some(p) = prev {
                if cur <= p {
                    non_increasing += 1;
                    if first_bad.is_none() {
                        let rel = if clock < p.0 { "clock-behind" } else if clock == p.0 { "clock-equal" } else { "clock-ahead" };
                        first_bad = Some((
                            format!("C16:publish-timestamp-not-increasing:{rel}"),
                            format!(
                                "publish #{k}: wall clock read {clock}, previous message carried ({}, {}), this one carries ({}, {}) which is not greater",
                                p.0, p.1, cur.0, cur.1
                            ),
                            json!({"index": k, "clock": clock, "previous": [p.0, p.1], "current": [cur.0, cur.1]}),
                        ));
                    }
                }
            }
            if !seen.insert(bytes.clone()) {
                duplicates += 1;
                if first_bad.is_none() {
                    first_bad = Some((
                        "C16:publish-duplicate-bytes".into(),
                        format!("publish #{k} produced a byte string identical to an earlier publish although timestamps were increasing"),
                        json!({"index": k, "hex": hex(&bytes)}),
                    ));
                }
            }
            prev = Some(cur);
            // Loop back through the real subscription.
            match drv.inject(&bytes) {
                Some(y) => {
                    rep.bump("loopback_yielded", 1);
                    if let Some((sig, what)) = judge.judge(&bytes, "published", &y) {
                        rep.violation(&sig, what, json!({"seed": args.seed, "sequence": s, "index": k, "hex": hex(&bytes)}));
                    } else if (y.author, y.timestamp, y.body.as_str()) != (author, w.timestamp, body.as_str()) {
                        rep.violation("C16:loopback-content-differs", "subscription yielded a different (author, timestamp, body) than was published", json!({"seed": args.seed, "sequence": s, "index": k, "hex": hex(&bytes)}));
                    }
                }
                None => rep.bump("loopback_not_yielded(not judged here, see C17)", 1),
            }
            rep.case(if nontrivial { Some((s, k)) } else { None });
        }
        if let Some((sig, what, detail)) = first_bad {
            let first_ix = detail["index"].as_u64().unwrap_or(0) as usize;
            let lo = first_ix.saturating_sub(6);
            rep.violation(
                &sig,
                format!("{what} ({non_increasing} non-increasing, {duplicates} byte-identical publishes in this sequence of {len})"),
                json!({"seed": args.seed, "sequence": s, "clock_mode": mode, "first": detail, "non_increasing": non_increasing, "byte_identical": duplicates,
                       "trace_[index,clock,timestamp,logical]": trace.iter().skip(lo).take(12).collect::<Vec<_>>()}),
            );
        }
        if rep.want_sample() && s < 2 {
            rep.sample(json!({"sequence": s, "clock_mode": mode, "len": len, "first_[index,clock,timestamp,logical]": trace.iter().take(6).collect::<Vec<_>>()}));
        }
    }
    rep.extra("clock_steps_forward", json!(clock_kinds[0]));
    rep.extra("clock_steps_held", json!(clock_kinds[1]));
    rep.extra("clock_steps_back", json!(clock_kinds[2]));
    rep.extra("honest_set_size", json!(judge.honest.len()));
    rep.finish(args);
    rt.shutdown_background();
}
