//! C40 — topic sync metrics count every session's bytes exactly once.
//!
//! The real `Aggregator` (hook H3) is fed lifecycle-conforming interleavings of 1..6 sessions
//! (SessionStarted, SyncStarted, OperationReceived*, SyncFinished, [LiveModeStarted,
//! OperationReceived*], SessionFinished | Failed at any point) whose per-session byte counters
//! only grow. A per-session ledger written from the statement bounds the totals at every step:
//!
//!   counted(i) = sum of the changes of the topic totals observed at events of session i,
//!   lower(i)   = bytes reported by the session's latest SyncFinished / SessionFinished (what the
//!                aggregator is obliged to have counted by now),
//!   upper(i)   = the largest byte counters any event of session i carried (what the session can
//!                have transferred at most, as far as events tell).
//!
//! `lower(i) <= counted(i) <= upper(i)` after every event of session i, totals equal the exact sum
//! for cleanly finished sessions once all sessions ended, running == started - ended at every step.

use p2panda::streams::verif::{Aggregator, aggregator_process};
use p2panda_core::{Body, Header, Operation, SigningKey};
use p2panda_sync::FromSync;
use p2panda_sync::protocols::{Metrics, TopicLogSyncEvent};
use vh_common::{Args, Report, Rng, json};

#[derive(Clone, Copy, Debug, PartialEq, Eq, Hash, PartialOrd, Ord)]
enum Ev {
    SessionStarted,
    SyncStarted,
    OpSync,
    SyncFinished,
    LiveModeStarted,
    OpLive,
    SessionFinished,
    Failed,
}

impl Ev {
    fn code(self) -> char {
        match self {
            Ev::SessionStarted => 'S',
            Ev::SyncStarted => 's',
            Ev::OpSync => 'o',
            Ev::SyncFinished => 'f',
            Ev::LiveModeStarted => 'L',
            Ev::OpLive => 'l',
            Ev::SessionFinished => 'F',
            Ev::Failed => 'X',
        }
    }
}

/// Event script of one session, following the documented lifecycle.
fn gen_session(rng: &mut Rng, with_session_started: bool) -> Vec<Ev> {
    let mut v = Vec::new();
    if with_session_started {
        v.push(Ev::SessionStarted);
    }
    let fail_p = if rng.chance(0.3) { 0.15 } else { 0.0 };
    macro_rules! maybe_fail {
        () => {
            if rng.chance(fail_p) {
                v.push(Ev::Failed);
                return v;
            }
        };
    }
    maybe_fail!();
    v.push(Ev::SyncStarted);
    for _ in 0..rng.below(5) {
        maybe_fail!();
        v.push(Ev::OpSync);
    }
    maybe_fail!();
    v.push(Ev::SyncFinished);
    if rng.chance(0.7) {
        maybe_fail!();
        v.push(Ev::LiveModeStarted);
        for _ in 0..rng.below(5) {
            maybe_fail!();
            v.push(Ev::OpLive);
        }
    }
    maybe_fail!();
    v.push(Ev::SessionFinished);
    v
}

#[derive(Default, Clone)]
struct Ledger {
    started: bool,
    ended: bool,
    failed: bool,
    sync_finished: bool,
    live: bool,
    /// Bytes (sent, received) at the latest SyncFinished / SessionFinished.
    settled: (u64, u64),
    /// Largest (sent, received) carried by any event of the session.
    seen: (u64, u64),
}

fn dummy_operation() -> Operation<()> {
    let key = SigningKey::from_bytes(&[3u8; 32]);
    let body = Body::new(b"x");
    let mut header = Header::<()> {
        version: 1,
        verifying_key: key.verifying_key(),
        signature: None,
        payload_size: body.size(),
        payload_hash: Some(body.hash()),
        seq_num: 0,
        backlink: None,
        extensions: (),
    };
    header.sign(&key);
    Operation { hash: header.hash(), header, body: Some(body) }
}

pub fn run(args: &Args) {
    let mut rep = Report::new(
        args,
        "random interleavings of 1..6 sessions, each following the documented lifecycle \
         (S=SessionStarted s=SyncStarted o=OperationReceived(sync) f=SyncFinished L=LiveModeStarted \
         l=OperationReceived(live) F=SessionFinished X=Failed at any point), per-session byte \
         counters that only grow (sync and live, sent and received). Oracle: ledger bounds on both \
         totals and running == started - ended after every event; exact equality at the end. \
         Non-trivial = at least one session delivers SessionFinished after SyncFinished; distinct \
         by the interleaved event string with session numbers.",
        100,
    );
    let n = args.n(2_000, 1_000_000);
    let op = dummy_operation();
    let remote = SigningKey::from_bytes(&[4u8; 32]).verifying_key();
    for case in 0..n {
        let mut rng = Rng::fork(args.seed, case);
        let n_sessions = 1 + rng.usize_below(6);
        // A small share of interleavings also contains sessions whose SessionStarted is missing
        // (the sync layer never emits it today): observed, not judged.
        let unjudged_running = rng.chance(0.05);
        let mut scripts: Vec<Vec<Ev>> = (0..n_sessions).map(|i| gen_session(&mut rng, !(unjudged_running && i == 0))).collect();
        for s in &mut scripts {
            s.reverse(); // pop from the back
        }
        let ids: Vec<u64> = (0..n_sessions).map(|i| if rng.bool() { i as u64 } else { rng.next_u64() >> 8 | i as u64 }).collect();
        let mut metrics: Vec<Metrics> = vec![Metrics::default(); n_sessions];
        let mut ledger: Vec<Ledger> = vec![Ledger::default(); n_sessions];
        let mut agg = Aggregator::new();
        let mut trace = String::new();
        let mut events: Vec<serde_json::Value> = Vec::new();
        let mut has_f_then_big_f = false;
        let mut violated = false;
        let mut steps = 0u64;
        let mut contrib: Vec<(i64, i64)> = vec![(0, 0); n_sessions];
        let mut total_before = (0u64, 0u64);
        loop {
            let alive: Vec<usize> = (0..n_sessions).filter(|i| !scripts[*i].is_empty()).collect();
            if alive.is_empty() {
                break;
            }
            let i = *rng.pick(&alive);
            let ev = scripts[i].pop().unwrap();
            // Grow this session's counters in the phase the event belongs to.
            let m = &mut metrics[i];
            let grow = |rng: &mut Rng| if rng.chance(0.2) { 0 } else { 1 + rng.below(5_000) as u32 };
            match ev {
                Ev::SyncStarted => {
                    m.inbound_sync_bytes = grow(&mut rng) * 4;
                    m.outbound_sync_bytes = grow(&mut rng) * 4;
                    m.inbound_sync_operations = rng.below(50) as u32;
                    m.outbound_sync_operations = rng.below(50) as u32;
                }
                Ev::OpSync | Ev::SyncFinished => {
                    m.received_sync_bytes += grow(&mut rng);
                    m.received_sync_operations += 1;
                    m.sent_sync_bytes += grow(&mut rng);
                    m.sent_sync_operations += rng.below(2) as u32;
                }
                Ev::OpLive | Ev::SessionFinished => {
                    // SessionFinished directly after SyncFinished (no live mode) keeps the
                    // counters; with live mode they may have grown.
                    if ev == Ev::OpLive || (ledger[i].live && rng.chance(0.6)) {
                        m.received_live_bytes += grow(&mut rng);
                        m.received_live_operations += 1;
                        m.sent_live_bytes += grow(&mut rng);
                        m.sent_live_operations += rng.below(2) as u32;
                    }
                }
                _ => {}
            }
            let m = metrics[i].clone();
            let bytes = (m.sent_bytes() as u64, m.received_bytes() as u64);
            let event = match ev {
                Ev::SessionStarted => TopicLogSyncEvent::SessionStarted,
                Ev::SyncStarted => TopicLogSyncEvent::SyncStarted { metrics: m.clone() },
                Ev::OpSync | Ev::OpLive => TopicLogSyncEvent::OperationReceived { operation: Box::new(op.clone()), metrics: m.clone() },
                Ev::SyncFinished => TopicLogSyncEvent::SyncFinished { metrics: m.clone() },
                Ev::LiveModeStarted => TopicLogSyncEvent::LiveModeStarted,
                Ev::SessionFinished => TopicLogSyncEvent::SessionFinished { metrics: m.clone() },
                Ev::Failed => TopicLogSyncEvent::Failed { error: "injected failure".into() },
            };
            // Ledger, from the statement.
            let l = &mut ledger[i];
            match ev {
                Ev::SessionStarted => l.started = true,
                Ev::SyncStarted | Ev::OpSync | Ev::OpLive => l.seen = bytes,
                Ev::SyncFinished => {
                    l.seen = bytes;
                    l.settled = bytes;
                    l.sync_finished = true;
                }
                Ev::SessionFinished => {
                    if l.sync_finished {
                        has_f_then_big_f = true;
                    }
                    l.seen = bytes;
                    l.settled = bytes;
                    l.ended = true;
                }
                Ev::LiveModeStarted => l.live = true,
                Ev::Failed => {
                    l.ended = true;
                    l.failed = true;
                }
            }
            trace.push_str(&format!("{i}{} ", ev.code()));
            if events.len() < 80 {
                events.push(json!({"session": i, "id": ids[i], "event": format!("{ev:?}"), "sent_bytes": bytes.0, "received_bytes": bytes.1}));
            }
            let fed = vh_common::catch(std::panic::AssertUnwindSafe(|| {
                aggregator_process::<()>(&mut agg, FromSync { session_id: ids[i], remote, event });
            }));
            steps += 1;
            if let Err(p) = fed {
                // The statement does not speak about panics; with the byte counts used here
                // (< 2^20 per session) an arithmetic overflow can only follow from over-counting.
                rep.violation("C40:aggregator-panicked", format!("Aggregator::process panicked: {p}"), json!({"seed": args.seed, "case": case, "trace": trace, "events": events}));
                violated = true;
                break;
            }
            // Attribute the change of the totals to the session this event belongs to: an event
            // of session i can only reveal bytes of session i.
            let total = (agg.total_bytes_sent() as u64, agg.total_bytes_received() as u64);
            contrib[i].0 += total.0 as i64 - total_before.0 as i64;
            contrib[i].1 += total.1 as i64 - total_before.1 as i64;
            total_before = total;
            let (lo, hi, c) = (ledger[i].settled, ledger[i].seen, contrib[i]);
            let witness = || {
                json!({"seed": args.seed, "case": case, "after_event": format!("session {i} {ev:?}"), "trace": trace, "events": events,
                       "totals_sent_received": [total.0, total.1],
                       "session_counted_in_totals": [c.0, c.1], "session_settled_bytes(lower)": [lo.0, lo.1], "session_max_bytes_seen(upper)": [hi.0, hi.1]})
            };
            let when = match ev {
                Ev::SessionFinished => "on-session-finished",
                Ev::SyncFinished => "on-sync-finished",
                _ => "other",
            };
            if c.0 > hi.0 as i64 || c.1 > hi.1 as i64 {
                rep.violation(
                    &format!("C40:bytes-counted-more-than-transferred:{when}"),
                    format!("after session {i} {ev:?}: the topic totals now contain (sent {}, received {}) for this session, which transferred only (sent {}, received {})", c.0, c.1, hi.0, hi.1),
                    witness(),
                );
                violated = true;
                break;
            }
            if c.0 < lo.0 as i64 || c.1 < lo.1 as i64 {
                rep.violation(
                    &format!("C40:bytes-counted-less-than-transferred:{when}"),
                    format!("after session {i} {ev:?}: the topic totals contain (sent {}, received {}) for this session, which reported (sent {}, received {}) at its latest SyncFinished/SessionFinished", c.0, c.1, lo.0, lo.1),
                    witness(),
                );
                violated = true;
                break;
            }
            if !unjudged_running {
                let running_ref = ledger.iter().filter(|l| l.started && !l.ended).count() as u32;
                if agg.running_sessions() != running_ref {
                    rep.violation(
                        "C40:running-sessions-mismatch",
                        format!("after session {i} {ev:?}: running_sessions() = {} but started - ended = {running_ref}", agg.running_sessions()),
                        witness(),
                    );
                    violated = true;
                    break;
                }
            } else {
                let active_ref = ledger.iter().enumerate().filter(|(k, l)| (l.started || (*k == 0 && l.seen != (0, 0))) && !l.ended).count() as u32;
                if agg.running_sessions() != active_ref {
                    rep.bump("observed_not_judged:running_count_differs_when_SessionStarted_is_missing", 1);
                }
            }
        }
        rep.bump("events_fed", steps);
        if !violated {
            // All sessions ended: cleanly finished sessions are settled exactly.
            let all_clean = ledger.iter().all(|l| !l.failed);
            if all_clean {
                let exact = ledger.iter().fold((0u64, 0u64), |a, l| (a.0 + l.settled.0, a.1 + l.settled.1));
                let total = (agg.total_bytes_sent() as u64, agg.total_bytes_received() as u64);
                if total != exact {
                    rep.violation("C40:final-totals-differ", format!("all sessions finished cleanly: totals {total:?} != sum of session bytes {exact:?}"), json!({"seed": args.seed, "case": case, "trace": trace, "events": events}));
                }
            }
        }
        if ledger.iter().any(|l| l.failed) {
            rep.bump("cases_with_failed_session", 1);
        }
        if unjudged_running {
            rep.bump("cases_with_missing_SessionStarted(running count not judged)", 1);
        }
        rep.case(if has_f_then_big_f { Some(trace.clone()) } else { None });
        if rep.want_sample() && case < 4 {
            rep.sample(json!({"case": case, "sessions": n_sessions, "trace": trace, "final_totals": [agg.total_bytes_sent(), agg.total_bytes_received()], "running": agg.running_sessions()}));
        }
    }
    rep.finish(args);
}
