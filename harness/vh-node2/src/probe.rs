//! Harness-owned gossip manager actor (hook H4).
//!
//! `Gossip::stream()` asks its manager actor to `Subscribe(topic, nodes, reply)` and receives the
//! two channel senders back. This probe answers that request with channels the harness keeps the
//! other ends of, so the *real* `Gossip` / `GossipHandle` / `GossipSubscription` /
//! `EphemeralStreamPublisher` / `EphemeralStreamSubscription` code runs over channels we control:
//! we read what the publisher sends (`to_gossip_rx`), inject arbitrary bytes into the subscription
//! (`from_gossip_tx`) and overflow the 128-slot broadcast to produce lag.

use std::collections::HashMap;
use std::sync::{Arc, Mutex};

use p2panda_core::{SigningKey, Topic};
use p2panda_net::AddressBook;
use p2panda_net::gossip::{Gossip, GossipConfig, GossipHandle, ToGossipManager};
use ractor::{Actor, ActorProcessingErr, ActorRef};
use tokio::sync::{broadcast, mpsc};

/// Same capacity the real manager uses for the broadcast ("from gossip") channel.
pub const BROADCAST_CAPACITY: usize = 128;

/// Capacity of the "to gossip" channel. The real manager uses 128 and a session actor drains it;
/// the probe has no drainer besides the harness, so it is larger to let publish bursts through.
pub const TO_GOSSIP_CAPACITY: usize = 4096;

pub struct Channels {
    pub to_gossip_rx: mpsc::Receiver<Vec<u8>>,
    pub from_gossip_tx: broadcast::Sender<Vec<u8>>,
}

#[derive(Default)]
pub struct Shared {
    pub channels: HashMap<Topic, Channels>,
    pub subscribes: u64,
    pub unsubscribes: u64,
    pub other_messages: u64,
}

struct ProbeActor;

impl Actor for ProbeActor {
    type Msg = ToGossipManager;
    type State = Arc<Mutex<Shared>>;
    type Arguments = Arc<Mutex<Shared>>;

    async fn pre_start(
        &self,
        _myself: ActorRef<Self::Msg>,
        args: Self::Arguments,
    ) -> Result<Self::State, ActorProcessingErr> {
        Ok(args)
    }

    async fn handle(
        &self,
        myself: ActorRef<Self::Msg>,
        message: Self::Msg,
        state: &mut Self::State,
    ) -> Result<(), ActorProcessingErr> {
        match message {
            ToGossipManager::Subscribe(topic, _nodes, reply) => {
                let (to_gossip_tx, to_gossip_rx) = mpsc::channel(TO_GOSSIP_CAPACITY);
                // (`_`: the initial receiver is dropped right here, so the subscription under test is the
                // only receiver of this channel.)
                let (from_gossip_tx, _) = broadcast::channel(BROADCAST_CAPACITY);
                {
                    let mut s = state.lock().unwrap();
                    s.subscribes += 1;
                    s.channels.insert(
                        topic,
                        Channels {
                            to_gossip_rx,
                            from_gossip_tx: from_gossip_tx.clone(),
                        },
                    );
                }
                let _ = reply.send((to_gossip_tx, from_gossip_tx));
            }
            ToGossipManager::Unsubscribe(topic) => {
                let mut s = state.lock().unwrap();
                s.unsubscribes += 1;
                s.channels.remove(&topic);
            }
            ToGossipManager::Events(reply) => {
                let (_tx, rx) = broadcast::channel(1);
                let _ = reply.send(rx);
            }
            ToGossipManager::Shutdown => {
                myself.stop(None);
            }
            _ => {
                state.lock().unwrap().other_messages += 1;
            }
        }
        Ok(())
    }
}

/// The real `Gossip` API object over the probe actor.
pub struct Env {
    pub gossip: Gossip,
    pub shared: Arc<Mutex<Shared>>,
}

impl Env {
    pub async fn new() -> Env {
        let shared: Arc<Mutex<Shared>> = Arc::default();
        let (actor_ref, _handle) = Actor::spawn(None, ProbeActor, shared.clone())
            .await
            .expect("spawn probe actor");
        let address_book = AddressBook::builder()
            .spawn()
            .await
            .expect("offline address book");
        let my_node_id = SigningKey::from_bytes(&[7u8; 32]).verifying_key();
        let gossip = Gossip::verif_from_actor(actor_ref, my_node_id, address_book, GossipConfig::default());
        Env { gossip, shared }
    }

    /// Join `topic` through the real `Gossip::stream` and hand back the real handle plus the
    /// harness ends of its two channels.
    pub async fn open(&self, topic: Topic) -> (GossipHandle, Channels) {
        let handle = self.gossip.stream(topic).await.expect("gossip stream over probe actor");
        let channels = self
            .shared
            .lock()
            .unwrap()
            .channels
            .remove(&topic)
            .expect("probe actor saw the Subscribe for this topic");
        (handle, channels)
    }
}
