//! Node-level harness (second part): ephemeral streams over a harness-owned gossip manager actor,
//! sync metrics aggregation, persisted stream cursors and Node API header extensions.
//!
//! C16 ephemeral messages authentic and unique per publish, C17 ephemeral subscription never
//! stalls on invalid messages, C40 sync metrics count bytes once, C07 (persisted part) cursors
//! only move forward and only for their own topic, C02 (Node extensions part) header encoding
//! round-trips and is deterministic.
//!
//! `p2panda-core/test_utils` is enabled in this build: `Timestamp::now()` reads the thread-local
//! `mock_instant` clock (0 in every thread unless set) — C16 uses it as the wall-clock fault
//! injector.

mod c02;
mod c07;
mod c16;
mod c17;
mod c40;
mod probe;
mod wire;

use vh_common::Args;

fn main() {
    let args = Args::parse();
    match args.prop.as_str() {
        "C02" => c02::run(&args),
        "C07" => c07::run(&args),
        "C16" => c16::run(&args),
        "C17" => c17::run(&args),
        "C40" => c40::run(&args),
        other => panic!("vh-node2 does not serve {other}"),
    }
}
