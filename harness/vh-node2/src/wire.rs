//! Independent reference implementation of the ephemeral "wrapped message" wire format, written
//! from the format comment in `ephemeral_stream.rs`:
//!
//! ```plain
//! ( version[u64], verifying_key[32 bytes], signature[64 bytes], timestamp[u64],
//!   lamport_timestamp[u64], body )
//! ```
//! signed tuple: `( version, verifying_key, timestamp, lamport_timestamp, body )`.
//!
//! The envelope is assembled by hand (own CBOR head encoder), the body is any CBOR item given as
//! bytes. The lenient parser is used to *re-verify* what the subscription yielded; it accepts the
//! same relaxed field representations serde accepts (byte strings given as arrays of integers).

use ciborium::Value;
use p2panda_core::{Signature, SigningKey, VerifyingKey};

#[derive(Clone, Debug, PartialEq, Eq)]
pub struct Wrapped {
    pub version: u64,
    pub author: [u8; 32],
    pub signature: [u8; 64],
    pub timestamp: u64,
    pub logical: u64,
    /// Canonical CBOR encoding of the body value.
    pub body: Vec<u8>,
}

fn head(major: u8, n: u64, out: &mut Vec<u8>) {
    let m = major << 5;
    if n < 24 {
        out.push(m | n as u8);
    } else if n <= 0xff {
        out.push(m | 24);
        out.push(n as u8);
    } else if n <= 0xffff {
        out.push(m | 25);
        out.extend_from_slice(&(n as u16).to_be_bytes());
    } else if n <= 0xffff_ffff {
        out.push(m | 26);
        out.extend_from_slice(&(n as u32).to_be_bytes());
    } else {
        out.push(m | 27);
        out.extend_from_slice(&n.to_be_bytes());
    }
}

pub fn cbor_uint(n: u64, out: &mut Vec<u8>) {
    head(0, n, out)
}

pub fn cbor_bytes(b: &[u8], out: &mut Vec<u8>) {
    head(2, b.len() as u64, out);
    out.extend_from_slice(b);
}

pub fn cbor_text(s: &str) -> Vec<u8> {
    let mut out = Vec::new();
    head(3, s.len() as u64, &mut out);
    out.extend_from_slice(s.as_bytes());
    out
}

pub fn cbor_array_head(n: u64, out: &mut Vec<u8>) {
    head(4, n, out)
}

/// Bytes that are signed: `(version, verifying_key, timestamp, logical, body)`.
pub fn signed_bytes(version: u64, author: &[u8; 32], timestamp: u64, logical: u64, body: &[u8]) -> Vec<u8> {
    let mut out = Vec::with_capacity(64 + body.len());
    cbor_array_head(5, &mut out);
    cbor_uint(version, &mut out);
    cbor_bytes(author, &mut out);
    cbor_uint(timestamp, &mut out);
    cbor_uint(logical, &mut out);
    out.extend_from_slice(body);
    out
}

impl Wrapped {
    /// A message signed by `key` over exactly the fields it carries, reporting `key` as author.
    pub fn honest(key: &SigningKey, version: u64, timestamp: u64, logical: u64, body: &[u8]) -> Wrapped {
        let author = *key.verifying_key().as_bytes();
        let sig = key.sign(&signed_bytes(version, &author, timestamp, logical, body));
        Wrapped { version, author, signature: sig.to_bytes(), timestamp, logical, body: body.to_vec() }
    }

    pub fn encode(&self) -> Vec<u8> {
        let mut out = Vec::with_capacity(120 + self.body.len());
        cbor_array_head(6, &mut out);
        cbor_uint(self.version, &mut out);
        cbor_bytes(&self.author, &mut out);
        cbor_bytes(&self.signature, &mut out);
        cbor_uint(self.timestamp, &mut out);
        cbor_uint(self.logical, &mut out);
        out.extend_from_slice(&self.body);
        out
    }

    /// Independent re-computation: does `signature` verify for `author` over the signed tuple?
    pub fn verifies(&self) -> bool {
        let Ok(vk) = VerifyingKey::from_bytes(&self.author) else {
            return false;
        };
        let sig = Signature::from_bytes(&self.signature);
        vk.verify(&signed_bytes(self.version, &self.author, self.timestamp, self.logical, &self.body), &sig)
    }

    /// Lenient parse of the first CBOR item in `bytes` (trailing bytes ignored, like the decoder
    /// under test). `None` when the item is not a 6+-element array of the expected shapes.
    pub fn parse_lenient(bytes: &[u8]) -> Option<Wrapped> {
        let v: Value = ciborium::from_reader(bytes).ok()?;
        let Value::Array(items) = v else { return None };
        if items.len() < 6 {
            return None;
        }
        let version = uint(&items[0])?;
        let author: [u8; 32] = byteish(&items[1])?.try_into().ok()?;
        let signature: [u8; 64] = byteish(&items[2])?.try_into().ok()?;
        let timestamp = uint(&items[3])?;
        let logical = uint(&items[4])?;
        let mut body = Vec::new();
        ciborium::into_writer(&items[5], &mut body).ok()?;
        Some(Wrapped { version, author, signature, timestamp, logical, body })
    }
}

fn uint(v: &Value) -> Option<u64> {
    match v {
        Value::Integer(i) => u64::try_from(*i).ok(),
        _ => None,
    }
}

fn byteish(v: &Value) -> Option<Vec<u8>> {
    match v {
        Value::Bytes(b) => Some(b.clone()),
        Value::Text(s) => Some(s.as_bytes().to_vec()),
        Value::Array(xs) => xs.iter().map(|x| uint(x).and_then(|n| u8::try_from(n).ok())).collect(),
        _ => None,
    }
}
