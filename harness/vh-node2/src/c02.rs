//! C02 (Node API extensions part) — header encoding round-trips and is a deterministic function of
//! the header, for `p2panda::operation::Extensions` in both variants: Basic (log id, timestamp,
//! prune flag) and Causal (log id, timestamp, set of previous hashes with |previous| in 0..8).
//!
//! `Extensions` has private fields; values are obtained the way a remote peer's are: by decoding a
//! harness-encoded CBOR tuple through the public `Deserialize` impl. Decoding the same tuple twice
//! gives two *equal* extension values built independently (for Causal: two `HashSet` instances).
//! The generic extension types are covered by `vh-core C02`.

use p2panda::operation::Extensions;
use p2panda_core::cbor::{decode_cbor, encode_cbor};
use p2panda_core::{Body, Hash, Header, SigningKey, validate_header};
use vh_common::{Args, Report, Rng, hex, json};

struct Fields {
    key: SigningKey,
    payload: Option<Vec<u8>>,
    seq_num: u32,
    backlink: Option<Hash>,
}

fn gen_fields(rng: &mut Rng) -> Fields {
    let key = SigningKey::from_bytes(&rng.array32());
    let payload = if rng.chance(0.3) {
        None
    } else {
        let n = 1 + rng.usize_below(40);
        Some(rng.bytes(n))
    };
    let seq_num = match rng.below(5) {
        0 => 0,
        1 => 1,
        2 => u32::MAX,
        3 => rng.below(24) as u32,
        _ => rng.next_u32(),
    };
    let backlink = if seq_num == 0 { None } else { Some(Hash::digest(rng.bytes(8))) };
    Fields { key, payload, seq_num, backlink }
}

fn unsigned(f: &Fields, ext: Extensions) -> Header<Extensions> {
    let body = f.payload.as_ref().map(|p| Body::new(p));
    Header {
        version: 1,
        verifying_key: f.key.verifying_key(),
        signature: None,
        payload_size: body.as_ref().map(|b| b.size()).unwrap_or(0),
        payload_hash: body.as_ref().map(|b| b.hash()),
        seq_num: f.seq_num,
        backlink: f.backlink,
        extensions: ext,
    }
}

/// Harness-side encoding of the extensions tuple (see the format comment in
/// `p2panda/src/operation.rs`): `(version, variant_code, log_id, timestamp, prune_flag | [prev..])`.
fn ext_tuple_bytes(rng: &mut Rng, causal: bool, n_prev: usize) -> (Vec<u8>, Vec<Hash>) {
    let log_id = Hash::digest(rng.bytes(8));
    let timestamp: u64 = match rng.below(4) {
        0 => 0,
        1 => u64::MAX,
        _ => rng.next_u64() >> rng.below(64),
    };
    if causal {
        let mut prev: Vec<Hash> = (0..n_prev).map(|_| Hash::digest(rng.bytes(12))).collect();
        rng.shuffle(&mut prev);
        (encode_cbor(&(1u16, 1u16, log_id, timestamp, prev.clone())).expect("encode causal tuple"), prev)
    } else {
        (encode_cbor(&(1u16, 0u16, log_id, timestamp, rng.bool())).expect("encode basic tuple"), Vec::new())
    }
}

/// All checks of the statement on one header; returns the names of the checks that failed (in
/// order), so that evidence shows every consequence while the violation is keyed on the first.
fn failed_checks(original: &Header<Extensions>, rebuilt_unsigned: &Header<Extensions>, key: &SigningKey, decodes: usize) -> Vec<&'static str> {
    let mut failed = Vec::new();
    let mut fail = |name: &'static str| {
        if !failed.contains(&name) {
            failed.push(name);
        }
    };
    if validate_header(original).is_err() {
        fail("generated-header-invalid");
        return failed;
    }
    let bytes = original.to_bytes();
    let hash = original.hash();
    // Equal values encode identically: a clone, and an independently built equal value.
    if original.clone().to_bytes() != bytes {
        fail("clone-encodes-differently");
    }
    let mut orig_unsigned = original.clone();
    orig_unsigned.signature = None;
    if &orig_unsigned != rebuilt_unsigned {
        fail("harness-rebuild-differs");
        return failed;
    }
    if orig_unsigned.to_bytes() != rebuilt_unsigned.to_bytes() {
        fail("equal-values-encode-differently");
    }
    let mut rebuilt = rebuilt_unsigned.clone();
    rebuilt.sign(key);
    if rebuilt.hash() != hash {
        fail("equal-values-hash-differently");
    }
    // The original's signature is valid for the (equal) rebuilt value.
    let mut transplanted = rebuilt_unsigned.clone();
    transplanted.signature = original.signature;
    if &transplanted == original && !transplanted.verify() {
        fail("signature-invalid-on-equal-value");
    }
    let mut first_decode_bytes: Option<Vec<u8>> = None;
    for _ in 0..decodes {
        let d: Header<Extensions> = match decode_cbor(&bytes[..]) {
            Ok(d) => d,
            Err(_) => {
                fail("decode-failed");
                break;
            }
        };
        if &d != original {
            fail("decoded-not-equal");
        }
        if !d.verify() {
            fail("decoded-does-not-verify");
        }
        let re = d.to_bytes();
        if re != bytes {
            fail("reencode-differs");
        }
        match &first_decode_bytes {
            None => first_decode_bytes = Some(re.clone()),
            Some(f) => {
                if f != &re {
                    fail("two-decodes-encode-differently");
                }
            }
        }
        if d.hash() != hash {
            fail("hash-differs");
        }
        if validate_header(&d).is_err() {
            fail("decoded-invalid");
        }
        let dd: Result<Header<Extensions>, _> = decode_cbor(&re[..]);
        match dd {
            Ok(dd) => {
                if &dd != original {
                    fail("second-roundtrip-differs");
                }
            }
            Err(_) => fail("second-roundtrip-decode-failed"),
        }
    }
    failed
}

pub fn run(args: &Args) {
    let mut rep = Report::new(
        args,
        "random valid signed headers (payload present/absent, seq 0/1/random/u32::MAX with \
         backlink) carrying Node API extensions obtained by decoding a harness-encoded tuple: \
         Basic (prune flag on/off, timestamp 0/max/random) and Causal with |previous| in 0..8. \
         Per header: a clone and an independently decoded equal extensions value must encode and \
         hash identically and accept the same signature; Basic headers are decoded 3 times, Causal \
         headers 16 times (16 fresh HashSet instances): every decode equals the original, verifies, \
         re-encodes to the same bytes / hash and survives a second round trip. Non-trivial = header \
         passes validate_header; distinct by (variant, payload present, seq class, |previous|, \
         header hash).",
        500,
    );
    let n = args.n(5_000, 200_000);
    let mut causal_ge2 = 0u64;
    for i in 0..n {
        let mut rng = Rng::fork(args.seed, i);
        let f = gen_fields(&mut rng);
        let causal = i % 3 != 0;
        let n_prev = if causal { (i / 3 % 9) as usize } else { 0 };
        let kind = if causal { "causal" } else { "basic" };
        let (ext_bytes, prev) = ext_tuple_bytes(&mut rng, causal, n_prev);
        let ext_a: Extensions = match decode_cbor(&ext_bytes[..]) {
            Ok(e) => e,
            Err(e) => {
                rep.inconclusive(format!("harness-encoded {kind} extensions tuple was not accepted: {e}"));
                rep.case(None::<()>);
                continue;
            }
        };
        let ext_b: Extensions = decode_cbor(&ext_bytes[..]).expect("second decode of the same tuple");
        let mut original = unsigned(&f, ext_a);
        original.sign(&f.key);
        let rebuilt_unsigned = unsigned(&f, ext_b);
        let decodes = if causal { 16 } else { 3 };
        let failed = failed_checks(&original, &rebuilt_unsigned, &f.key, decodes);
        rep.add_evaluations(decodes as u64);
        if causal && n_prev >= 2 {
            causal_ge2 += 1;
        }
        rep.bump(&format!("headers:{kind}"), 1);
        if let Some(first) = failed.first() {
            for name in &failed {
                rep.bump(&format!("failed:{kind}:{name}"), 1);
            }
            rep.violation(
                &format!("C02:{kind}:{first}"),
                format!("{kind} extensions header (|previous| = {n_prev}): failed checks {failed:?}"),
                json!({"seed": args.seed, "case": i, "extensions_tuple_hex": hex(&ext_bytes), "previous": prev.iter().map(|h| h.to_string()).collect::<Vec<_>>(),
                       "header_hex": hex(&original.to_bytes()), "seq_num": f.seq_num, "failed_checks": failed}),
            );
        }
        let shape = (f.payload.is_some(), match f.seq_num { 0 => 0u8, 1 => 1, u32::MAX => 3, _ => 2 });
        let valid = !failed.contains(&"generated-header-invalid");
        rep.case(if valid { Some((causal, shape, n_prev, original.hash())) } else { None });
        if rep.want_sample() && (i == 0 || i == 7 || i == 16) {
            rep.sample(json!({"case": i, "variant": kind, "previous": n_prev, "extensions_tuple_hex": hex(&ext_bytes), "header_hex": hex(&original.to_bytes()), "failed_checks": failed}));
        }
    }
    rep.extra("causal_headers_with_2_or_more_previous", json!(causal_ge2));
    if causal_ge2 < 500 {
        rep.inconclusive(format!("only {causal_ge2} Causal headers with |previous| >= 2 (minimum 500)"));
    }
    rep.finish(args);
}
