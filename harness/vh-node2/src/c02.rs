//! C02 (Node API extensions part) — header encoding round-trips and is a deterministic function of
//! the header, for `p2panda::operation::Extensions` in both variants: Basic (log id, timestamp,
//! prune flag) and Causal (log id, timestamp, set of previous hashes with |previous| in 0..8).
//!
//! `Extensions` has private fields. Causal values are obtained the way a remote peer's are: by
//! decoding a harness-encoded CBOR tuple through the public `Deserialize` impl; decoding the same
//! tuple twice gives two *equal* values built independently (two `HashSet` instances). Basic values
//! are built once through the public constructor (`Extensions::from_topic(..).set_prune_flag(..)`,
//! timestamp taken from the mock wall clock) and once from the wire tuple. The content of every
//! value (log id, timestamp, prune flag, set of previous hashes) is read back through accessors and
//! through its own encoding and compared with what the harness put in.
//! The generic extension types are covered by `vh-core C02`.

use std::collections::BTreeSet;
use std::time::Duration;

use mock_instant::thread_local::MockClock;
use p2panda::operation::Extensions;
use p2panda_core::cbor::{decode_cbor, encode_cbor};
use p2panda_core::{Body, Hash, Header, SigningKey, validate_header};
use vh_common::{Args, Report, Rng, hex, json};

struct Fields {
    key: SigningKey,
    payload: Option<Vec<u8>>,
    seq_num: u32,
    backlink: Option<Hash>,
}

fn gen_fields(rng: &mut Rng) -> Fields {
    let key = SigningKey::from_bytes(&rng.array32());
    let payload = if rng.chance(0.3) {
        None
    } else {
        let n = 1 + rng.usize_below(40);
        Some(rng.bytes(n))
    };
    let seq_num = match rng.below(5) {
        0 => 0,
        1 => 1,
        2 => u32::MAX,
        3 => rng.below(24) as u32,
        _ => rng.next_u32(),
    };
    let backlink = if seq_num == 0 { None } else { Some(Hash::digest(rng.bytes(8))) };
    Fields { key, payload, seq_num, backlink }
}

fn unsigned(f: &Fields, ext: Extensions) -> Header<Extensions> {
    let body = f.payload.as_ref().map(|p| Body::new(p));
    Header {
        version: 1,
        verifying_key: f.key.verifying_key(),
        signature: None,
        payload_size: body.as_ref().map(|b| b.size()).unwrap_or(0),
        payload_hash: body.as_ref().map(|b| b.hash()),
        seq_num: f.seq_num,
        backlink: f.backlink,
        extensions: ext,
    }
}

/// What the harness intends the extensions to say.
#[derive(Clone, Debug, PartialEq, Eq)]
struct Intended {
    causal: bool,
    topic: [u8; 32],
    log_id: Hash,
    timestamp: u64,
    prune: bool,
    previous: BTreeSet<Hash>,
}

/// How the hashes of a Causal `previous` set are chosen. A hash is just 32 bytes on the wire, so a
/// remote peer picks them freely: besides real BLAKE3 digests the workload contains crafted
/// families whose members agree on long prefixes (an encoder ordering by anything less than all 32
/// bytes ties on them).
const FAMILIES: [&str; 7] = [
    "real-digests",
    "shared-prefix-k",      // k in {1, 4, 8, 16, 31} leading bytes equal, rest random
    "differ-in-last-byte",  // 31 bytes equal
    "differ-in-one-middle-byte",
    "extremes",             // all-zero, all-0xff and neighbours of them
    "crafted-and-real-mix", // a shared-prefix group among real digests
    "two-prefix-groups",    // two groups, each sharing 8..16 leading bytes
];

fn crafted_previous(rng: &mut Rng, family: usize, n: usize) -> Vec<Hash> {
    let mut out: Vec<[u8; 32]> = Vec::new();
    let push = |out: &mut Vec<[u8; 32]>, h: [u8; 32]| {
        if !out.contains(&h) {
            out.push(h);
        }
    };
    let real = |rng: &mut Rng| -> [u8; 32] { *Hash::digest(rng.bytes(12)).as_bytes() };
    let with_prefix = |rng: &mut Rng, base: &[u8; 32], k: usize| -> [u8; 32] {
        let mut h = rng.array32();
        h[..k].copy_from_slice(&base[..k]);
        h
    };
    let base = if rng.bool() { real(rng) } else { rng.array32() };
    let mut guard = 0;
    while out.len() < n && guard < 10_000 {
        guard += 1;
        let h = match family {
            0 => real(rng),
            1 => {
                let k = *rng.pick(&[1usize, 4, 8, 16, 31]);
                with_prefix(rng, &base, k)
            }
            2 => {
                let mut h = base;
                h[31] = rng.below(256) as u8;
                h
            }
            3 => {
                let mut h = base;
                let pos = 1 + rng.usize_below(30);
                h[pos] = rng.below(256) as u8;
                // Keep it a *single* differing byte relative to the base per member.
                h
            }
            4 => match rng.below(6) {
                0 => [0u8; 32],
                1 => [0xffu8; 32],
                2 => {
                    let mut h = [0u8; 32];
                    h[31] = 1 + rng.below(255) as u8;
                    h
                }
                3 => {
                    let mut h = [0xffu8; 32];
                    h[31] = rng.below(255) as u8;
                    h
                }
                4 => {
                    let mut h = [0u8; 32];
                    h[8 + rng.usize_below(24)] = 1 + rng.below(255) as u8;
                    h
                }
                _ => {
                    let mut h = [0xffu8; 32];
                    h[rng.usize_below(32)] = rng.below(255) as u8;
                    h
                }
            },
            5 => {
                if out.len() < 2 || rng.bool() {
                    let k = *rng.pick(&[8usize, 16, 31]);
                    with_prefix(rng, &base, k)
                } else {
                    real(rng)
                }
            }
            _ => {
                let mut b2 = base;
                b2[0] ^= 0x80;
                let k = 8 + rng.usize_below(9);
                if out.len() % 2 == 0 { with_prefix(rng, &base, k) } else { with_prefix(rng, &b2, k) }
            }
        };
        push(&mut out, h);
    }
    out.into_iter().map(Hash::from).collect()
}

/// Longest common prefix (in bytes) over all pairs of the set.
fn max_shared_prefix(prev: &[Hash]) -> usize {
    let mut best = 0;
    for (i, a) in prev.iter().enumerate() {
        for b in &prev[i + 1..] {
            let l = a.as_bytes().iter().zip(b.as_bytes().iter()).take_while(|(x, y)| x == y).count();
            best = best.max(l);
        }
    }
    best
}

fn gen_intended(rng: &mut Rng, causal: bool, n_prev: usize, family: usize) -> (Intended, Vec<Hash>) {
    let topic = rng.array32();
    // "To keep topic itself private we derive it with a BLAKE3 digest" (LogId::from_topic).
    let log_id = if causal { Hash::digest(rng.bytes(8)) } else { Hash::digest(topic) };
    let timestamp: u64 = match rng.below(4) {
        0 => 0,
        1 => u64::MAX,
        _ => rng.next_u64() >> rng.below(64),
    };
    let mut prev: Vec<Hash> = if causal { crafted_previous(rng, family, n_prev) } else { Vec::new() };
    rng.shuffle(&mut prev);
    let prune = !causal && rng.bool();
    (Intended { causal, topic, log_id, timestamp, prune, previous: prev.iter().copied().collect() }, prev)
}

/// Harness-side encoding of the extensions tuple (see the format comment in
/// `p2panda/src/operation.rs`): `(version, variant_code, log_id, timestamp, prune_flag | [prev..])`.
fn ext_tuple_bytes(i: &Intended, prev_order: &[Hash]) -> Vec<u8> {
    if i.causal {
        encode_cbor(&(1u16, 1u16, i.log_id, i.timestamp, prev_order.to_vec())).expect("encode causal tuple")
    } else {
        encode_cbor(&(1u16, 0u16, i.log_id, i.timestamp, i.prune)).expect("encode basic tuple")
    }
}

/// Read the content of an extensions value back through its own encoding and its accessors.
fn content_matches(ext: &Extensions, i: &Intended) -> bool {
    if *ext.log_id().as_bytes() != *i.log_id.as_bytes() || u64::from(ext.timestamp()) != i.timestamp || ext.prune_flag().is_set() != i.prune {
        return false;
    }
    let Ok(bytes) = encode_cbor(ext) else { return false };
    if i.causal {
        let Ok((v, code, log, ts, prev)) = decode_cbor::<(u16, u16, Hash, u64, Vec<Hash>), _>(&bytes[..]) else { return false };
        v == 1 && code == 1 && log == i.log_id && ts == i.timestamp && prev.len() == i.previous.len() && prev.iter().copied().collect::<BTreeSet<Hash>>() == i.previous
    } else {
        let Ok((v, code, log, ts, prune)) = decode_cbor::<(u16, u16, Hash, u64, bool), _>(&bytes[..]) else { return false };
        v == 1 && code == 0 && log == i.log_id && ts == i.timestamp && prune == i.prune
    }
}

/// All checks of the statement on one header; returns the names of the checks that failed (in
/// order), so that evidence shows every consequence while the violation is keyed on the first.
fn failed_checks(original: &Header<Extensions>, rebuilt_unsigned: &Header<Extensions>, key: &SigningKey, decodes: usize, intended: &Intended) -> Vec<&'static str> {
    let mut failed = Vec::new();
    let mut fail = |name: &'static str| {
        if !failed.contains(&name) {
            failed.push(name);
        }
    };
    if validate_header(original).is_err() {
        fail("generated-header-invalid");
        return failed;
    }
    if !content_matches(&original.extensions, intended) {
        fail("extensions-content-differs-from-input");
    }
    let bytes = original.to_bytes();
    let hash = original.hash();
    // Equal values encode identically: a clone, and an independently built equal value.
    if original.clone().to_bytes() != bytes {
        fail("clone-encodes-differently");
    }
    let mut orig_unsigned = original.clone();
    orig_unsigned.signature = None;
    if &orig_unsigned != rebuilt_unsigned {
        // Two values built independently from the same content (constructor vs. wire tuple, or two
        // decodes of the same tuple) are not equal.
        fail("independently-built-values-differ");
    } else {
        if orig_unsigned.to_bytes() != rebuilt_unsigned.to_bytes() {
            fail("equal-values-encode-differently");
        }
        let mut rebuilt = rebuilt_unsigned.clone();
        rebuilt.sign(key);
        if rebuilt.hash() != hash {
            fail("equal-values-hash-differently");
        }
        // The original's signature is valid for the (equal) rebuilt value.
        let mut transplanted = rebuilt_unsigned.clone();
        transplanted.signature = original.signature;
        if &transplanted == original && !transplanted.verify() {
            fail("signature-invalid-on-equal-value");
        }
    }
    let mut first_decode_bytes: Option<Vec<u8>> = None;
    for _ in 0..decodes {
        let d: Header<Extensions> = match decode_cbor(&bytes[..]) {
            Ok(d) => d,
            Err(_) => {
                fail("decode-failed");
                break;
            }
        };
        if &d != original {
            fail("decoded-not-equal");
        }
        if !content_matches(&d.extensions, intended) {
            fail("decoded-extensions-content-differs");
        }
        if !d.verify() {
            fail("decoded-does-not-verify");
        }
        let re = d.to_bytes();
        if re != bytes {
            fail("reencode-differs");
        }
        match &first_decode_bytes {
            None => first_decode_bytes = Some(re.clone()),
            Some(f) => {
                if f != &re {
                    fail("two-decodes-encode-differently");
                }
            }
        }
        if d.hash() != hash {
            fail("hash-differs");
        }
        if validate_header(&d).is_err() {
            fail("decoded-invalid");
        }
        let dd: Result<Header<Extensions>, _> = decode_cbor(&re[..]);
        match dd {
            Ok(dd) => {
                if &dd != original {
                    fail("second-roundtrip-differs");
                }
            }
            Err(_) => fail("second-roundtrip-decode-failed"),
        }
    }
    failed
}

pub fn run(args: &Args) {
    let mut rep = Report::new(
        args,
        "random valid signed headers (payload present/absent, seq 0/1/random/u32::MAX with \
         backlink) carrying Node API extensions obtained by decoding a harness-encoded tuple: \
         Basic (prune flag on/off, timestamp 0/max/random) and Causal with |previous| in 0..8, the \
         hashes being real BLAKE3 digests or crafted 32-byte values (members sharing 1/4/8/16/31 \
         leading bytes, differing only in the last or in one middle byte, all-zero / all-0xff and \
         neighbours, crafted groups mixed with real digests, two prefix groups). \
         Per header: a clone and an independently decoded equal extensions value must encode and \
         hash identically and accept the same signature; Basic headers are decoded 3 times, Causal \
         headers 16 times (16 fresh HashSet instances): every decode equals the original, verifies, \
         re-encodes to the same bytes / hash and survives a second round trip. Non-trivial = header \
         passes validate_header; distinct by (variant, payload present, seq class, |previous|, \
         header hash).",
        500,
    );
    let n = args.n(5_000, 200_000);
    let mut causal_ge2 = 0u64;
    for i in 0..n {
        let mut rng = Rng::fork(args.seed, i);
        let f = gen_fields(&mut rng);
        let causal = i % 3 != 0;
        let family = if causal { (i / 27 % FAMILIES.len() as u64) as usize } else { 0 };
        // |previous| in 0..=8 (crafted families that cannot produce enough distinct members, e.g.
        // all-equal-but-one-byte, may come out smaller; the actual size is what counts below).
        let want_prev = if causal { (i / 3 % 9) as usize } else { 0 };
        let kind = if causal { "causal" } else { "basic" };
        let (intended, prev) = gen_intended(&mut rng, causal, want_prev, family);
        let n_prev = prev.len();
        let shared = if causal { max_shared_prefix(&prev) } else { 0 };
        let ext_bytes = ext_tuple_bytes(&intended, &prev);
        // Wire path (the only public way to a Causal value).
        let from_wire = |what: &str, rep: &mut Report| -> Option<Extensions> {
            match decode_cbor::<Extensions, _>(&ext_bytes[..]) {
                Ok(e) => Some(e),
                Err(e) => {
                    rep.inconclusive(format!("harness-encoded {kind} extensions tuple was not accepted ({what}): {e}"));
                    None
                }
            }
        };
        let Some(ext_b) = from_wire("second value", &mut rep) else {
            rep.case(None::<()>);
            continue;
        };
        // First value: Basic through the public constructor under the mock wall clock
        // (`Extensions::from_topic` stamps `Timestamp::now()`), Causal through the wire again.
        let ext_a: Extensions = if causal {
            match from_wire("first value", &mut rep) {
                Some(e) => e,
                None => {
                    rep.case(None::<()>);
                    continue;
                }
            }
        } else {
            MockClock::set_system_time(Duration::from_micros(intended.timestamp));
            Extensions::from_topic(intended.topic.into()).set_prune_flag(intended.prune)
        };
        let mut original = unsigned(&f, ext_a);
        original.sign(&f.key);
        let rebuilt_unsigned = unsigned(&f, ext_b);
        let decodes = if causal { 16 } else { 3 };
        let failed = failed_checks(&original, &rebuilt_unsigned, &f.key, decodes, &intended);
        rep.add_evaluations(decodes as u64);
        if causal && n_prev >= 2 {
            causal_ge2 += 1;
            rep.bump(&format!("causal_headers:family:{}", FAMILIES[family]), 1);
            if shared >= 1 {
                rep.bump("causal_headers_with_shared_prefix_pair(>=1 byte)", 1);
            }
            for k in [4usize, 8, 16, 31] {
                if shared >= k {
                    rep.bump(&format!("causal_headers_with_shared_prefix_pair(>={k} bytes)"), 1);
                }
            }
        }
        rep.bump(&format!("headers:{kind}"), 1);
        if let Some(first) = failed.first() {
            for name in &failed {
                rep.bump(&format!("failed:{kind}:{name}"), 1);
            }
            rep.violation(
                &format!("C02:{kind}:{first}"),
                format!("{kind} extensions header (|previous| = {n_prev}, hash family {}, longest shared prefix {shared} bytes): failed checks {failed:?}", FAMILIES[family]),
                json!({"seed": args.seed, "case": i, "extensions_tuple_hex": hex(&ext_bytes), "previous": prev.iter().map(|h| h.to_string()).collect::<Vec<_>>(),
                       "header_hex": hex(&original.to_bytes()), "seq_num": f.seq_num, "failed_checks": failed,
                       "hash_family": FAMILIES[family], "longest_shared_prefix_bytes": shared}),
            );
        }
        let shape = (f.payload.is_some(), match f.seq_num { 0 => 0u8, 1 => 1, u32::MAX => 3, _ => 2 });
        let valid = !failed.contains(&"generated-header-invalid");
        rep.case(if valid { Some((causal, shape, n_prev, family, original.hash())) } else { None });
        if rep.want_sample() && (i == 0 || i == 7 || i == 16) {
            rep.sample(json!({"case": i, "variant": kind, "previous": n_prev, "extensions_tuple_hex": hex(&ext_bytes), "header_hex": hex(&original.to_bytes()), "failed_checks": failed}));
        }
    }
    rep.extra("causal_headers_with_2_or_more_previous", json!(causal_ge2));
    if causal_ge2 < 500 {
        rep.inconclusive(format!("only {causal_ge2} Causal headers with |previous| >= 2 (minimum 500)"));
    }
    rep.finish(args);
}
