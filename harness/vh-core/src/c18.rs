//! C18 (pure part) — `HybridTimestamp::increment` returns a strictly greater value whatever the
//! wall clock reads. The wall clock is the repo's own `test_utils` mock (`mock_instant`), set to
//! earlier / equal / later readings relative to the input.

use std::time::Duration;

use mock_instant::thread_local::MockClock;
use p2panda_core::timestamp::{HybridTimestamp, LamportTimestamp};
use p2panda_core::Timestamp;
use vh_common::{Args, Report, Rng, json};

fn set_clock(micros: u64) {
    MockClock::set_system_time(Duration::from_micros(micros));
}

fn class(t_wall: u64, now: u64) -> &'static str {
    if now < t_wall {
        "clock-behind"
    } else if now == t_wall {
        "clock-equal"
    } else {
        "clock-ahead"
    }
}

pub fn run(args: &Args) {
    let mut rep = Report::new(
        args,
        "grid: input wall time x clock reading over {0,1,2,999,1000,1001,10^6,2^53,2^62} squared x \
         logical counter {0,1,5,2^63}; random (t, now) pairs with now earlier/equal/later; increment \
         chains of 50..500 steps while the clock is held, stepped forward and stepped back. \
         Non-trivial = the clock reading is not later than the input's wall part (the case the \
         logical counter exists for); distinct by (class, t, now, logical).",
        50,
    );
    let walls: [u64; 9] = [0, 1, 2, 999, 1000, 1001, 1_000_000, 1 << 53, 1 << 62];
    let logicals: [u64; 4] = [0, 1, 5, 1 << 63];
    for &tw in &walls {
        for &now in &walls {
            for &lg in &logicals {
                let t = HybridTimestamp::from_parts(Timestamp::new(tw), LamportTimestamp::new(lg));
                set_clock(now);
                let r = vh_common::catch(move || t.increment());
                let cl = class(tw, now);
                rep.case(if now <= tw { Some((cl, tw, now, lg)) } else { None });
                match r {
                    Ok(n) if n > t => {}
                    Ok(n) => rep.violation(
                        &format!("C18:increment-not-greater:{cl}"),
                        format!("increment of {t} with the clock at {now} returned {n}, which is not greater"),
                        json!({"t": t.to_string(), "now_micros": now, "result": n.to_string(), "space": "grid"}),
                    ),
                    Err(p) => rep.violation("C18:panic", p, json!({"t": t.to_string(), "now_micros": now})),
                }
            }
        }
    }
    rep.extra("grid_points", json!(walls.len() * walls.len() * logicals.len()));

    let miri = cfg!(miri);
    let n = if miri { args.n(300, 1000) } else { args.n(500_000, 5_000_000) };
    for i in 0..n {
        let mut rng = Rng::fork(args.seed, i);
        let tw = match rng.below(3) {
            0 => rng.below(1 << 20),
            1 => 1_700_000_000_000_000 + rng.below(1 << 40),
            _ => { let k = rng.below(40); rng.next_u64() >> k },
        };
        let now = match rng.below(4) {
            0 => tw,
            1 => tw.saturating_sub(1 + rng.mag(40)),
            2 => tw.saturating_add(1 + rng.mag(40)),
            _ => rng.next_u64() >> 1,
        };
        let lg = if rng.bool() { 0 } else { rng.mag(60) };
        let t = HybridTimestamp::from_parts(Timestamp::new(tw), LamportTimestamp::new(lg));
        set_clock(now);
        let n2 = t.increment();
        let cl = class(tw, now);
        rep.case(if now <= tw { Some((cl, tw, now, lg)) } else { None });
        if !(n2 > t) {
            rep.violation(
                &format!("C18:increment-not-greater:{cl}"),
                format!("increment of {t} with the clock at {now} returned {n2}, which is not greater"),
                json!({"case": i, "t": t.to_string(), "now_micros": now, "result": n2.to_string()}),
            );
        }
        if i < 2 {
            rep.sample(json!({"t": t.to_string(), "clock_micros": now, "incremented": n2.to_string(), "class": cl}));
        }
    }

    // Chains: successive increments under a clock that is held, moves forward and steps back.
    let chains = if miri { args.n(5, 20) } else { args.n(3_000, 50_000) };
    for i in 0..chains {
        let mut rng = Rng::fork(args.seed ^ 0x18c, i);
        let mut clock = 1_000_000 + rng.below(1 << 30);
        set_clock(clock);
        let mut t = HybridTimestamp::now();
        let len = 50 + rng.usize_below(if miri { 30 } else { 450 });
        let mut trace = Vec::new();
        let mut stepped_back = false;
        for step in 0..len {
            match rng.below(5) {
                0 => {}                                   // clock held
                1 | 2 => clock += rng.below(1000),        // forward
                3 => clock += 1,
                _ => {
                    clock = clock.saturating_sub(1 + rng.mag(24)); // stepped back
                    stepped_back = true;
                }
            }
            set_clock(clock);
            let next = t.increment();
            if trace.len() < 12 {
                trace.push(format!("clock={clock} -> {next}"));
            }
            if !(next > t) {
                rep.violation(
                    &format!("C18:increment-not-greater:{}", class(t.to_parts().0.into(), clock)),
                    format!("chain step {step}: increment of {t} with the clock at {clock} returned {next}"),
                    json!({"chain": i, "step": step, "t": t.to_string(), "now_micros": clock, "result": next.to_string(), "trace_head": trace}),
                );
                break;
            }
            t = next;
        }
        rep.case(if stepped_back { Some(("chain", i)) } else { None });
        if i == 0 {
            rep.sample(json!({"chain_head": trace}));
        }
    }
    rep.finish(args);
}
