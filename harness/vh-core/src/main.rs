//! Pure-Rust harness over `p2panda-core` (also the Miri target).
//!
//! C02 header round-trip/determinism (generic extension types, ZST `mem::zeroed` path),
//! C06 state-vector diff, C07 (pure part) cursor advance, C18 hybrid timestamps.

mod c02;
mod c06;
mod c07;
mod c18;

use vh_common::Args;

fn main() {
    let args = Args::parse();
    match args.prop.as_str() {
        "C02" => c02::run(&args),
        "C06" => c06::run(&args),
        "C07" => c07::run(&args),
        "C18" => c18::run(&args),
        other => panic!("vh-core does not serve {other}"),
    }
}
