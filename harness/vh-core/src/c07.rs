//! C07 (pure part) — a cursor's state equals the pointwise maximum of all heights it was advanced
//! to, independent of the order of advances.

use std::collections::BTreeMap;

use p2panda_core::Cursor;
use vh_common::{Args, Report, Rng, json, permutations};

use crate::c06::A;

type Adv = (A, u16, u32);

fn reference(initial: &BTreeMap<(A, u16), u32>, advs: &[Adv]) -> BTreeMap<(A, u16), u32> {
    let mut m = initial.clone();
    for (a, l, s) in advs {
        let e = m.entry((*a, *l)).or_insert(*s);
        if *e < *s {
            *e = *s;
        }
    }
    m
}

fn state_pairs(c: &Cursor<A, u16>) -> BTreeMap<(A, u16), u32> {
    let mut out = BTreeMap::new();
    for (a, logs) in c.state() {
        for (l, s) in logs {
            out.insert((*a, *l), *s);
        }
    }
    out
}

fn apply(initial: &BTreeMap<(A, u16), u32>, advs: &[Adv], rep: &mut Report, witness: impl Fn() -> serde_json::Value) {
    let mut heights: BTreeMap<A, BTreeMap<u16, u32>> = BTreeMap::new();
    for ((a, l), s) in initial {
        heights.entry(*a).or_default().insert(*l, *s);
    }
    let mut c = Cursor::new("t", heights);
    let mut prev = state_pairs(&c);
    for (i, (a, l, s)) in advs.iter().enumerate() {
        c.advance(*a, *l, *s);
        let now = state_pairs(&c);
        // Monotone at every step.
        for (k, v) in &prev {
            if now.get(k).is_none_or(|n| n < v) {
                rep.violation("C07:cursor-moved-backwards", format!("after advance #{i} {:?} height of {k:?} went from {v} to {:?}", (a, l, s), now.get(k)), witness());
                return;
            }
        }
        if c.log_height(a, l).is_none_or(|h| *h < *s) {
            rep.violation("C07:advance-not-applied", format!("after advance #{i} to {s} the cursor reports {:?}", c.log_height(a, l)), witness());
            return;
        }
        prev = now;
    }
    let expect = reference(initial, advs);
    if prev != expect {
        rep.violation("C07:not-pointwise-max", format!("final state {prev:?} != pointwise max {expect:?}"), witness());
    }
}

pub fn run(args: &Args) {
    let mut rep = Report::new(
        args,
        "advance sequences over 3 authors x 3 logs: every permutation of sequences of length <= 6 \
         (each must end in the same pointwise-max state, monotone at every step) plus random long \
         sequences with boundary heights (0, u32::MAX) on a non-empty initial cursor. Non-trivial = \
         the sequence contains a backwards advance (lower than an earlier one for the same log); \
         distinct by the sequence.",
        200,
    );
    let miri = cfg!(miri);
    let n_small = if miri { args.n(6, 20) } else { args.n(1_500, 10_000) };
    for i in 0..n_small {
        let mut rng = Rng::fork(args.seed, i);
        let len = 2 + rng.usize_below(5); // 2..=6
        let advs: Vec<Adv> = (0..len)
            .map(|_| (A(rng.below(2) as u16), rng.below(2) as u16, if rng.chance(0.1) { u32::MAX } else { rng.below(4) as u32 }))
            .collect();
        let initial: BTreeMap<(A, u16), u32> = if rng.bool() { BTreeMap::new() } else { [((A(0), 0u16), rng.below(3) as u32)].into() };
        let mut backwards = false;
        for (j, x) in advs.iter().enumerate() {
            if advs[..j].iter().any(|y| y.0 == x.0 && y.1 == x.1 && y.2 > x.2) {
                backwards = true;
            }
        }
        for p in permutations(len) {
            let seq: Vec<Adv> = p.iter().map(|k| advs[*k]).collect();
            apply(&initial, &seq, &mut rep, || json!({"case": i, "initial": format!("{initial:?}"), "advances": format!("{seq:?}")}));
            rep.add_evaluations(1);
        }
        rep.case(if backwards { Some(&advs) } else { None });
        if i == 0 {
            rep.sample(json!({"initial": format!("{initial:?}"), "advances": format!("{advs:?}"), "permutations": permutations(len).len()}));
        }
    }
    let n_long = if miri { args.n(4, 10) } else { args.n(10_000, 200_000) };
    for i in 0..n_long {
        let mut rng = Rng::fork(args.seed ^ 0xC07, i);
        let len = if miri { 30 } else { 20 + rng.usize_below(300) };
        let advs: Vec<Adv> = (0..len)
            .map(|_| {
                let s = match rng.below(8) {
                    0 => 0,
                    1 => u32::MAX,
                    2 => u32::MAX - 1,
                    _ => rng.below(1000) as u32,
                };
                (A(rng.below(3) as u16), rng.below(3) as u16, s)
            })
            .collect();
        let initial: BTreeMap<(A, u16), u32> = (0..rng.below(4)).map(|_| ((A(rng.below(3) as u16), rng.below(3) as u16), rng.below(1000) as u32)).collect();
        apply(&initial, &advs, &mut rep, || json!({"case": i, "long": true, "initial": format!("{initial:?}"), "advances": format!("{advs:?}")}));
        rep.case(Some(&advs));
    }
    rep.finish(args);
}
