//! C06 — state-vector diff returns exactly what the remote is missing.
//!
//! Oracle (written from the statement, independent of `compare`): for every (author, log) pair of
//! the local map a range is present iff the remote lacks the pair or `remote < local`; its value is
//! `(remote height or None, Some(local height))`; no other pairs appear; merging the diff into the
//! remote heights gives the pointwise maximum. Maps are compared as sets of (author, log) pairs.

use std::collections::BTreeMap;

use p2panda_core::Cursor;
use p2panda_core::identity::Author;
use p2panda_core::logs::{LogHeights, LogRanges, compare};
use serde::{Deserialize, Serialize};
use vh_common::{Args, Report, Rng, json};

#[derive(Clone, Copy, Debug, PartialEq, Eq, PartialOrd, Ord, Hash, Serialize, Deserialize)]
pub struct A(pub u16);
impl Author for A {}

type Heights = LogHeights<A, u16>;
type Pairs = BTreeMap<(A, u16), u32>;

fn pairs(h: &Heights) -> Pairs {
    let mut out = BTreeMap::new();
    for (a, logs) in h {
        for (l, s) in logs {
            out.insert((*a, *l), *s);
        }
    }
    out
}

fn range_pairs(r: &LogRanges<A, u16>) -> BTreeMap<(A, u16), (Option<u32>, Option<u32>)> {
    let mut out = BTreeMap::new();
    for (a, logs) in r {
        for (l, s) in logs {
            out.insert((*a, *l), *s);
        }
    }
    out
}

/// Returns `Some((signature, explanation))` if the property is refuted on this pair.
fn check(local: &Heights, remote: &Heights, mirrored: bool) -> Option<(&'static str, String)> {
    let diff = if mirrored {
        // `Cursor::compare(other)` is documented as the diff "other has that the cursor lacks".
        Cursor::new("c", remote.clone()).compare(local)
    } else {
        compare(local, remote)
    };
    let lp = pairs(local);
    let rp = pairs(remote);
    let dp = range_pairs(&diff);

    let mut expected = BTreeMap::new();
    for (k, lh) in &lp {
        match rp.get(k) {
            None => {
                expected.insert(*k, (None, Some(*lh)));
            }
            Some(rh) if rh < lh => {
                expected.insert(*k, (Some(*rh), Some(*lh)));
            }
            _ => {}
        }
    }
    if dp != expected {
        let missing: Vec<_> = expected.iter().filter(|(k, v)| dp.get(*k) != Some(*v)).collect();
        let extra: Vec<_> = dp.iter().filter(|(k, _)| !expected.contains_key(*k)).collect();
        let sig = if !extra.is_empty() { "C06:extra-range" } else { "C06:missing-or-wrong-range" };
        return Some((
            sig,
            format!("diff differs from the definition: expected-but-wrong {missing:?}, unexpected {extra:?}"),
        ));
    }

    // Merge law: applying the diff to the remote gives the pointwise maximum.
    let mut merged = rp.clone();
    for (k, (_, until)) in &dp {
        if let Some(u) = until {
            merged.insert(*k, *u);
        }
    }
    let mut pmax = rp.clone();
    for (k, lh) in &lp {
        let e = pmax.entry(*k).or_insert(*lh);
        if *e < *lh {
            *e = *lh;
        }
    }
    if merged != pmax {
        return Some(("C06:merge-not-pointwise-max", format!("merge(remote, diff) = {merged:?} but pointwise max = {pmax:?}")));
    }
    None
}

fn from_cells(cells: &[u8]) -> Heights {
    // 4 cells = (author 0..2) × (log 0..2); value 0 = absent, otherwise height value-1.
    let mut h: Heights = BTreeMap::new();
    for (i, c) in cells.iter().enumerate() {
        if *c > 0 {
            h.entry(A((i / 2) as u16)).or_default().insert((i % 2) as u16, (*c - 1) as u32);
        }
    }
    h
}

fn random_map(rng: &mut Rng, max_authors: u64, max_logs: u64, big: bool) -> Heights {
    let mut h: Heights = BTreeMap::new();
    let na = rng.below(max_authors + 1);
    for _ in 0..na {
        let a = A(rng.below(max_authors.max(1) + 2) as u16);
        let nl = rng.below(max_logs + 1);
        let logs = h.entry(a).or_default();
        for _ in 0..nl {
            let l = rng.below(max_logs.max(1) + 2) as u16;
            let s = if big {
                match rng.below(4) {
                    0 => u32::MAX - rng.below(3) as u32,
                    1 => rng.below(3) as u32,
                    _ => rng.next_u32(),
                }
            } else {
                rng.below(5) as u32
            };
            logs.insert(l, s);
        }
        // Occasionally leave an author with an empty inner map (not a pair by the statement).
    }
    h
}

pub fn run(args: &Args) {
    let mut rep = Report::new(
        args,
        "exhaustive: both maps over 2 authors x 2 logs x heights {absent,0,1,2} (65536 pairs), each \
         through compare() and the mirrored Cursor::compare(); random: maps up to 50 authors x 20 \
         logs with heights up to u32::MAX and maps derived from each other by small edits. \
         Non-trivial = the pair has at least one (author,log) where remote is behind/missing AND one \
         where it is equal/ahead; distinct by the (local,remote) pair-set.",
        1000,
    );
    let under_miri = cfg!(miri);
    let mut sample_n = 0;

    // ---- exhaustive small domain -----------------------------------------------------------
    let step = if under_miri { 97 } else { 1 }; // Miri: strided subset, not flagged exhaustive
    let mut idx: u32 = 0;
    while idx < 65536 {
        let mut cells = [0u8; 8];
        let mut x = idx;
        for c in cells.iter_mut() {
            *c = (x % 4) as u8;
            x /= 4;
        }
        let local = from_cells(&cells[..4]);
        let remote = from_cells(&cells[4..]);
        for mirrored in [false, true] {
            let r = vh_common::catch(|| check(&local, &remote, mirrored));
            let behind = cells[..4].iter().zip(&cells[4..]).any(|(l, r)| *l > 0 && r < l);
            let ahead = cells[..4].iter().zip(&cells[4..]).any(|(l, r)| *l > 0 && r >= l);
            rep.case(if behind && ahead { Some((cells, mirrored)) } else { None });
            match r {
                Ok(None) => {}
                Ok(Some((sig, what))) => rep.violation(
                    sig,
                    what,
                    json!({"local": format!("{local:?}"), "remote": format!("{remote:?}"), "mirrored": mirrored, "space": "exhaustive", "index": idx}),
                ),
                Err(p) => rep.violation("C06:panic", p, json!({"local": format!("{local:?}"), "remote": format!("{remote:?}")})),
            }
        }
        if sample_n < 2 && idx % 21845 == 4097 {
            rep.sample(json!({"local": format!("{local:?}"), "remote": format!("{remote:?}"), "diff": format!("{:?}", compare(&local, &remote))}));
            sample_n += 1;
        }
        idx += step;
    }
    if !under_miri {
        rep.exhaustive = true;
        rep.extra("exhaustive_pairs", json!(65536));
    }

    // ---- random large maps -----------------------------------------------------------------
    let n = if under_miri { args.n(60, 200) } else { args.n(200_000, 2_000_000) };
    for i in 0..n {
        let mut rng = Rng::fork(args.seed, i);
        let big = rng.bool();
        let (ma, ml) = if rng.chance(0.1) { (50, 20) } else { (6, 4) };
        let local = random_map(&mut rng, ma, ml, big);
        // Remote: independent, or an edited copy of local (the interesting neighbourhood).
        let remote = if rng.bool() {
            random_map(&mut rng, ma, ml, big)
        } else {
            let mut r = local.clone();
            let authors: Vec<A> = r.keys().copied().collect();
            for a in authors {
                match rng.below(6) {
                    0 => {
                        r.remove(&a);
                    }
                    1 => {
                        r.get_mut(&a).unwrap().clear();
                    }
                    _ => {
                        for (_, s) in r.get_mut(&a).unwrap().iter_mut() {
                            match rng.below(5) {
                                0 => *s = s.saturating_sub(1),
                                1 => *s = s.saturating_add(1),
                                2 => *s = rng.next_u32(),
                                _ => {}
                            }
                        }
                        if rng.chance(0.3) {
                            let logs = r.get_mut(&a).unwrap();
                            if let Some(k) = logs.keys().next().copied() {
                                logs.remove(&k);
                            }
                        }
                    }
                }
            }
            r
        };
        let mirrored = rng.bool();
        let lp = pairs(&local);
        let rp = pairs(&remote);
        let behind = lp.iter().any(|(k, l)| rp.get(k).is_none_or(|r| r < l));
        let ahead = lp.iter().any(|(k, l)| rp.get(k).is_some_and(|r| r >= l));
        rep.case(if behind && ahead { Some((&lp, &rp, mirrored)) } else { None });
        match vh_common::catch(|| check(&local, &remote, mirrored)) {
            Ok(None) => {}
            Ok(Some((sig, what))) => rep.violation(
                sig,
                what,
                json!({"case": i, "local": format!("{local:?}"), "remote": format!("{remote:?}"), "mirrored": mirrored}),
            ),
            Err(p) => rep.violation("C06:panic", p, json!({"case": i})),
        }
        if i == 3 {
            rep.sample(json!({"case": i, "local": format!("{local:?}"), "remote": format!("{remote:?}"), "diff": format!("{:?}", compare(&local, &remote))}));
        }
    }
    rep.extra("random_pairs", json!(n));
    rep.finish(args);
}
