//! C02 (generic part) — header encoding round-trips and is a deterministic function of the header,
//! for extension types `()`, a unit struct, a ZST newtype (the `mem::zeroed` path, the repo's only
//! `unsafe`), a struct with optional fields and a struct with nested collections.
//! The Node API extensions (Basic / Causal) are covered by `vh-node C02`.

use p2panda_core::cbor::decode_cbor;
use p2panda_core::{Body, Extensions, Hash, Header, SigningKey, validate_header};
use serde::{Deserialize, Serialize};
use vh_common::{Args, Report, Rng, hex, json};

#[derive(Clone, Debug, PartialEq, Eq, Serialize, Deserialize)]
struct Unit;

#[derive(Clone, Debug, PartialEq, Eq, Serialize, Deserialize)]
struct ZstNew(());

#[derive(Clone, Debug, PartialEq, Eq, Serialize, Deserialize)]
struct Opts {
    a: Option<u64>,
    b: Option<String>,
    flag: bool,
}

#[derive(Clone, Debug, PartialEq, Eq, Serialize, Deserialize)]
struct Nested {
    tags: Vec<String>,
    map: std::collections::BTreeMap<u8, Vec<u8>>,
    hash: Option<Hash>,
}

/// A value whose serialisation fails after some bytes were already emitted (hostile / broken
/// application types exist; what happened earlier on a thread must never leak into a header).
struct FailsLate;

impl Serialize for FailsLate {
    fn serialize<S: serde::Serializer>(&self, _s: S) -> Result<S::Ok, S::Error> {
        Err(serde::ser::Error::custom("refuses to serialise"))
    }
}

pub struct Fields {
    pub key: SigningKey,
    pub payload: Option<Vec<u8>>,
    pub seq_num: u32,
    pub backlink: Option<Hash>,
}

pub fn gen_fields(rng: &mut Rng) -> Fields {
    let key = SigningKey::from_bytes(&rng.array32());
    let payload = if rng.chance(0.3) { None } else { { let n = 1 + rng.usize_below(40); Some(rng.bytes(n)) } };
    let seq_num = match rng.below(5) {
        0 => 0,
        1 => 1,
        2 => u32::MAX,
        3 => rng.below(24) as u32,
        _ => rng.next_u32(),
    };
    let backlink = if seq_num == 0 { None } else { Some(Hash::digest(rng.bytes(8))) };
    Fields { key, payload, seq_num, backlink }
}

pub fn build<E: Extensions>(f: &Fields, ext: E) -> Header<E> {
    let body = f.payload.as_ref().map(|p| Body::new(p));
    let mut h = Header {
        version: 1,
        verifying_key: f.key.verifying_key(),
        signature: None,
        payload_size: body.as_ref().map(|b| b.size()).unwrap_or(0),
        payload_hash: body.as_ref().map(|b| b.hash()),
        seq_num: f.seq_num,
        backlink: f.backlink,
        extensions: ext,
    };
    h.sign(&f.key);
    h
}

/// The oracle. `rebuild` constructs the *same header value* again from scratch.
pub fn check_header<E: Extensions + PartialEq>(
    rep: &mut Report,
    kind: &str,
    original: &Header<E>,
    rebuilt: &Header<E>,
    decodes: usize,
    witness: &dyn Fn() -> serde_json::Value,
) -> bool {
    if validate_header(original).is_err() {
        rep.violation(&format!("C02:{kind}:generated-header-invalid"), "a freshly signed header does not validate", witness());
        return false;
    }
    let bytes = original.to_bytes();
    let hash = original.hash();
    // Equal values encode identically.
    let clone = original.clone();
    if clone.to_bytes() != bytes || rebuilt.to_bytes() != bytes {
        rep.violation(&format!("C02:{kind}:equal-values-encode-differently"), "a clone / a header rebuilt from the same field values encodes to different bytes", witness());
        return false;
    }
    if original != rebuilt {
        rep.violation(&format!("C02:{kind}:harness-rebuild-differs"), "harness error: rebuilt header is not equal", witness());
        return false;
    }
    let mut ok = true;
    for k in 0..decodes {
        let d: Header<E> = match decode_cbor(&bytes[..]) {
            Ok(d) => d,
            Err(e) => {
                rep.violation(&format!("C02:{kind}:decode-failed"), format!("decoding the encoding of a valid header failed: {e}"), witness());
                return false;
            }
        };
        if &d != original {
            rep.violation(&format!("C02:{kind}:decoded-not-equal"), format!("decode #{k} is not equal to the original header"), witness());
            ok = false;
            break;
        }
        if !d.verify() {
            rep.violation(&format!("C02:{kind}:decoded-does-not-verify"), format!("decode #{k} of an honestly signed header fails signature verification"), witness());
            ok = false;
            break;
        }
        if d.to_bytes() != bytes {
            rep.violation(&format!("C02:{kind}:reencode-differs"), format!("decode #{k} re-encodes to different bytes"), witness());
            ok = false;
            break;
        }
        if d.hash() != hash {
            rep.violation(&format!("C02:{kind}:hash-differs"), format!("decode #{k} has a different operation id"), witness());
            ok = false;
            break;
        }
        if validate_header(&d).is_err() {
            rep.violation(&format!("C02:{kind}:decoded-invalid"), format!("decode #{k} fails validate_header"), witness());
            ok = false;
            break;
        }
        // decode(encode(decode(bytes)))
        let dd: Result<Header<E>, _> = decode_cbor(&d.to_bytes()[..]);
        if dd.as_ref().ok() != Some(original) {
            rep.violation(&format!("C02:{kind}:second-roundtrip-differs"), "decode(encode(decode(bytes))) differs from the original", witness());
            ok = false;
            break;
        }
    }
    ok
}

fn gen_opts(rng: &mut Rng) -> Opts {
    Opts {
        a: if rng.bool() { Some({ let k = rng.below(64); rng.next_u64() >> k }) } else { None },
        b: if rng.bool() { Some("x".repeat(rng.usize_below(30))) } else { None },
        flag: rng.bool(),
    }
}

fn gen_nested(rng: &mut Rng) -> Nested {
    Nested {
        tags: (0..rng.below(4)).map(|i| format!("t{i}-{}", rng.below(100))).collect(),
        map: (0..rng.below(4)).map(|_| (rng.below(256) as u8, { let n = rng.usize_below(6); rng.bytes(n) })).collect(),
        hash: if rng.bool() { Some(Hash::digest(rng.bytes(4))) } else { None },
    }
}

pub fn run(args: &Args) {
    let mut rep = Report::new(
        args,
        "random valid signed headers (payload present/absent, seq 0/1/random/u32::MAX with backlink) \
         x extension types {(), unit struct, ZST newtype, struct with Options, nested collections}; \
         each header: clone + rebuilt-from-fields encode byte-identically, 3 independent decodes are \
         equal, verify, re-encode to the same bytes and hash, and survive a second round trip. \
         Non-trivial = header passes validate_header; distinct by (ext kind, payload present, seq \
         class, extension payload shape).",
        20,
    );
    let miri = cfg!(miri);
    let n = if miri { args.n(40, 300) } else { args.n(20_000, 300_000) };
    for i in 0..n {
        let mut rng = Rng::fork(args.seed, i);
        let f = gen_fields(&mut rng);
        let kind_ix = (i % 5) as u8;
        if i % 7 == 3 {
            // "when or how the value was built": a failed encode on this thread right before.
            let r = p2panda_core::cbor::encode_cbor(&("attachment", 42u8, vec![1u8, 2, 3], FailsLate));
            if r.is_ok() {
                rep.inconclusive("the deliberately failing encode succeeded");
            }
            rep.bump("headers_encoded_right_after_a_failed_encode", 1);
        }
        let shape = (f.payload.is_some(), match f.seq_num { 0 => 0u8, 1 => 1, u32::MAX => 3, _ => 2 });
        let wit = |bytes: Vec<u8>| {
            let seed = args.seed;
            move || json!({"seed": seed, "case": i, "header_hex": hex(&bytes)})
        };
        let ok;
        let key;
        match kind_ix {
            0 => {
                let h = build(&f, ());
                let r = build(&f, ());
                ok = check_header(&mut rep, "unit", &h, &r, 3, &wit(h.to_bytes()));
                key = (kind_ix, shape, 0u64);
                if i < 5 { rep.sample(json!({"ext": "()", "header_hex": hex(&h.to_bytes()), "seq_num": f.seq_num})); }
            }
            1 => {
                let h = build(&f, Unit);
                let r = build(&f, Unit);
                ok = check_header(&mut rep, "unit-struct", &h, &r, 3, &wit(h.to_bytes()));
                key = (kind_ix, shape, 0);
            }
            2 => {
                let h = build(&f, ZstNew(()));
                let r = build(&f, ZstNew(()));
                ok = check_header(&mut rep, "zst-newtype", &h, &r, 3, &wit(h.to_bytes()));
                key = (kind_ix, shape, 0);
            }
            3 => {
                let e = gen_opts(&mut rng);
                let h = build(&f, e.clone());
                let r = build(&f, Opts { a: e.a, b: e.b.clone(), flag: e.flag });
                ok = check_header(&mut rep, "opts", &h, &r, 3, &wit(h.to_bytes()));
                key = (kind_ix, shape, (e.a.is_some() as u64) | (e.b.is_some() as u64) << 1 | (e.flag as u64) << 2);
                if i < 5 { rep.sample(json!({"ext": format!("{e:?}"), "header_hex": hex(&h.to_bytes())})); }
            }
            _ => {
                let e = gen_nested(&mut rng);
                let h = build(&f, e.clone());
                let r = build(&f, Nested { tags: e.tags.clone(), map: e.map.clone(), hash: e.hash });
                ok = check_header(&mut rep, "nested", &h, &r, 3, &wit(h.to_bytes()));
                key = (kind_ix, shape, (e.tags.len() as u64) | (e.map.len() as u64) << 4 | (e.hash.is_some() as u64) << 8);
            }
        }
        let _ = ok;
        rep.case(Some(key));
    }
    rep.finish(args);
}
