//! C24 — the de-duplication buffer remembers exactly the last `capacity` items.
//!
//! The type lives in a private module of p2panda-sync; it is reached through the public API as the
//! first component of the `Output` of `LogSync::run`: a trivial session (`Have({})`, `Done` from
//! the remote, an empty in-memory `LogStore`, `futures::executor::block_on`) returns an empty
//! `DeduplicationBuffer<Hash>` of the requested capacity. No SQLite, no runtime: also runs under
//! Miri.
//!
//! Oracle (from the statement): a FIFO list of the last `capacity` items whose insertion was
//! accepted. `insert(x)` must return `false` ("duplicate") exactly when x is in the list;
//! afterwards `contains` must agree with the list for the whole alphabet, which also bounds the
//! number of held items by `capacity`. A rejected duplicate is not an insertion and does not
//! refresh the item's age (the other conceivable reading — recency — is counted, not judged).

use std::collections::{BTreeMap, VecDeque};

use futures::executor::block_on;
use p2panda_core::Hash;
use p2panda_sync::protocols::{LogSync, LogSyncMessage};
use p2panda_sync::traits::Protocol;
use tokio::sync::broadcast;
use vh_common::{Args, Report, Rng, json};

use crate::memstore::MemStore;
use crate::model::{Ext, L};
use crate::session::{Evt, Msg};

trait First {
    type T;
    fn first(self) -> Self::T;
}
impl<A, B> First for (A, B) {
    type T = A;
    fn first(self) -> A {
        self.0
    }
}

type Session = LogSync<L, Ext, MemStore, Evt>;
/// `p2panda_sync::dedup::DeduplicationBuffer<Hash>`, named through the public associated type.
type Buffer = <<Session as Protocol>::Output as First>::T;

fn fresh(capacity: usize) -> Result<Buffer, String> {
    let (tx, _rx) = broadcast::channel::<Evt>(4);
    let session: Session = LogSync::new_with_capacity(MemStore::default(), BTreeMap::new(), tx, capacity);
    let mut sink: Vec<Msg> = Vec::new();
    let mut stream = futures::stream::iter(vec![
        Ok::<Msg, ()>(LogSyncMessage::Have(BTreeMap::new())),
        Ok(LogSyncMessage::Done),
    ]);
    let out = block_on(session.run(&mut sink, &mut stream)).map_err(|e| format!("trivial session failed: {e}"))?;
    Ok(out.first())
}

struct Verdict {
    sig: &'static str,
    what: String,
    step: usize,
}

/// Run one insertion sequence over a fresh buffer. Returns the first disagreement, and the number
/// of steps at which the FIFO and the recency reading of "last `capacity` items" differ.
fn check(capacity: usize, alphabet: &[Hash], seq: &[usize], recency_diff: &mut u64, evictions: &mut u64, dups: &mut u64) -> Result<Option<Verdict>, String> {
    let mut buf = fresh(capacity)?;
    let mut fifo: VecDeque<usize> = VecDeque::new();
    let mut recent: VecDeque<usize> = VecDeque::new(); // most recent at the back, distinct
    for (step, &x) in seq.iter().enumerate() {
        let expected_dup = fifo.contains(&x);
        let accepted = buf.insert(alphabet[x]);
        if expected_dup {
            *dups += 1;
        } else {
            fifo.push_back(x);
            if fifo.len() > capacity {
                fifo.pop_front();
                *evictions += 1;
            }
        }
        recent.retain(|y| *y != x);
        recent.push_back(x);
        if recent.len() > capacity {
            recent.pop_front();
        }
        if accepted == expected_dup {
            let sig = if expected_dup { "C24:duplicate-accepted" } else { "C24:fresh-item-reported-duplicate" };
            return Ok(Some(Verdict {
                sig,
                what: format!(
                    "insert(item {x}) returned {accepted} at step {step}, capacity {capacity}; last {capacity} inserted items were {fifo:?}"
                ),
                step,
            }));
        }
        let mut held = 0;
        for (a, h) in alphabet.iter().enumerate() {
            let c = buf.contains(h);
            held += c as usize;
            if c != fifo.contains(&a) {
                let sig = if c { "C24:contains-evicted-or-unknown-item" } else { "C24:forgot-recent-item" };
                return Ok(Some(Verdict {
                    sig,
                    what: format!(
                        "after step {step} (insert item {x}), capacity {capacity}: contains(item {a}) = {c}, last {capacity} inserted items are {fifo:?}"
                    ),
                    step,
                }));
            }
        }
        if held > capacity {
            return Ok(Some(Verdict { sig: "C24:holds-more-than-capacity", what: format!("{held} items held, capacity {capacity}"), step }));
        }
        let mut f: Vec<usize> = fifo.iter().copied().collect();
        let mut r: Vec<usize> = recent.iter().copied().collect();
        f.sort();
        r.sort();
        if f != r {
            *recency_diff += 1;
        }
    }
    Ok(None)
}

fn alphabet(rng: &mut Rng, n: usize) -> Vec<Hash> {
    (0..n).map(|_| Hash::digest(rng.bytes(16))).collect()
}

pub fn run(args: &Args) {
    let miri = cfg!(miri);
    let mut rep = Report::new(
        args,
        "exhaustive part: every insertion sequence of length L over an alphabet of K distinct hashes for every capacity 1..=C \
         (all shorter sequences are its prefixes and are judged step by step); random part: seeded sequences, capacity 1..=64, \
         alphabet 0.5x..4x capacity. Non-trivial = the sequence caused at least one eviction and one duplicate; distinct = (capacity, sequence)",
        if miri { 20 } else { 1000 },
    );
    let mut rng = Rng::new(args.seed ^ 0xC24);
    let (mut recency_diff, mut evictions, mut dups) = (0u64, 0u64, 0u64);

    // ---- exhaustive small domain ---------------------------------------------------------------
    let (caps, k, len) = if miri {
        (3usize, 3usize, 5usize)
    } else if args.tier == vh_common::Tier::Quick {
        (4, 5, 7)
    } else {
        (4, 5, 8)
    };
    let alpha = alphabet(&mut rng, k);
    let mut exhaustive_done = true;
    'ex: for capacity in 1..=caps {
        let total = (k as u64).pow(len as u32);
        for code in 0..total {
            let mut seq = Vec::with_capacity(len);
            let mut c = code;
            for _ in 0..len {
                seq.push((c % k as u64) as usize);
                c /= k as u64;
            }
            let (e0, d0) = (evictions, dups);
            match check(capacity, &alpha, &seq, &mut recency_diff, &mut evictions, &mut dups) {
                Err(e) => {
                    rep.inconclusive(e);
                    exhaustive_done = false;
                    break 'ex;
                }
                Ok(v) => {
                    let nontrivial = evictions > e0 && dups > d0;
                    rep.case(nontrivial.then_some((capacity, &seq)));
                    if let Some(v) = v {
                        rep.violation(
                            v.sig,
                            v.what,
                            json!({"seed": args.seed, "part": "exhaustive", "capacity": capacity, "alphabet": k, "sequence": seq, "failing_step": v.step}),
                        );
                    } else if rep.want_sample() && nontrivial && code % 977 == 0 {
                        rep.sample(json!({"part": "exhaustive", "capacity": capacity, "sequence": seq, "verdict": "agrees with the last-k list at every step"}));
                    }
                }
            }
        }
    }
    rep.extra("exhaustive_capacities", json!(format!("1..={caps}")));
    rep.extra("exhaustive_alphabet", json!(k));
    rep.extra("exhaustive_length", json!(len));
    rep.exhaustive = exhaustive_done && !miri;

    // ---- random long sequences -----------------------------------------------------------------
    let n = if miri { args.n(4, 10) } else { args.n(600, 12_000) };
    for case in 0..n {
        let mut r = Rng::fork(args.seed, case);
        let capacity = 1 + r.usize_below(if miri { 6 } else { 64 });
        let k = ((capacity as f64 * [0.5, 1.0, 1.5, 2.0, 4.0][r.usize_below(5)]).ceil() as usize).max(2);
        let len = if miri { 40 } else { 200 + r.usize_below(if args.tier == vh_common::Tier::Quick { 1_500 } else { 10_000 }) };
        let alpha = alphabet(&mut r, k);
        // Mix of uniform draws and bursts that revisit the most recent items (window edges).
        let mut seq: Vec<usize> = Vec::with_capacity(len);
        while seq.len() < len {
            if !seq.is_empty() && r.chance(0.3) {
                let back = 1 + r.usize_below((capacity + 2).min(seq.len()));
                seq.push(seq[seq.len() - back]);
            } else {
                seq.push(r.usize_below(k));
            }
        }
        let (e0, d0) = (evictions, dups);
        match check(capacity, &alpha, &seq, &mut recency_diff, &mut evictions, &mut dups) {
            Err(e) => {
                rep.inconclusive(e);
                break;
            }
            Ok(v) => {
                let nontrivial = evictions > e0 && dups > d0;
                rep.case(nontrivial.then_some((capacity, &seq)));
                if let Some(v) = v {
                    let upto = (v.step + 1).min(seq.len());
                    rep.violation(
                        v.sig,
                        v.what,
                        json!({"seed": args.seed, "part": "random", "case": case, "capacity": capacity, "alphabet": k,
                               "sequence_prefix": &seq[..upto], "failing_step": v.step}),
                    );
                } else if rep.want_sample() {
                    rep.sample(json!({"part": "random", "case": case, "capacity": capacity, "alphabet": k, "length": len,
                                      "evictions": evictions - e0, "duplicates": dups - d0}));
                }
            }
        }
    }
    rep.extra("random_sequences", json!(n));
    rep.extra("evictions_observed", json!(evictions));
    rep.extra("duplicates_observed", json!(dups));
    rep.extra("steps_where_fifo_and_recency_readings_differ (recorded, not judged)", json!(recency_diff));
    rep.extra("under_miri", json!(miri));
    rep.finish(args);
}
