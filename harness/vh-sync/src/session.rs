//! One pair of real `LogSync` sessions over a monitored transport, driven by `drive`.

use std::fmt::Debug;
use std::sync::Arc;
use std::sync::atomic::AtomicU64;

use p2panda_core::{Hash, SeqNum, VerifyingKey};
use p2panda_store::logs::LogStore;
use p2panda_sync::protocols::{LogSync, LogSyncError, LogSyncEvent, LogSyncMessage, LogSyncMetrics};
use p2panda_sync::traits::Protocol;
use tokio::sync::broadcast;
use tokio::sync::broadcast::error::TryRecvError;
use vh_common::Rng;

use crate::chan::{Transport, Wire, wire_up};
use crate::drive::{DriveCfg, End, PollSlot, StoreActivity, drive};
use crate::model::{Ext, L, Logs, Op};

pub type Msg = LogSyncMessage<L>;
pub type Evt = LogSyncEvent<Ext>;

pub struct PairRun<R> {
    pub result: [Option<Result<LogSyncMetrics, LogSyncError>>; 2],
    pub end: End,
    /// `(global send index, tag, record)` per side, in send order.
    pub sent: [Vec<(u64, u64, R)>; 2],
    pub events: [Vec<Evt>; 2],
    pub events_lagged: bool,
    pub wire: Arc<Wire>,
    pub polls: [u64; 2],
    pub wakes: [u64; 2],
}

pub struct PairCfg<'a> {
    pub transport: Transport,
    pub dedup_capacity: usize,
    pub event_capacity: usize,
    pub drive: DriveCfg,
    pub slot: &'a PollSlot,
    /// Read at every send of side i and stored with the transcript record.
    pub tags: [Arc<AtomicU64>; 2],
    /// Additional progress counter (store calls of both sides).
    pub extra_progress: Arc<StoreActivity>,
}

pub fn kind(m: &Msg) -> &'static str {
    match m {
        LogSyncMessage::Have(_) => "have",
        LogSyncMessage::PreSync { .. } => "pre_sync",
        LogSyncMessage::Operation(..) => "operation",
        LogSyncMessage::Done => "done",
    }
}

pub fn run_pair<SA, SB, R>(
    store_a: SA,
    store_b: SB,
    logs: [Logs; 2],
    summarize: fn(&Msg) -> R,
    rng: &mut Rng,
    cfg: PairCfg<'_>,
) -> PairRun<R>
where
    SA: LogStore<Op, VerifyingKey, L, SeqNum, Hash> + Clone + Send + 'static,
    SB: LogStore<Op, VerifyingKey, L, SeqNum, Hash> + Clone + Send + 'static,
    R: Unpin + Debug + Clone,
{
    let ends = wire_up::<Msg, R>(cfg.transport, summarize, cfg.tags.clone());
    let wire = ends.wire.clone();
    let (ev_tx_a, mut ev_rx_a) = broadcast::channel::<Evt>(cfg.event_capacity.max(16));
    let (ev_tx_b, mut ev_rx_b) = broadcast::channel::<Evt>(cfg.event_capacity.max(16));
    let [logs_a, logs_b] = logs;
    let sess_a: LogSync<L, Ext, SA, Evt> = LogSync::new_with_capacity(store_a, logs_a, ev_tx_a, cfg.dedup_capacity);
    let sess_b: LogSync<L, Ext, SB, Evt> = LogSync::new_with_capacity(store_b, logs_b, ev_tx_b, cfg.dedup_capacity);
    let (mut sink_a, mut stream_a) = ends.a;
    let (mut sink_b, mut stream_b) = ends.b;

    // The channel halves stay alive until both sides are done: a finished side must not close the
    // transport under the other one.
    let mut fa = Box::pin(async { sess_a.run(&mut sink_a, &mut stream_a).await.map(|(_, m)| m) });
    let mut fb = Box::pin(async { sess_b.run(&mut sink_b, &mut stream_b).await.map(|(_, m)| m) });

    let out = drive(fa.as_mut(), fb.as_mut(), &wire, &cfg.extra_progress, rng, &cfg.drive, cfg.slot);

    let mut lagged = false;
    let mut drain = |rx: &mut broadcast::Receiver<Evt>| {
        let mut v = Vec::new();
        loop {
            match rx.try_recv() {
                Ok(e) => v.push(e),
                Err(TryRecvError::Lagged(_)) => lagged = true,
                Err(_) => break,
            }
        }
        v
    };
    let events = [drain(&mut ev_rx_a), drain(&mut ev_rx_b)];
    let sent = [ends.transcripts[0].lock().unwrap().clone(), ends.transcripts[1].lock().unwrap().clone()];
    PairRun {
        result: [out.a, out.b],
        end: out.end,
        sent,
        events,
        events_lagged: lagged,
        wire,
        polls: out.polls,
        wakes: out.wakes,
    }
}

pub fn full(m: &Msg) -> Msg {
    m.clone()
}

/// Light record for volume runs: message kind and payload size.
#[derive(Clone, Debug, PartialEq, Eq)]
pub struct Lite {
    pub kind: &'static str,
    pub bytes: usize,
}

pub fn lite(m: &Msg) -> Lite {
    let bytes = match m {
        LogSyncMessage::Operation(h, b) => h.len() + b.as_ref().map(|b| b.len()).unwrap_or(0),
        _ => 0,
    };
    Lite { kind: kind(m), bytes }
}
