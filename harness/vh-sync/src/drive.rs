//! Drives the two sides of a session by hand (no executor between the harness and the code under
//! test) and decides *on state* whether the pair completed, stalled or spins.
//!
//! * Each side is a future polled only when its own waker was invoked (or initially). The order in
//!   which two runnable sides are polled is drawn from the case generator (schedule diversity).
//! * Stall: neither unfinished side is runnable. With `external == false` (nothing outside this
//!   thread can invoke a waker: in-memory store, in-process channels) this is an exact quiescent
//!   state and is reported immediately. With `external == true` (SQLite worker threads) the state
//!   is observed twice, `settle` apart, and reported only if no waker fired and no progress counter
//!   moved in between, no store call is in flight *and* every unfinished side is blocked on the
//!   transport (with no store call in flight nothing outside this thread can wake a side, so the
//!   verdict does not depend on how long the machine takes to schedule a database thread);
//!   otherwise the driver keeps waiting until the wall-clock watchdog, whose firing is inconclusive.
//! * Spin: a `poll` that never returns cannot be observed from the polling thread; a monitor
//!   thread (see `SpinMonitor`) samples the thread's *CPU time* while one and the same poll call is
//!   in progress and no transport/store call is made.

use std::future::Future;
use std::pin::Pin;
use std::sync::atomic::{AtomicBool, AtomicU64, Ordering::SeqCst};
use std::sync::{Arc, Mutex};
use std::task::{Context, Poll, Wake, Waker};
use std::thread::Thread;
use std::time::{Duration, Instant};

use vh_common::{Rng, Value, json};

use crate::chan::{BLOCKED_IN_RECV, BLOCKED_IN_SEND, IDLE, Wire, state_name};

/// Store activity of both sides of a pair: total calls made (a progress counter) and calls whose
/// future has not resolved yet (a side waiting for the store is not blocked on the transport, and
/// a store worker thread may still wake it).
#[derive(Debug, Default)]
pub struct StoreActivity {
    pub calls: AtomicU64,
    pub in_flight: AtomicU64,
}

struct Flag {
    woken: AtomicBool,
    wakes: AtomicU64,
    thread: Thread,
}

impl Wake for Flag {
    fn wake(self: Arc<Self>) {
        self.wake_by_ref();
    }
    fn wake_by_ref(self: &Arc<Self>) {
        self.woken.store(true, SeqCst);
        self.wakes.fetch_add(1, SeqCst);
        self.thread.unpark();
    }
}

/// Transport-level snapshot of one side at a stall.
#[derive(Clone, Debug, PartialEq, Eq)]
pub struct SideSnap {
    pub finished: bool,
    /// The side's poll was abandoned because it looped without awaiting (see `spinwatch`).
    pub spun: bool,
    pub state: u8,
    /// Messages this side has in flight towards the other side.
    pub out_occupancy: u64,
    /// Messages in flight towards this side.
    pub in_occupancy: u64,
}

#[derive(Clone, Debug, PartialEq, Eq)]
pub struct Snap {
    pub sides: [SideSnap; 2],
    pub progress: [u64; 4],
    pub extra_progress: u64,
}

impl Snap {
    pub fn json(&self) -> Value {
        json!({
            "A": side_json(&self.sides[0]), "B": side_json(&self.sides[1]),
            "sent_A": self.progress[0], "sent_B": self.progress[1],
            "received_A": self.progress[2], "received_B": self.progress[3],
        })
    }
}

fn side_json(s: &SideSnap) -> Value {
    json!({
        "finished": s.finished, "spinning_without_yield": s.spun, "state": state_name(s.state),
        "outbound_in_flight": s.out_occupancy, "inbound_in_flight": s.in_occupancy,
    })
}

#[derive(Debug)]
pub enum End {
    /// Both futures returned.
    Completed,
    /// No unfinished side can ever run again (exact) / ran in the observation window.
    Stalled { snap: Snap, exact: bool },
    /// At least one side looped inside a single poll without awaiting anything (counted, see
    /// `spinwatch`); the other side was driven on until it finished or could not run any more.
    Spin { snap: Snap, span_entries_without_io: u64 },
    /// Wall-clock watchdog without a conclusive state.
    Watchdog { snap: Snap },
}

pub struct Outcome<TA, TB> {
    pub a: Option<TA>,
    pub b: Option<TB>,
    pub end: End,
    pub polls: [u64; 2],
    pub wakes: [u64; 2],
}

pub struct DriveCfg {
    pub external: bool,
    pub settle: Duration,
    pub watchdog: Duration,
}

impl DriveCfg {
    pub fn exact() -> Self {
        DriveCfg { external: false, settle: Duration::from_millis(100), watchdog: Duration::from_secs(60) }
    }
    pub fn external() -> Self {
        DriveCfg { external: true, settle: Duration::from_millis(100), watchdog: Duration::from_secs(60) }
    }
}

fn snap(wire: &Wire, done: [bool; 2], spun: [bool; 2], extra: &StoreActivity) -> Snap {
    let side = |i: usize| SideSnap {
        finished: done[i],
        spun: spun[i],
        state: wire.state[i].load(SeqCst),
        out_occupancy: wire.occupancy(i),
        in_occupancy: wire.occupancy(1 - i),
    };
    Snap { sides: [side(0), side(1)], progress: wire.progress(), extra_progress: extra.calls.load(SeqCst) }
}

/// Are all unfinished sides blocked on the transport in a way that only the other side could
/// resolve (send with nothing read, recv with nothing in flight)?
fn transport_blocked(s: &Snap) -> bool {
    s.sides.iter().all(|x| {
        x.finished
            || x.spun
            || x.state == BLOCKED_IN_SEND
            || (x.state == BLOCKED_IN_RECV && x.in_occupancy == 0)
    })
}

/// Poll two futures to completion or to a decided stall. `extra_progress` is any additional
/// counter whose movement means "something is still happening" (store calls).
pub fn drive<FA, FB>(
    mut fa: Pin<&mut FA>,
    mut fb: Pin<&mut FB>,
    wire: &Arc<Wire>,
    extra_progress: &Arc<StoreActivity>,
    rng: &mut Rng,
    cfg: &DriveCfg,
    slot: &PollSlot,
) -> Outcome<FA::Output, FB::Output>
where
    FA: Future,
    FB: Future,
{
    let me = std::thread::current();
    let flags = [
        Arc::new(Flag { woken: AtomicBool::new(true), wakes: AtomicU64::new(0), thread: me.clone() }),
        Arc::new(Flag { woken: AtomicBool::new(true), wakes: AtomicU64::new(0), thread: me }),
    ];
    let wakers = [Waker::from(flags[0].clone()), Waker::from(flags[1].clone())];
    let mut out_a = None;
    let mut out_b = None;
    let mut polls = [0u64; 2];
    let mut spun = [false; 2];
    let mut spin_count = 0u64;
    let started = Instant::now();
    // Cleared on drop, also when the code under test panics inside a poll.
    let _io = slot.set_io(wire, extra_progress);

    let end = loop {
        let mut ran = false;
        let first = if rng.bool() { 0 } else { 1 };
        for i in [first, 1 - first] {
            let done = if i == 0 { out_a.is_some() } else { out_b.is_some() };
            if done || spun[i] || !flags[i].woken.swap(false, SeqCst) {
                continue;
            }
            ran = true;
            polls[i] += 1;
            let mut cx = Context::from_waker(&wakers[i]);
            let _in_poll = slot.enter();
            let _armed = crate::spinwatch::arm(wire, extra_progress);
            let polled = std::panic::catch_unwind(std::panic::AssertUnwindSafe(|| {
                if i == 0 {
                    if let Poll::Ready(x) = fa.as_mut().poll(&mut cx) {
                        out_a = Some(x);
                    }
                } else if let Poll::Ready(x) = fb.as_mut().poll(&mut cx) {
                    out_b = Some(x);
                }
            }));
            if let Err(payload) = polled {
                match payload.downcast::<crate::spinwatch::Spin>() {
                    Ok(s) => {
                        // The future was unwound out of its poll and must never be polled again.
                        spun[i] = true;
                        spin_count = s.span_entries_without_io;
                    }
                    Err(other) => std::panic::resume_unwind(other),
                }
            }
        }
        let done = [out_a.is_some(), out_b.is_some()];
        if (0..2).all(|i| done[i] || spun[i]) {
            if spun[0] || spun[1] {
                break End::Spin { snap: snap(wire, done, spun, extra_progress), span_entries_without_io: spin_count };
            }
            break End::Completed;
        }
        if ran {
            continue;
        }
        // Nobody runnable.
        let s1 = snap(wire, done, spun, extra_progress);
        if !cfg.external {
            if spun[0] || spun[1] {
                break End::Spin { snap: s1, span_entries_without_io: spin_count };
            }
            break End::Stalled { snap: s1, exact: true };
        }
        let t0 = Instant::now();
        let mut woken = false;
        while t0.elapsed() < cfg.settle {
            std::thread::park_timeout(cfg.settle - t0.elapsed().min(cfg.settle));
            if flags.iter().any(|f| f.woken.load(SeqCst)) {
                woken = true;
                break;
            }
        }
        if woken {
            continue;
        }
        let s2 = snap(wire, done, spun, extra_progress);
        if s2 == s1
            && extra_progress.in_flight.load(SeqCst) == 0
            && transport_blocked(&s2)
            && !flags.iter().any(|f| f.woken.load(SeqCst))
        {
            if spun[0] || spun[1] {
                break End::Spin { snap: s2, span_entries_without_io: spin_count };
            }
            break End::Stalled { snap: s2, exact: false };
        }
        if started.elapsed() > cfg.watchdog {
            break End::Watchdog { snap: s2 };
        }
    };
    Outcome {
        a: out_a,
        b: out_b,
        end,
        polls,
        wakes: [flags[0].wakes.load(SeqCst), flags[1].wakes.load(SeqCst)],
    }
}

/// Structural description of a stall, symmetric in the two sides.
pub fn stall_shape(s: &Snap, measured_cap: Option<usize>) -> (String, bool) {
    let full = |occ: u64| measured_cap.map(|c| occ >= c as u64).unwrap_or(false);
    let mut parts: Vec<String> = s
        .sides
        .iter()
        .map(|x| {
            if x.finished {
                "finished".to_string()
            } else if x.spun {
                "spinning".to_string()
            } else {
                match x.state {
                    BLOCKED_IN_SEND => {
                        format!("blocked_in_send[{}]", if full(x.out_occupancy) { "out-full" } else { "out-not-full" })
                    }
                    BLOCKED_IN_RECV => {
                        format!("blocked_in_recv[{}]", if x.in_occupancy == 0 { "in-empty" } else { "in-nonempty" })
                    }
                    IDLE => "pending-outside-transport".to_string(),
                    _ => "?".to_string(),
                }
            }
        })
        .collect();
    parts.sort();
    let both_send_full = s.sides.iter().all(|x| !x.finished && !x.spun && x.state == BLOCKED_IN_SEND && full(x.out_occupancy));
    (parts.join("+"), both_send_full)
}

// ---------------------------------------------------------------------------------------------
// Spin monitor
// ---------------------------------------------------------------------------------------------

/// Published by a worker thread around every `poll` of a session future.
pub struct PollSlot {
    /// Odd while inside a poll; changes at every enter/leave.
    seq: AtomicU64,
    thread: Mutex<Option<libc::pthread_t>>,
    io: Mutex<Option<(Arc<Wire>, Arc<StoreActivity>)>>,
    /// Free-form description of the case in progress (witness if it spins).
    pub what: Mutex<Value>,
}

impl PollSlot {
    pub fn new() -> Arc<PollSlot> {
        Arc::new(PollSlot { seq: AtomicU64::new(0), thread: Mutex::new(None), io: Mutex::new(None), what: Mutex::new(Value::Null) })
    }
    /// Must be called on the worker thread itself.
    pub fn bind_current_thread(&self) {
        *self.thread.lock().unwrap() = Some(unsafe { libc::pthread_self() });
    }
    fn enter(&self) -> InPoll<'_> {
        self.seq.fetch_add(1, SeqCst);
        InPoll(self)
    }
    fn set_io(&self, wire: &Arc<Wire>, extra: &Arc<StoreActivity>) -> IoSet<'_> {
        *self.io.lock().unwrap() = Some((wire.clone(), extra.clone()));
        IoSet(self)
    }
    fn io_count(&self) -> Option<u64> {
        let g = self.io.lock().unwrap();
        g.as_ref().map(|(w, e)| w.io_calls.load(SeqCst) + e.calls.load(SeqCst))
    }
    fn cpu_ns(&self) -> Option<u64> {
        let t = (*self.thread.lock().unwrap())?;
        unsafe {
            let mut cid: libc::clockid_t = 0;
            if libc::pthread_getcpuclockid(t, &mut cid) != 0 {
                return None;
            }
            let mut ts: libc::timespec = std::mem::zeroed();
            if libc::clock_gettime(cid, &mut ts) != 0 {
                return None;
            }
            Some(ts.tv_sec as u64 * 1_000_000_000 + ts.tv_nsec as u64)
        }
    }
}

/// Marks the span of one `poll` call; the slot's sequence number is odd exactly while one exists
/// (also across an unwinding panic of the code under test).
struct InPoll<'a>(&'a PollSlot);

impl Drop for InPoll<'_> {
    fn drop(&mut self) {
        self.0.seq.fetch_add(1, SeqCst);
    }
}

struct IoSet<'a>(&'a PollSlot);

impl Drop for IoSet<'_> {
    fn drop(&mut self) {
        *self.0.io.lock().unwrap_or_else(|e| e.into_inner()) = None;
    }
}

#[derive(Clone, Debug)]
pub struct SpinReport {
    pub what: Value,
    pub cpu_s: f64,
    pub wall_s: f64,
}

/// Watches a set of slots. A spin is reported when one and the same `poll` call has consumed
/// `cpu_limit` of *thread CPU time* without a single transport or store call being made. CPU time,
/// not wall time: a descheduled thread does not accumulate it, so machine load cannot trigger it.
pub struct SpinMonitor {
    pub found: Arc<Mutex<Option<SpinReport>>>,
    stop: Arc<AtomicBool>,
    handle: Option<std::thread::JoinHandle<()>>,
}

impl SpinMonitor {
    pub fn start(slots: Vec<Arc<PollSlot>>, cpu_limit: Duration, on_spin: impl Fn() + Send + 'static) -> SpinMonitor {
        let found: Arc<Mutex<Option<SpinReport>>> = Arc::default();
        let stop = Arc::new(AtomicBool::new(false));
        let (f2, s2) = (found.clone(), stop.clone());
        let handle = std::thread::spawn(move || {
            // Per slot: (poll seq, io count, cpu at first sight, wall at first sight).
            let mut seen: Vec<Option<(u64, u64, u64, Instant)>> = vec![None; slots.len()];
            while !s2.load(SeqCst) {
                std::thread::sleep(Duration::from_millis(100));
                for (i, slot) in slots.iter().enumerate() {
                    let seq = slot.seq.load(SeqCst);
                    if seq % 2 == 0 {
                        seen[i] = None;
                        continue;
                    }
                    let (Some(io), Some(cpu)) = (slot.io_count(), slot.cpu_ns()) else {
                        seen[i] = None;
                        continue;
                    };
                    match seen[i] {
                        Some((s, io0, cpu0, t0)) if s == seq && io0 == io => {
                            let burnt = Duration::from_nanos(cpu.saturating_sub(cpu0));
                            if burnt >= cpu_limit {
                                *f2.lock().unwrap() = Some(SpinReport {
                                    what: slot.what.lock().unwrap().clone(),
                                    cpu_s: burnt.as_secs_f64(),
                                    wall_s: t0.elapsed().as_secs_f64(),
                                });
                                on_spin();
                                return;
                            }
                        }
                        _ => seen[i] = Some((seq, io, cpu, Instant::now())),
                    }
                }
            }
        });
        SpinMonitor { found, stop, handle: Some(handle) }
    }

    pub fn stop(mut self) {
        self.stop.store(true, SeqCst);
        if let Some(h) = self.handle.take() {
            let _ = h.join();
        }
    }
}
