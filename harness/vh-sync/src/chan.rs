//! Monitored transports: `Sink`/`Stream` wrappers that publish, per side, whether the session is
//! currently blocked in `send`, blocked in `recv` or neither, plus per-direction message counters
//! (buffer occupancy = sent − received). The wrappers add no buffering and no behaviour of their
//! own: every call is forwarded to the wrapped channel half.

use std::fmt::Debug;
use std::pin::Pin;
use std::sync::atomic::{AtomicU8, AtomicU64, Ordering::SeqCst};
use std::sync::{Arc, Mutex};
use std::task::{Context, Poll};

use futures::channel::mpsc as fmpsc;
use futures::{FutureExt, Sink, SinkExt, Stream, StreamExt};
use tokio_stream::wrappers::ReceiverStream;
use tokio_util::sync::PollSender;

pub const IDLE: u8 = 0;
pub const BLOCKED_IN_SEND: u8 = 1;
pub const BLOCKED_IN_RECV: u8 = 2;

pub fn state_name(s: u8) -> &'static str {
    match s {
        IDLE => "idle",
        BLOCKED_IN_SEND => "blocked_in_send",
        BLOCKED_IN_RECV => "blocked_in_recv",
        _ => "?",
    }
}

/// Shared between the two sides of one session pair.
#[derive(Debug, Default)]
pub struct Wire {
    /// Transport state of side 0 / side 1 (result of the side's most recent transport call).
    pub state: [AtomicU8; 2],
    /// Messages handed to the sink of side i (direction i → 1-i).
    pub sent: [AtomicU64; 2],
    /// Messages taken out of the stream of side i (direction 1-i → i).
    pub recvd: [AtomicU64; 2],
    /// Every transport call (for the spin detector: "did anything at all").
    pub io_calls: AtomicU64,
    /// Global order of sends.
    pub clock: AtomicU64,
}

impl Wire {
    /// Messages in flight from side `i` to the other side.
    pub fn occupancy(&self, i: usize) -> u64 {
        self.sent[i].load(SeqCst).saturating_sub(self.recvd[1 - i].load(SeqCst))
    }

    pub fn progress(&self) -> [u64; 4] {
        [
            self.sent[0].load(SeqCst),
            self.sent[1].load(SeqCst),
            self.recvd[0].load(SeqCst),
            self.recvd[1].load(SeqCst),
        ]
    }
}

/// What a recorder keeps of one sent message: `(global send index, caller's tag, summary)`.
pub type Transcript<R> = Arc<Mutex<Vec<(u64, u64, R)>>>;

pub struct MonSink<S, M, R> {
    inner: S,
    wire: Arc<Wire>,
    side: usize,
    summarize: fn(&M) -> R,
    /// Tag attached to every record (C20: number of store calls made so far on this side).
    tag: Arc<AtomicU64>,
    pub transcript: Transcript<R>,
}

impl<S, M, R> MonSink<S, M, R> {
    fn note(&self, pending: bool) {
        self.wire.io_calls.fetch_add(1, SeqCst);
        self.wire.state[self.side].store(if pending { BLOCKED_IN_SEND } else { IDLE }, SeqCst);
    }
}

impl<S, M, R> Sink<M> for MonSink<S, M, R>
where
    S: Sink<M> + Unpin,
    M: Unpin,
    R: Unpin,
{
    type Error = S::Error;

    fn poll_ready(mut self: Pin<&mut Self>, cx: &mut Context<'_>) -> Poll<Result<(), Self::Error>> {
        let r = self.inner.poll_ready_unpin(cx);
        self.note(r.is_pending());
        r
    }

    fn start_send(mut self: Pin<&mut Self>, item: M) -> Result<(), Self::Error> {
        let rec = (self.summarize)(&item);
        let r = self.inner.start_send_unpin(item);
        if r.is_ok() {
            let n = self.wire.clock.fetch_add(1, SeqCst);
            let tag = self.tag.load(SeqCst);
            self.transcript.lock().unwrap().push((n, tag, rec));
            self.wire.sent[self.side].fetch_add(1, SeqCst);
        }
        self.wire.io_calls.fetch_add(1, SeqCst);
        r
    }

    fn poll_flush(mut self: Pin<&mut Self>, cx: &mut Context<'_>) -> Poll<Result<(), Self::Error>> {
        let r = self.inner.poll_flush_unpin(cx);
        self.note(r.is_pending());
        r
    }

    fn poll_close(mut self: Pin<&mut Self>, cx: &mut Context<'_>) -> Poll<Result<(), Self::Error>> {
        let r = self.inner.poll_close_unpin(cx);
        self.note(r.is_pending());
        r
    }
}

pub struct MonStream<St> {
    inner: St,
    wire: Arc<Wire>,
    side: usize,
}

impl<St, M> Stream for MonStream<St>
where
    St: Stream<Item = M> + Unpin,
{
    type Item = Result<M, ()>;

    fn poll_next(mut self: Pin<&mut Self>, cx: &mut Context<'_>) -> Poll<Option<Self::Item>> {
        let r = self.inner.poll_next_unpin(cx);
        self.wire.io_calls.fetch_add(1, SeqCst);
        match r {
            Poll::Pending => {
                self.wire.state[self.side].store(BLOCKED_IN_RECV, SeqCst);
                Poll::Pending
            }
            Poll::Ready(x) => {
                self.wire.state[self.side].store(IDLE, SeqCst);
                if x.is_some() {
                    self.wire.recvd[self.side].fetch_add(1, SeqCst);
                }
                Poll::Ready(x.map(Ok))
            }
        }
    }
}

// ---------------------------------------------------------------------------------------------
// Transports
// ---------------------------------------------------------------------------------------------

#[derive(Clone, Copy, Debug, PartialEq, Eq, Hash)]
pub enum Transport {
    /// `futures::channel::mpsc::channel(n)` (what the repository's own tests use, with n = 512).
    Futures(usize),
    /// `futures::channel::mpsc::unbounded()`.
    Unbounded,
    /// `tokio::sync::mpsc::channel(n)` behind `PollSender` / `ReceiverStream` (n ≥ 1).
    Tokio(usize),
}

impl Transport {
    pub fn label(&self) -> String {
        match self {
            Transport::Futures(n) => format!("futures-mpsc({n})"),
            Transport::Unbounded => "futures-mpsc(unbounded)".into(),
            Transport::Tokio(n) => format!("tokio-mpsc({n})"),
        }
    }

    /// Nominal capacity; `None` = unbounded.
    pub fn nominal(&self) -> Option<usize> {
        match self {
            Transport::Futures(n) | Transport::Tokio(n) => Some(*n),
            Transport::Unbounded => None,
        }
    }

    /// Measured capacity: how many messages one sender can hand over before its next `send` would
    /// have to wait, with nobody reading. `None` = did not block within `limit` messages.
    pub fn measured_capacity(&self, limit: usize) -> Option<usize> {
        let (mut tx, _rx) = self.halves::<u8>();
        for i in 0..limit {
            // `SinkExt::send` = poll_ready + start_send + poll_flush.
            if tx.send(0u8).now_or_never().is_none() {
                // futures-mpsc accepts the item and then parks in flush: the item is in flight.
                return Some(match self {
                    Transport::Futures(_) => i + 1,
                    _ => i,
                });
            }
        }
        None
    }

    #[allow(clippy::type_complexity)]
    pub fn halves<M: Send + 'static>(
        &self,
    ) -> (Pin<Box<dyn Sink<M, Error = String> + Send>>, Pin<Box<dyn Stream<Item = M> + Send>>) {
        match self {
            Transport::Futures(n) => {
                let (tx, rx) = fmpsc::channel::<M>(*n);
                (Box::pin(tx.sink_map_err(|e| format!("{e:?}"))), Box::pin(rx))
            }
            Transport::Unbounded => {
                let (tx, rx) = fmpsc::unbounded::<M>();
                (Box::pin(tx.sink_map_err(|e| format!("{e:?}"))), Box::pin(rx))
            }
            Transport::Tokio(n) => {
                let (tx, rx) = tokio::sync::mpsc::channel::<M>(*n);
                (
                    Box::pin(PollSender::new(tx).sink_map_err(|_| "tokio mpsc: channel closed".to_string())),
                    Box::pin(ReceiverStream::new(rx)),
                )
            }
        }
    }
}

pub type BoxSink<M> = Pin<Box<dyn Sink<M, Error = String> + Send>>;
pub type BoxStream<M> = Pin<Box<dyn Stream<Item = M> + Send>>;

pub struct Ends<M, R> {
    pub wire: Arc<Wire>,
    /// (sink, stream) of side 0 and side 1.
    pub a: (MonSink<BoxSink<M>, M, R>, MonStream<BoxStream<M>>),
    pub b: (MonSink<BoxSink<M>, M, R>, MonStream<BoxStream<M>>),
    pub transcripts: [Transcript<R>; 2],
}

/// Two monitored channel pairs wired crosswise. `tags[i]` is read at every send of side i.
pub fn wire_up<M, R>(t: Transport, summarize: fn(&M) -> R, tags: [Arc<AtomicU64>; 2]) -> Ends<M, R>
where
    M: Send + Unpin + 'static,
    R: Unpin + Debug,
{
    let wire = Arc::new(Wire::default());
    let (tx_ab, rx_ab) = t.halves::<M>();
    let (tx_ba, rx_ba) = t.halves::<M>();
    let tr: [Transcript<R>; 2] = [Arc::default(), Arc::default()];
    let [tag_a, tag_b] = tags;
    let a = (
        MonSink { inner: tx_ab, wire: wire.clone(), side: 0, summarize, tag: tag_a, transcript: tr[0].clone() },
        MonStream { inner: rx_ba, wire: wire.clone(), side: 0 },
    );
    let b = (
        MonSink { inner: tx_ba, wire: wire.clone(), side: 1, summarize, tag: tag_b, transcript: tr[1].clone() },
        MonStream { inner: rx_ab, wire: wire.clone(), side: 1 },
    );
    Ends { wire, a, b, transcripts: tr }
}
