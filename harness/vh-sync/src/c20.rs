//! C20 — each side sends `Have (Done | PreSync Operation* Done)` and nothing after its `Done`, even
//! when the local store changes concurrently.
//!
//! fault_enumeration: a fault-free dry run of a replica pair counts the `LogStore` trait calls each
//! side makes (K_A, K_B). Then, for side in {A, B, both}, for **every** k < K_side and for every
//! fault kind, the session pair is run again with the store mutated immediately before the k-th
//! call of that side (the mutation goes through the real store API: `prune_entries`,
//! `delete_operation`, `insert_operation`). A grammar monitor reads every message handed to each
//! sink; at the pair's final state (both returned / stalled for good / a side loops without awaiting)
//! every side that did not fail must have sent exactly one `done`. Stage 2 puts the real `TopicLogSync` with live mode on top and checks that no `Sync(_)`
//! message follows a side's `Sync(Done)` and that no live phase fails on an unexpected message.
//! Stores are real in-memory SQLite databases, restored from the model after every faulted run.

use std::collections::{BTreeMap, BTreeSet};
use std::sync::Arc;
use std::sync::atomic::{AtomicU64, Ordering::SeqCst};

use futures::channel::mpsc as fmpsc;
use p2panda_core::cbor::decode_cbor;
use p2panda_core::{Hash, Header, SeqNum, VerifyingKey};
use p2panda_store::logs::LogStore;
use p2panda_store::topics::TopicStore;
use p2panda_store::{SqliteStore, Transaction};
use p2panda_sync::ToSync;
use p2panda_sync::protocols::{LogSyncMessage, TopicLogSync, TopicLogSyncError, TopicLogSyncEvent, TopicLogSyncMessage};
use p2panda_sync::traits::Protocol;
use tokio::sync::broadcast;
use vh_common::{Args, Report, Rng, Tier, Value, json};

use crate::chan::{Transport, wire_up};
use crate::drive::{DriveCfg, End, StoreActivity, drive};
use crate::fstore::{CallRec, FStore, Fault};
use crate::model::{Ext, GenCfg, L, LogKey, Op, World, build_store, delete_ops, gen_world, insert_ops};
use crate::pool::{WorkerCtx, default_workers, run_cases};
use crate::session::{PairCfg, full, kind, run_pair};

const KINDS: [&str; 6] = [
    "prune-whole-log",
    "prune-prefix",
    "delete-one-operation",
    "append-operations",
    "prune-all-announced-logs-the-peer-lacks",
    "append-then-prune-everything-up-to-the-announced-height",
];
const TOPIC: [u8; 32] = [0x20; 32];
const SIDES: [&str; 2] = ["A", "B"];

/// Grammar monitor. Returns `(signature, explanation)` for the first deviation.
///
/// `settled`: `Some(description)` when the pair has reached a final state (both returned, or no
/// side can ever run again / a side loops without awaiting) and this side did not return an error:
/// then exactly one `done` must have been sent.
fn grammar(kinds: &[&'static str], settled: Option<&str>) -> Option<(&'static str, String)> {
    let mut done_at: Option<usize> = None;
    for (i, k) in kinds.iter().enumerate() {
        if let Some(d) = done_at {
            return Some(if *k == "done" {
                ("C20:second-done", format!("a second `done` is sent (messages #{d} and #{i} of this side: {kinds:?})"))
            } else {
                ("C20:message-after-done", format!("`{k}` is sent after `done` (message #{i} of this side: {kinds:?})"))
            });
        }
        let ok = match (i, *k) {
            (0, "have") => true,
            (1, "done") | (1, "pre_sync") => true,
            (i, "operation") | (i, "done") if i >= 2 => kinds[1] == "pre_sync",
            _ => false,
        };
        if !ok {
            return Some(("C20:out-of-order-message", format!("`{k}` at position {i} does not fit `have (done | pre_sync operation* done)`: {kinds:?}")));
        }
        if *k == "done" {
            done_at = Some(i);
        }
    }
    if let (Some(state), None) = (settled, done_at) {
        return Some(("C20:no-done-sent", format!("`done` was never sent although the session pair has reached its final state ({state}): {kinds:?}")));
    }
    None
}

#[derive(Clone)]
struct Plan {
    side: &'static str,
    k: [Option<u64>; 2],
    kind: usize,
}

struct FaultPick {
    faults: Vec<Fault>,
    touched: Vec<LogKey>,
    extra_hashes: Vec<Hash>,
    announced: bool,
    describe: String,
}

/// Choose a concrete store mutation of `kind` for replica `r`.
fn pick_fault(world: &World, r: usize, kind: usize, k: u64, needed: &[LogKey], announced: &[LogKey]) -> Option<FaultPick> {
    let pool: &[LogKey] = if !needed.is_empty() { needed } else { announced };
    let target = *pool.get((k as usize) % pool.len().max(1))?;
    let seg = world.held[r].get(&target)?;
    let author = world.author(&target);
    let is_announced = announced.contains(&target);
    let mk = |faults, touched: Vec<LogKey>, extra, describe: String| Some(FaultPick { faults, touched, extra_hashes: extra, announced: is_announced, describe });
    match kind {
        0 => mk(
            vec![Fault::Prune { author, log: target.1, until: seg.end + 1 }],
            vec![target],
            vec![],
            format!("prune_entries(author {}, log {}, until {}) — empties the log", target.0, target.1, seg.end + 1),
        ),
        1 => {
            if seg.end == seg.start {
                return None;
            }
            let until = seg.start + 1 + (k as SeqNum % (seg.end - seg.start));
            mk(
                vec![Fault::Prune { author, log: target.1, until }],
                vec![target],
                vec![],
                format!("prune_entries(author {}, log {}, until {until}) — held {}..={}", target.0, target.1, seg.start, seg.end),
            )
        }
        2 => {
            let seq = seg.start + (k as SeqNum % (seg.end - seg.start + 1));
            let h = world.masters[&target].ops[seq as usize].hash;
            mk(vec![Fault::Delete { hashes: vec![h] }], vec![target], vec![], format!("delete_operation(author {}, log {}, seq {seq})", target.0, target.1))
        }
        3 => {
            let m = &world.masters[&target];
            let more: Vec<Op> = m.ops.iter().filter(|o| o.header.seq_num > seg.end).take(3).cloned().collect();
            if more.is_empty() {
                return None;
            }
            let hashes = more.iter().map(|o| o.hash).collect();
            let n = more.len();
            mk(vec![Fault::Insert { ops: more }], vec![target], hashes, format!("insert {n} further operation(s) into author {} log {}", target.0, target.1))
        }
        4 => {
            if needed.is_empty() {
                return None;
            }
            let faults = needed
                .iter()
                .map(|t| Fault::Prune { author: world.author(t), log: t.1, until: world.held[r][t].end + 1 })
                .collect();
            Some(FaultPick {
                faults,
                touched: needed.to_vec(),
                extra_hashes: vec![],
                announced: true,
                describe: format!("prune every log the peer lacks something of ({} log(s)) to empty", needed.len()),
            })
        }
        5 => {
            // The announced range (.., end] becomes empty while the log itself lives on.
            let m = &world.masters[&target];
            let more: Vec<Op> = m.ops.iter().filter(|o| o.header.seq_num > seg.end).take(2).cloned().collect();
            if more.is_empty() {
                return None;
            }
            let hashes = more.iter().map(|o| o.hash).collect();
            mk(
                vec![Fault::Insert { ops: more }, Fault::Prune { author, log: target.1, until: seg.end + 1 }],
                vec![target],
                hashes,
                format!("append to author {} log {} and prune_entries(until {}) — the announced range is emptied, the log is not", target.0, target.1, seg.end + 1),
            )
        }
        _ => None,
    }
}

/// Put the touched logs of replica `r` back to what the model says.
async fn restore(store: &SqliteStore, world: &World, r: usize, pick: &FaultPick) -> Result<(), String> {
    for t in &pick.touched {
        let mut hashes: Vec<Hash> = world.stored(r, t).iter().map(|o| o.hash).collect();
        hashes.extend(pick.extra_hashes.iter().copied());
        delete_ops(store, &hashes).await?;
        insert_ops(store, &world.stored(r, t)).await?;
    }
    Ok(())
}

struct Finding {
    sig: &'static str,
    what: String,
    witness: Value,
}

#[derive(Default)]
struct PairOut {
    sessions: u64,
    /// Distinct keys of non-trivial sessions.
    nontrivial_keys: Vec<String>,
    trivial: u64,
    findings: Vec<Finding>,
    inconclusive: Vec<String>,
    fault_points: u64,
    stalls: u64,
    spins: u64,
    one_range_emptied: u64,
    errors: u64,
    topic_sessions: u64,
    sample: Option<Value>,
    double_done_precondition: u64,
}

/// Short witness for a repetition of a shape already witnessed in full for this pair.
fn brief(w: &Value) -> Value {
    json!({
        "seed": w["seed"], "pair": w["pair"], "fault": w["fault"], "offending_side": w["offending_side"], "failing_side": w["failing_side"],
        "sent_by_A": w["sent_by_A"], "sent_by_B": w["sent_by_B"],
        "note": "same shape as an earlier, fully recorded witness of this pair (replay with the same seed)",
    })
}

fn call_str(c: &CallRec) -> String {
    format!("{}(author {}, logs {:?}, after {:?}, until {:?})", c.kind, c.author, c.logs, c.after, c.until)
}

fn pair(ctx: &WorkerCtx, seed: u64, n: u64, topic_stage: bool) -> PairOut {
    let mut rng = Rng::fork(seed, n);
    let gen_cfg = GenCfg { max_authors: 3, max_logs: 2, max_len: 6, p_absent: 0.3, p_not_in_arg: 0.05, p_empty_side: 0.05, ..GenCfg::default() };
    let world = gen_world(&mut rng, &gen_cfg);
    let mut out = PairOut::default();
    let stores = ctx.rt.block_on(async {
        let a = build_store(&world, 0).await?;
        let b = build_store(&world, 1).await?;
        // Topic association for the TopicLogSync stage.
        for s in [&a, &b] {
            let permit = s.begin().await.map_err(|e| e.to_string())?;
            for k in &world.arg {
                <SqliteStore as TopicStore<[u8; 32], VerifyingKey, L>>::associate(s, &TOPIC, &world.author(k), &k.1)
                    .await
                    .map_err(|e| e.to_string())?;
            }
            s.commit(permit).await.map_err(|e| e.to_string())?;
        }
        Ok::<_, String>((a, b))
    });
    let (store_a, store_b) = match stores {
        Ok(s) => s,
        Err(e) => {
            out.inconclusive.push(format!("could not prepare stores: {e}"));
            return out;
        }
    };
    let raw = [store_a.clone(), store_b.clone()];
    let logs = world.logs_arg();
    let base_witness = json!({"seed": seed, "pair": n, "world": world.shape()});

    // One run of the pair with optional faults armed.
    let mut run_once = |rng: &mut Rng, arm: [Option<(u64, Vec<Fault>)>; 2]| {
        let total = Arc::new(StoreActivity::default());
        let fa = FStore::new(raw[0].clone(), total.clone());
        let fb = FStore::new(raw[1].clone(), total.clone());
        let [arm_a, arm_b] = arm;
        *fa.ctl.armed.lock().unwrap() = arm_a;
        *fb.ctl.armed.lock().unwrap() = arm_b;
        let ctl = [fa.ctl.clone(), fb.ctl.clone()];
        let r = run_pair(
            fa,
            fb,
            [logs.clone(), logs.clone()],
            full,
            rng,
            PairCfg {
                transport: Transport::Futures(512),
                dedup_capacity: 1024,
                event_capacity: 256,
                drive: DriveCfg::external(),
                slot: &ctx.slot,
                tags: [ctl[0].calls.clone(), ctl[1].calls.clone()],
                extra_progress: total,
            },
        );
        (r, ctl)
    };

    // ---- dry run ---------------------------------------------------------------------------
    *ctx.slot.what.lock().unwrap() = base_witness.clone();
    let (dry, ctl) = run_once(&mut rng, [None, None]);
    out.sessions += 1;
    out.trivial += 1;
    let k_max = [ctl[0].calls.load(SeqCst), ctl[1].calls.load(SeqCst)];
    if !matches!(dry.end, End::Completed) || dry.result.iter().any(|r| !matches!(r, Some(Ok(_)))) {
        out.inconclusive.push(format!("fault-free dry run of pair {n} did not complete cleanly; pair skipped"));
        return out;
    }
    let kinds_of = |sent: &Vec<(u64, u64, LogSyncMessage<L>)>| -> Vec<&'static str> { sent.iter().map(|(_, _, m)| kind(m)).collect() };
    for side in 0..2 {
        if let Some((sig, what)) = grammar(&kinds_of(&dry.sent[side]), Some("returned Ok")) {
            out.findings.push(Finding { sig, what: format!("without any fault: {what}"), witness: base_witness.clone() });
        }
    }
    // Logs each side announced in its Have, and logs it actually sent operations of.
    let mut announced: [Vec<LogKey>; 2] = [Vec::new(), Vec::new()];
    let mut needed: [Vec<LogKey>; 2] = [Vec::new(), Vec::new()];
    for side in 0..2 {
        for (_, _, m) in &dry.sent[side] {
            match m {
                LogSyncMessage::Have(h) => {
                    for (author, logs) in h {
                        for l in logs.keys() {
                            if let Some(k) = world.key_of(author, *l) {
                                announced[side].push(k);
                            }
                        }
                    }
                }
                LogSyncMessage::Operation(h, _) => {
                    if let Ok(hd) = decode_cbor::<Header<Ext>, _>(&h[..]) {
                        if let Some(k) = world.key_of(&hd.verifying_key, hd.extensions.log) {
                            if !needed[side].contains(&k) {
                                needed[side].push(k);
                            }
                        }
                    }
                }
                _ => {}
            }
        }
    }
    let dry_calls: [Vec<String>; 2] = [ctl[0].log.lock().unwrap().iter().map(call_str).collect(), ctl[1].log.lock().unwrap().iter().map(call_str).collect()];

    // ---- fault enumeration -------------------------------------------------------------------
    let mut plans: Vec<Plan> = Vec::new();
    for kind in 0..KINDS.len() {
        for k in 0..k_max[0] {
            plans.push(Plan { side: "A", k: [Some(k), None], kind });
        }
        for k in 0..k_max[1] {
            plans.push(Plan { side: "B", k: [None, Some(k)], kind });
        }
        for k in 0..k_max[0].min(k_max[1]) {
            plans.push(Plan { side: "both", k: [Some(k), Some(k)], kind });
        }
    }
    out.fault_points = k_max[0] + k_max[1];
    let mut shapes_seen: BTreeSet<String> = BTreeSet::new();
    for plan in &plans {
        let picks: [Option<FaultPick>; 2] = [0, 1].map(|r| plan.k[r].and_then(|k| pick_fault(&world, r, plan.kind, k, &needed[r], &announced[r])));
        if (0..2).any(|r| plan.k[r].is_some() && picks[r].is_none()) {
            continue; // this kind has no target on that side (e.g. nothing to append)
        }
        let arm = [0, 1].map(|r| picks[r].as_ref().map(|p| (plan.k[r].unwrap(), p.faults.clone())));
        let mut w = base_witness.clone();
        w["fault"] = json!({
            "side": plan.side, "kind": KINDS[plan.kind],
            "before_store_call_of_A": plan.k[0].map(|k| format!("#{k}: {}", dry_calls[0].get(k as usize).cloned().unwrap_or_default())),
            "before_store_call_of_B": plan.k[1].map(|k| format!("#{k}: {}", dry_calls[1].get(k as usize).cloned().unwrap_or_default())),
            "mutation_A": picks[0].as_ref().map(|p| p.describe.clone()),
            "mutation_B": picks[1].as_ref().map(|p| p.describe.clone()),
        });
        *ctx.slot.what.lock().unwrap() = w.clone();
        let (run, ctl) = run_once(&mut rng, arm);
        out.sessions += 1;
        let fired = (0..2).all(|r| plan.k[r].is_none() || ctl[r].fired.load(SeqCst));
        let fault_errors: Vec<String> = ctl.iter().flat_map(|c| c.fault_errors.lock().unwrap().clone()).collect();
        // Restore before judging, so that an early `continue` cannot leave the stores mutated.
        let restored = ctx.rt.block_on(async {
            for r in 0..2 {
                if let Some(p) = &picks[r] {
                    restore(&raw[r], &world, r, p).await?;
                }
            }
            Ok::<_, String>(())
        });
        if let Err(e) = restored {
            out.inconclusive.push(format!("could not restore stores of pair {n}: {e}; rest of the pair skipped"));
            break;
        }
        if !fault_errors.is_empty() {
            out.inconclusive.push(format!("fault injection itself failed: {fault_errors:?}"));
            continue;
        }
        let told = (0..2).any(|r| picks[r].as_ref().map(|p| p.announced).unwrap_or(false));
        let traces: [Vec<String>; 2] = [0, 1].map(|s| run.sent[s].iter().map(|(i, calls, m)| format!("#{i} {} (after {calls} store calls)", kind(m))).collect());
        w["sent_by_A"] = json!(traces[0]);
        w["sent_by_B"] = json!(traces[1]);
        w["store_calls_A"] = json!(ctl[0].log.lock().unwrap().iter().map(call_str).collect::<Vec<_>>());
        w["store_calls_B"] = json!(ctl[1].log.lock().unwrap().iter().map(call_str).collect::<Vec<_>>());
        w["results"] = json!(run.result.iter().map(|r| match r { None => "pending".into(), Some(Ok(_)) => "Ok".into(), Some(Err(e)) => format!("Err({e})") }).collect::<Vec<String>>());
        let final_state: Option<String> = match &run.end {
            End::Completed => Some("both sides returned".into()),
            End::Stalled { snap, .. } => {
                out.stalls += 1;
                w["final_state"] = snap.json();
                Some(format!("stalled for good: {}", crate::drive::stall_shape(snap, None).0))
            }
            End::Spin { snap, span_entries_without_io } => {
                out.spins += 1;
                w["final_state"] = snap.json();
                w["span_entries_without_transport_or_store_call_in_one_poll"] = json!(span_entries_without_io);
                Some(format!("a side loops without awaiting: {}", crate::drive::stall_shape(snap, None).0))
            }
            End::Watchdog { snap } => {
                out.inconclusive.push(format!("watchdog fired in a faulted session: {}", snap.json()));
                None
            }
        };
        if run.result.iter().any(|r| matches!(r, Some(Err(_)))) {
            out.errors += 1;
        }
        for r in 0..2 {
            if let Some(p) = &picks[r] {
                if fired && matches!(plan.kind, 0 | 5) && needed[r].len() >= 2 && p.touched.iter().all(|t| needed[r].contains(t)) {
                    out.one_range_emptied += 1;
                }
            }
        }
        if fired && told {
            let key = format!("{:?}|{}|{}|{:?}", world.shape_key(), plan.side, plan.kind, plan.k);
            out.nontrivial_keys.push(key);
        } else {
            out.trivial += 1;
        }
        for side in 0..2 {
            let ks = kinds_of(&run.sent[side]);
            let errored = matches!(run.result[side], Some(Err(_)));
            let settled = if errored { None } else { final_state.as_deref() };
            if let Some((sig, what)) = grammar(&ks, settled) {
                // One witness per (pair, signature, side-config, kind) is plenty.
                let shape = format!("{sig}|{}|{}|{side}", plan.side, plan.kind);
                let first = shapes_seen.insert(shape);
                let mut w2 = w.clone();
                w2["offending_side"] = json!(SIDES[side]);
                out.findings.push(Finding {
                    sig,
                    what: format!("side {} under `{}` on {}: {what}", ["A", "B"][side], KINDS[plan.kind], plan.side),
                    witness: if first { w2 } else { brief(&w2) },
                });
            }
        }
        if out.sample.is_none() && fired && told && plan.kind == 0 {
            out.sample = Some(w.clone());
        }
        // How often the precondition of the expected defect was produced (recorded).
        for side in 0..2 {
            let ks = kinds_of(&run.sent[side]);
            if ks.len() >= 2 && ks[1] == "done" && !needed[side].is_empty() {
                out.double_done_precondition += 1;
            }
        }
    }

    // ---- stage 2: TopicLogSync with live mode on top -------------------------------------------
    if topic_stage {
        for side in 0..2usize {
            // +0: the fault-free run of this stage.
            let ks: Vec<Option<u64>> = std::iter::once(None).chain((0..k_max[side]).map(Some)).collect();
            for k in ks {
                let pick = k.and_then(|k| pick_fault(&world, side, 4, k, &needed[side], &announced[side]));
                if k.is_some() && pick.is_none() {
                    continue;
                }
                let mut arm: [Option<(u64, Vec<Fault>)>; 2] = [None, None];
                if let (Some(k), Some(p)) = (k, &pick) {
                    arm[side] = Some((k, p.faults.clone()));
                }
                let mut w = base_witness.clone();
                w["stage"] = json!("TopicLogSync with live mode");
                w["fault"] = json!({"side": SIDES[side], "kind": KINDS[4], "before_store_call": k, "mutation": pick.as_ref().map(|p| p.describe.clone())});
                *ctx.slot.what.lock().unwrap() = w.clone();
                let t = run_topic_pair(ctx, &raw, arm, &mut rng);
                out.topic_sessions += 1;
                if let Some(p) = &pick {
                    if let Err(e) = ctx.rt.block_on(restore(&raw[side], &world, side, p)) {
                        out.inconclusive.push(format!("could not restore stores of pair {n}: {e}"));
                        return out;
                    }
                }
                w["sent_by_A"] = json!(t.sent[0]);
                w["sent_by_B"] = json!(t.sent[1]);
                w["results"] = json!(t.results);
                match &t.end {
                    TopicEnd::Completed => {}
                    TopicEnd::Settled(state) => {
                        // Final state without completion: a side that did not fail must have sent
                        // its `sync:done`.
                        w["final_state"] = json!(state);
                        let mut judged = false;
                        for s in 0..2 {
                            if !t.sent[s].iter().any(|m| m == "sync:done") && !t.results[s].starts_with("Err") {
                                judged = true;
                                let mut w2 = w.clone();
                                w2["offending_side"] = json!(SIDES[s]);
                                out.findings.push(Finding {
                                    sig: "C20:no-done-sent",
                                    what: format!("TopicLogSync side {} never sent `sync:done` although the pair reached its final state ({state}): {:?}", SIDES[s], t.sent[s]),
                                    witness: w2,
                                });
                            }
                        }
                        if !judged {
                            out.inconclusive.push(format!("TopicLogSync pair did not finish: {state}"));
                        }
                        continue;
                    }
                    TopicEnd::Other(s) => {
                        out.inconclusive.push(format!("TopicLogSync pair did not finish: {s}"));
                        continue;
                    }
                }
                if k.is_some() {
                    out.nontrivial_keys.push(format!("{:?}|topic|{side}|{k:?}", world.shape_key()));
                } else {
                    out.trivial += 1;
                }
                for s in 0..2 {
                    let v = &t.sent[s];
                    if let Some(d) = v.iter().position(|m| m == "sync:done") {
                        if let Some(off) = v[d + 1..].iter().position(|m| m.starts_with("sync:")) {
                            let first = shapes_seen.insert(format!("topic-grammar|{side}|{s}"));
                            let mut w2 = w.clone();
                            w2["offending_side"] = json!(SIDES[s]);
                            out.findings.push(Finding {
                                sig: "C20:sync-message-after-done-in-topic-session",
                                what: format!("side {} sends `{}` after its `sync:done` (message #{} of {:?})", ["A", "B"][s], v[d + 1 + off], d + 1 + off, v),
                                witness: if first { w2 } else { brief(&w2) },
                            });
                        }
                    }
                    if t.unexpected[s] {
                        let first = shapes_seen.insert(format!("topic-live|{side}|{s}"));
                        let mut w2 = w.clone();
                        w2["failing_side"] = json!(SIDES[s]);
                        out.findings.push(Finding {
                            sig: "C20:live-phase-fails-on-stray-sync-message",
                            what: format!("live phase of side {} fails with `{}` because the peer's sync phase left a message behind", ["A", "B"][s], t.results[s]),
                            witness: if first { w2 } else { brief(&w2) },
                        });
                    }
                }
            }
        }
    }
    ctx.rt.block_on(async {
        raw[0].pool().close().await;
        raw[1].pool().close().await;
    });
    out
}

enum TopicEnd {
    Completed,
    /// Final state reached without both sides returning (stalled for good / a side spins).
    Settled(String),
    Other(String),
}

struct TopicRun {
    sent: [Vec<String>; 2],
    results: [String; 2],
    unexpected: [bool; 2],
    end: TopicEnd,
}

type TMsg = TopicLogSyncMessage<L, Ext>;

fn tkind(m: &TMsg) -> String {
    match m {
        TopicLogSyncMessage::Sync(m) => format!("sync:{}", kind(m)),
        TopicLogSyncMessage::Live(..) => "live".into(),
        TopicLogSyncMessage::Close => "close".into(),
    }
}

/// Real `TopicLogSync` on both sides, live mode enabled; side A is told to close right away, so a
/// clean pair ends with A: Close sent, B: Close received, both `Ok`.
fn run_topic_pair(ctx: &WorkerCtx, raw: &[SqliteStore; 2], arm: [Option<(u64, Vec<Fault>)>; 2], rng: &mut Rng) -> TopicRun {
    let total = Arc::new(StoreActivity::default());
    let fa = FStore::new(raw[0].clone(), total.clone());
    let fb = FStore::new(raw[1].clone(), total.clone());
    let [arm_a, arm_b] = arm;
    *fa.ctl.armed.lock().unwrap() = arm_a;
    *fb.ctl.armed.lock().unwrap() = arm_b;
    let tags = [fa.ctl.calls.clone(), fb.ctl.calls.clone()];
    let ends = wire_up::<TMsg, String>(Transport::Futures(512), tkind, tags);
    let (ev_a, _keep_a) = broadcast::channel::<TopicLogSyncEvent<Ext>>(1024);
    let (ev_b, _keep_b) = broadcast::channel::<TopicLogSyncEvent<Ext>>(1024);
    let (mut live_tx_a, live_rx_a) = fmpsc::channel::<ToSync<Op>>(16);
    let (_live_tx_b, live_rx_b) = fmpsc::channel::<ToSync<Op>>(16);
    let _ = live_tx_a.try_send(ToSync::Close);
    let sa: TopicLogSync<[u8; 32], FStore<SqliteStore>, L, Ext> = TopicLogSync::new(TOPIC, fa, Some(live_rx_a), ev_a);
    let sb: TopicLogSync<[u8; 32], FStore<SqliteStore>, L, Ext> = TopicLogSync::new(TOPIC, fb, Some(live_rx_b), ev_b);
    let (mut sink_a, mut stream_a) = ends.a;
    let (mut sink_b, mut stream_b) = ends.b;
    let wire = ends.wire.clone();
    let mut f_a = Box::pin(async { sa.run(&mut sink_a, &mut stream_a).await });
    let mut f_b = Box::pin(async { sb.run(&mut sink_b, &mut stream_b).await });
    let out = drive(f_a.as_mut(), f_b.as_mut(), &wire, &total, rng, &DriveCfg::external(), &ctx.slot);
    let res = |r: &Option<Result<(), TopicLogSyncError>>| match r {
        None => "still pending".to_string(),
        Some(Ok(())) => "Ok".to_string(),
        Some(Err(e)) => format!("Err({e})"),
    };
    let unexpected = |r: &Option<Result<(), TopicLogSyncError>>| matches!(r, Some(Err(TopicLogSyncError::UnexpectedProtocolMessage(_))));
    let sent = [0, 1].map(|s| ends.transcripts[s].lock().unwrap().iter().map(|(_, _, m)| m.clone()).collect::<Vec<String>>());
    TopicRun {
        sent,
        results: [res(&out.a), res(&out.b)],
        unexpected: [unexpected(&out.a), unexpected(&out.b)],
        end: match out.end {
            End::Completed => TopicEnd::Completed,
            End::Stalled { snap, .. } => TopicEnd::Settled(format!("stalled for good: {}", snap.json())),
            End::Spin { snap, .. } => TopicEnd::Settled(format!("a side loops without awaiting: {}", snap.json())),
            End::Watchdog { snap } => TopicEnd::Other(format!("watchdog: {}", snap.json())),
        },
    }
}

pub fn run(args: &Args) {
    let mut rep = Report::new(
        args,
        "seeded replica pairs (2-3 authors x 1-2 logs of 1-6 operations, pruned prefixes, absent logs); per pair a fault-free dry run, \
         then one session pair per (side in {A,B,both}) x (every store-call index k the dry run reached) x (fault kind in {prune whole log, \
         prune prefix, delete one operation, append operations, prune every announced log the peer lacks, append-then-prune so that the \
         announced range is empty but the log is not}); stage 2: TopicLogSync + live \
         mode with the last fault kind at every k. Non-trivial = the fault fired and changed a log the side had announced in its Have; \
         distinct = (pair shape, side, kind, k)",
        if args.tier == Tier::Quick { 2_000 } else { 20_000 },
    );
    let n = args.n(250, 6_000);
    let seed = args.seed;
    let work: Arc<dyn Fn(&WorkerCtx, u64) -> PairOut + Send + Sync> = Arc::new(move |ctx, i| pair(ctx, seed, i, true));
    let budget = std::time::Duration::from_secs(if args.tier == Tier::Quick { 80 } else { 28 * 60 });
    let started = std::time::Instant::now();
    let mut t = BTreeMap::<&'static str, u64>::new();
    let end = {
        let (rep, t) = (&mut rep, &mut t);
        run_cases(n, default_workers(), work, move |_, p: PairOut| {
            for key in &p.nontrivial_keys {
                rep.case(Some(key));
            }
            for _ in 0..p.trivial {
                rep.case(None::<()>);
            }
            for w in p.inconclusive {
                rep.inconclusive(w);
            }
            for f in p.findings {
                rep.violation(f.sig, f.what, f.witness);
            }
            if let Some(s) = p.sample {
                rep.sample(s);
            }
            *t.entry("pairs").or_default() += 1;
            *t.entry("log_sync_sessions").or_default() += p.sessions;
            *t.entry("topic_log_sync_sessions").or_default() += p.topic_sessions;
            *t.entry("fault_points (store calls reached in dry runs)").or_default() += p.fault_points;
            *t.entry("faulted_sessions_that_stalled (judged only for a missing done)").or_default() += p.stalls;
            *t.entry("faulted_sessions_where_a_side_spun_without_yield (judged only for a missing done)").or_default() += p.spins;
            *t.entry("faulted_sessions_with_one_needed_range_emptied_while_another_kept_operations").or_default() += p.one_range_emptied;
            *t.entry("faulted_sessions_with_an_error_result (recorded, not judged)").or_default() += p.errors;
            *t.entry("sessions_where_a_side_sent_done_in_place_of_pre_sync_although_the_peer_lacked_operations").or_default() += p.double_done_precondition;
            started.elapsed() < budget
        })
    };
    if let Some(spin) = &end.spin {
        rep.inconclusive(format!("a session future spun without yielding ({:.1}s CPU in one poll); run cut short: {}", spin.cpu_s, spin.what));
    }
    for (case, what) in &end.panics {
        rep.inconclusive(format!("pair {case} panicked: {what}"));
    }
    if end.completed < n && end.spin.is_none() {
        rep.extra("stopped_by_time_budget_after_pairs", json!(end.completed));
    }
    for (k, v) in t {
        rep.extra(k, json!(v));
    }
    rep.extra("fault_kinds", json!(KINDS));
    rep.finish(args);
}
