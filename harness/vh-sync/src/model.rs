//! World generator shared by C19/C20/C21: honest authors, their master logs, and two replicas that
//! each hold some contiguous, possibly prefix-pruned segment of every log.
//!
//! Everything is derived from a `vh_common::Rng`, nothing from OS randomness. The *model* (what
//! was put into each store) is the source of the oracles; the store is only read back to check
//! that the model and the store agree before a session starts.

use std::collections::BTreeMap;

use p2panda_core::{Body, Hash, Header, Operation, SeqNum, SigningKey, VerifyingKey};
use p2panda_store::logs::LogStore;
use p2panda_store::operations::OperationStore;
use p2panda_store::{SqliteStore, Transaction};
use serde::{Deserialize, Serialize};
use vh_common::{Rng, Value, hex, json};

/// Header extension of the harness operations: the log the operation belongs to and the prune flag
/// (an operation carrying it may be accepted without its predecessors, see `ingest_operation`).
#[derive(Clone, Debug, PartialEq, Eq, Serialize, Deserialize)]
pub struct Ext {
    pub log: u64,
    pub prune: bool,
}

pub type L = u64;
pub type Op = Operation<Ext>;
pub type Logs = p2panda_sync::protocols::Logs<L>;

/// One author's complete log as the author produced it.
#[derive(Clone, Debug)]
pub struct MasterLog {
    pub author: VerifyingKey,
    pub log: L,
    pub ops: Vec<Op>,
}

/// What one replica holds of one log: the contiguous segment `start..=end` of the master log, with
/// the payload of some operations deleted.
#[derive(Clone, Debug, PartialEq, Eq, Hash, Serialize)]
pub struct Seg {
    pub start: SeqNum,
    pub end: SeqNum,
    pub no_payload: Vec<SeqNum>,
}

pub type LogKey = (usize, L); // (author index, log id)

#[derive(Clone, Debug)]
pub struct World {
    pub keys: Vec<SigningKey>,
    pub masters: BTreeMap<LogKey, MasterLog>,
    /// Contents of the two replicas.
    pub held: [BTreeMap<LogKey, Seg>; 2],
    /// The `logs` argument both sessions are started with (the shared logs).
    pub arg: Vec<LogKey>,
}

pub fn make_op(key: &SigningKey, log: L, seq: SeqNum, backlink: Option<Hash>, body: Option<&[u8]>, prune: bool) -> Op {
    let body = body.map(Body::new);
    let mut header = Header::<Ext> {
        version: 1,
        verifying_key: key.verifying_key(),
        signature: None,
        payload_size: body.as_ref().map(|b| b.size()).unwrap_or(0),
        payload_hash: body.as_ref().map(|b| b.hash()),
        seq_num: seq,
        backlink,
        extensions: Ext { log, prune },
    };
    header.sign(key);
    Operation { hash: header.hash(), header, body }
}

/// Build a master log of `n` operations. `body_len(seq)` gives the body size (None = body-less),
/// `prune(seq)` the prune flag.
pub fn make_log(
    key: &SigningKey,
    log: L,
    n: usize,
    rng: &mut Rng,
    mut body_len: impl FnMut(&mut Rng, SeqNum) -> Option<usize>,
    mut prune: impl FnMut(&mut Rng, SeqNum) -> bool,
) -> MasterLog {
    let mut ops = Vec::with_capacity(n);
    let mut backlink = None;
    for seq in 0..n as SeqNum {
        let body = body_len(rng, seq).map(|len| {
            let mut b = rng.bytes(len.min(64));
            b.resize(len, (seq & 0xff) as u8);
            // A zero-length body would be indistinguishable from "no body" in the header.
            if b.is_empty() {
                b.push(1);
            }
            b
        });
        let flag = seq > 0 && prune(rng, seq);
        let op = make_op(key, log, seq, backlink, body.as_deref(), flag);
        backlink = Some(op.hash);
        ops.push(op);
    }
    MasterLog { author: key.verifying_key(), log, ops }
}

impl World {
    pub fn author(&self, k: &LogKey) -> VerifyingKey {
        self.keys[k.0].verifying_key()
    }

    /// The operations replica `r` holds of log `k`, as stored (payload removed where deleted).
    pub fn stored(&self, r: usize, k: &LogKey) -> Vec<Op> {
        let Some(seg) = self.held[r].get(k) else {
            return Vec::new();
        };
        let m = &self.masters[k];
        (seg.start..=seg.end)
            .map(|s| {
                let mut op = m.ops[s as usize].clone();
                if seg.no_payload.contains(&s) {
                    op.body = None;
                }
                op
            })
            .collect()
    }

    pub fn height(&self, r: usize, k: &LogKey) -> Option<SeqNum> {
        self.held[r].get(k).map(|s| s.end)
    }

    /// `logs` argument of a session.
    pub fn logs_arg(&self) -> Logs {
        let mut out: Logs = BTreeMap::new();
        for k in &self.arg {
            out.entry(self.author(k)).or_default().push(k.1);
        }
        out
    }

    /// What replica `to` must receive from replica `1 - to` according to the statement of C19:
    /// the other side's stored operations of the shared logs with a sequence number above its own
    /// height (all of them when it does not hold the log), per log in ascending order.
    pub fn expected_to(&self, to: usize) -> BTreeMap<LogKey, Vec<Op>> {
        let from = 1 - to;
        let mut out = BTreeMap::new();
        for k in &self.arg {
            let theirs = self.stored(from, k);
            let ops: Vec<Op> = match self.height(to, k) {
                None => theirs,
                Some(h) => theirs.into_iter().filter(|o| o.header.seq_num > h).collect(),
            };
            if !ops.is_empty() {
                out.insert(*k, ops);
            }
        }
        out
    }

    pub fn key_of(&self, author: &VerifyingKey, log: L) -> Option<LogKey> {
        self.keys
            .iter()
            .position(|k| &k.verifying_key() == author)
            .map(|i| (i, log))
    }

    /// Shape of the world without key material (for distinctness and witnesses).
    pub fn shape(&self) -> Value {
        let logs: Vec<Value> = self
            .masters
            .iter()
            .map(|(k, m)| {
                json!({
                    "author": k.0, "log": k.1, "len": m.ops.len(),
                    "in_arg": self.arg.contains(k),
                    "prune_flags": m.ops.iter().filter(|o| o.header.extensions.prune).map(|o| o.header.seq_num).collect::<Vec<_>>(),
                    "bodyless": m.ops.iter().filter(|o| o.header.payload_size == 0).map(|o| o.header.seq_num).collect::<Vec<_>>(),
                    "A": self.held[0].get(k), "B": self.held[1].get(k),
                })
            })
            .collect();
        json!({
            "authors": self.keys.iter().map(|k| hex(k.verifying_key().as_bytes())[..10].to_string()).collect::<Vec<_>>(),
            "logs": logs,
        })
    }

    pub fn shape_key(&self) -> Vec<(LogKey, usize, bool, Option<Seg>, Option<Seg>)> {
        self.masters
            .iter()
            .map(|(k, m)| {
                (*k, m.ops.len(), self.arg.contains(k), self.held[0].get(k).cloned(), self.held[1].get(k).cloned())
            })
            .collect()
    }
}

/// Parameters of the random replica-pair generator.
#[derive(Clone, Copy, Debug)]
pub struct GenCfg {
    pub max_authors: usize,
    pub max_logs: usize,
    pub max_len: usize,
    pub p_prune_flag: f64,
    pub p_absent: f64,
    pub p_pruned_start: f64,
    pub p_no_payload: f64,
    pub p_not_in_arg: f64,
    pub p_empty_side: f64,
}

impl Default for GenCfg {
    fn default() -> Self {
        GenCfg {
            max_authors: 4,
            max_logs: 3,
            max_len: 10,
            p_prune_flag: 0.25,
            p_absent: 0.15,
            p_pruned_start: 0.45,
            p_no_payload: 0.08,
            p_not_in_arg: 0.12,
            p_empty_side: 0.04,
        }
    }
}

pub fn gen_world(rng: &mut Rng, cfg: &GenCfg) -> World {
    let n_authors = 2 + rng.usize_below(cfg.max_authors - 1);
    let keys: Vec<SigningKey> = (0..n_authors).map(|_| SigningKey::from_bytes(&rng.array32())).collect();
    let mut masters = BTreeMap::new();
    let mut arg = Vec::new();
    for (ai, key) in keys.iter().enumerate() {
        let n_logs = 1 + rng.usize_below(cfg.max_logs);
        for li in 0..n_logs {
            // Log ids overlap across authors on purpose (same id, different author = different log).
            let log = li as u64 + if rng.chance(0.2) { 100 } else { 0 };
            if masters.contains_key(&(ai, log)) {
                continue;
            }
            let len = 1 + rng.usize_below(cfg.max_len);
            let m = make_log(
                key,
                log,
                len,
                rng,
                |r, _| match r.below(10) {
                    0 | 1 => None,
                    2 => Some(300 + r.usize_below(700)),
                    _ => Some(1 + r.usize_below(40)),
                },
                |r, _| r.chance(cfg.p_prune_flag),
            );
            masters.insert((ai, log), m);
            if !rng.chance(cfg.p_not_in_arg) {
                arg.push((ai, log));
            }
        }
    }
    // An author listed in the argument whose log nobody holds (known to neither side).
    if rng.chance(0.15) {
        let ai = rng.usize_below(n_authors);
        let log = 900 + rng.below(3);
        if !masters.contains_key(&(ai, log)) {
            let m = make_log(&keys[ai], log, 1, rng, |_, _| Some(3), |_, _| false);
            masters.insert((ai, log), m);
            arg.push((ai, log));
        }
    }
    let mut held: [BTreeMap<LogKey, Seg>; 2] = [BTreeMap::new(), BTreeMap::new()];
    for r in 0..2 {
        if rng.chance(cfg.p_empty_side) {
            continue;
        }
        for (k, m) in &masters {
            if k.1 >= 900 || rng.chance(cfg.p_absent) {
                continue;
            }
            let n = m.ops.len() as SeqNum;
            let end = if rng.chance(0.3) { n - 1 } else { rng.below(n as u64) as SeqNum };
            let flagged: Vec<SeqNum> = m
                .ops
                .iter()
                .filter(|o| o.header.extensions.prune && o.header.seq_num <= end)
                .map(|o| o.header.seq_num)
                .collect();
            let start = if !flagged.is_empty() && rng.chance(cfg.p_pruned_start) {
                *rng.pick(&flagged)
            } else {
                0
            };
            let no_payload: Vec<SeqNum> = (start..=end)
                .filter(|s| m.ops[*s as usize].header.payload_size > 0 && rng.chance(cfg.p_no_payload))
                .collect();
            held[r].insert(*k, Seg { start, end, no_payload });
        }
    }
    World { keys, masters, held, arg }
}

// ---------------------------------------------------------------------------------------------
// Real SQLite stores
// ---------------------------------------------------------------------------------------------

pub async fn insert_ops(store: &SqliteStore, ops: &[Op]) -> Result<(), String> {
    if ops.is_empty() {
        return Ok(());
    }
    let permit = store.begin().await.map_err(|e| e.to_string())?;
    for op in ops {
        store
            .insert_operation(&op.hash, op, &op.header.extensions.log)
            .await
            .map_err(|e| e.to_string())?;
    }
    store.commit(permit).await.map_err(|e| e.to_string())?;
    for op in ops {
        if op.body.is_none() && op.header.payload_size > 0 {
            <SqliteStore as OperationStore<Op, Hash>>::delete_operation_payload(store, &op.hash)
                .await
                .map_err(|e| e.to_string())?;
        }
    }
    Ok(())
}

pub async fn delete_ops(store: &SqliteStore, hashes: &[Hash]) -> Result<(), String> {
    if hashes.is_empty() {
        return Ok(());
    }
    let permit = store.begin().await.map_err(|e| e.to_string())?;
    for h in hashes {
        <SqliteStore as OperationStore<Op, Hash>>::delete_operation(store, h)
            .await
            .map_err(|e| e.to_string())?;
    }
    store.commit(permit).await.map_err(|e| e.to_string())?;
    Ok(())
}

/// A fresh in-memory SQLite store holding replica `r` of the world.
pub async fn build_store(world: &World, r: usize) -> Result<SqliteStore, String> {
    let store = SqliteStore::temporary().await;
    let mut all = Vec::new();
    for k in world.held[r].keys() {
        all.extend(world.stored(r, k));
    }
    insert_ops(&store, &all).await?;
    Ok(store)
}

/// Read one log back through the real `LogStore` API: `(seq, hash, has_body)` ascending.
pub async fn dump_log(store: &SqliteStore, author: &VerifyingKey, log: L) -> Result<Vec<(SeqNum, Hash, bool)>, String> {
    let entries = <SqliteStore as LogStore<Op, VerifyingKey, L, SeqNum, Hash>>::get_log_entries(store, author, &log, None, None)
        .await
        .map_err(|e| e.to_string())?;
    Ok(entries
        .unwrap_or_default()
        .into_iter()
        .map(|(op, _)| (op.header.seq_num, op.hash, op.body.is_some()))
        .collect())
}

/// Does the store hold exactly what the model says replica `r` holds?
pub async fn store_matches_model(world: &World, r: usize, store: &SqliteStore) -> Result<bool, String> {
    for k in world.masters.keys() {
        let want: Vec<(SeqNum, Hash, bool)> = world
            .stored(r, k)
            .iter()
            .map(|o| (o.header.seq_num, o.hash, o.body.is_some()))
            .collect();
        let got = dump_log(store, &world.author(k), k.1).await?;
        if want != got {
            return Ok(false);
        }
    }
    Ok(true)
}

pub async fn height_of(store: &SqliteStore, author: &VerifyingKey, log: L) -> Result<Option<SeqNum>, String> {
    let latest = <SqliteStore as LogStore<Op, VerifyingKey, L, SeqNum, Hash>>::get_latest_entry(store, author, &log)
        .await
        .map_err(|e| e.to_string())?;
    Ok(latest.map(|o| o.header.seq_num))
}

pub fn short(h: &Hash) -> String {
    h.to_hex()[..8].to_string()
}
