//! C19 — a completed log-sync session delivers exactly the missing operations.
//!
//! Two real `LogSync` sessions over two real in-memory SQLite stores, joined by monitored
//! 4096-slot channels (large enough that transport back-pressure — C21's subject — never occurs).
//! Oracle from the *model* of what each replica holds (cross-checked against a store read-back
//! before the session): side X must receive exactly the other side's stored operations of the
//! shared logs with seq > X's height, each once, per log ascending; both the `Operation` messages
//! the peer put on its sink and the `OperationReceived` events X emitted are compared, including
//! the body. Afterwards every received operation goes through the real `ingest_operation` (plus
//! `prune_entries` for prune-flagged ones) and both stores must report equal heights for every
//! shared log. Recorded but not judged: `PreSync` totals, session metrics.

use std::collections::BTreeMap;
use std::sync::Arc;
use std::sync::atomic::AtomicU64;

use p2panda_core::cbor::decode_cbor;
use p2panda_core::{Hash, Header, SeqNum, VerifyingKey};
use p2panda_store::SqliteStore;
use p2panda_store::logs::LogStore;
use p2panda_stream::ingest::ingest_operation;
use p2panda_sync::protocols::{LogSyncEvent, LogSyncMessage};
use vh_common::{Args, Report, Rng, Value, json};

use crate::chan::Transport;
use crate::drive::{DriveCfg, End, StoreActivity};
use crate::fstore::FStore;
use crate::model::{Ext, GenCfg, L, LogKey, Op, World, build_store, gen_world, height_of, short, store_matches_model};
use crate::pool::{WorkerCtx, default_workers, run_cases};
use crate::session::{Msg, PairCfg, full, kind, run_pair};

struct CaseOut {
    nontrivial: bool,
    shape_key: String,
    violations: Vec<(&'static str, String)>,
    inconclusive: Option<String>,
    witness: Value,
    /// (ops sent A→B, ops sent B→A, pruned logs in arg, presync mismatches, ingest rejections)
    stats: [u64; 5],
    session_error: Option<String>,
}

type Received = BTreeMap<LogKey, Vec<(SeqNum, Hash, Option<Vec<u8>>)>>;

/// Compare what was delivered with what the statement demands.
fn compare(world: &World, to: usize, what: &str, got_flat: &[(VerifyingKey, L, SeqNum, Hash, Option<Vec<u8>>)], out: &mut Vec<(&'static str, String)>) {
    let side = ["A", "B"][to];
    let expected = world.expected_to(to);
    let mut got: Received = BTreeMap::new();
    for (author, log, seq, hash, body) in got_flat {
        match world.key_of(author, *log) {
            Some(k) => got.entry(k).or_default().push((*seq, *hash, body.clone())),
            None => out.push(("C19:unexpected-operation", format!("{what} for {side}: operation of an unknown author/log {log}"))),
        }
    }
    for (k, ops) in &got {
        let exp = expected.get(k);
        let exp_hashes: Vec<Hash> = exp.map(|v| v.iter().map(|o| o.hash).collect()).unwrap_or_default();
        let mut seen: Vec<Hash> = Vec::new();
        for (seq, hash, body) in ops {
            if seen.contains(hash) {
                out.push(("C19:duplicate-operation", format!("{what} for {side}: author {} log {} seq {seq} ({}) delivered more than once", k.0, k.1, short(hash))));
                continue;
            }
            seen.push(*hash);
            if !exp_hashes.contains(hash) {
                let why = if !world.arg.contains(k) {
                    "log is not among the shared logs"
                } else if world.height(to, k).map(|h| *seq <= h).unwrap_or(false) {
                    "seq is not above the receiver's height"
                } else {
                    "not stored by the sender"
                };
                out.push(("C19:unexpected-operation", format!("{what} for {side}: author {} log {} seq {seq} ({}) — {why}", k.0, k.1, short(hash))));
            } else {
                let want = exp.unwrap().iter().find(|o| o.hash == *hash).unwrap();
                let want_body = want.body.as_ref().map(|b| b.to_bytes());
                if &want_body != body {
                    out.push(("C19:body-mismatch", format!("{what} for {side}: author {} log {} seq {seq}: body differs from the stored one", k.0, k.1)));
                }
            }
        }
        let seqs: Vec<SeqNum> = ops.iter().map(|o| o.0).collect();
        if seqs.windows(2).any(|w| w[0] >= w[1]) {
            out.push(("C19:log-order", format!("{what} for {side}: author {} log {} arrived in order {seqs:?}", k.0, k.1)));
        }
    }
    for (k, ops) in &expected {
        let have: Vec<Hash> = got.get(k).map(|v| v.iter().map(|o| o.1).collect()).unwrap_or_default();
        let missing: Vec<SeqNum> = ops.iter().filter(|o| !have.contains(&o.hash)).map(|o| o.header.seq_num).collect();
        if !missing.is_empty() {
            out.push(("C19:missing-operation", format!("{what} for {side}: author {} log {} seqs {missing:?} stored by the peer above {side}'s height {:?} were not delivered", k.0, k.1, world.height(to, k))));
        }
    }
}

fn case(ctx: &WorkerCtx, seed: u64, n: u64) -> CaseOut {
    let mut rng = Rng::fork(seed, n);
    let world = gen_world(&mut rng, &GenCfg::default());
    let mut out = CaseOut {
        nontrivial: false,
        shape_key: format!("{:?}", world.shape_key()),
        violations: Vec::new(),
        inconclusive: None,
        witness: json!({"seed": seed, "case": n, "world": world.shape()}),
        stats: [0; 5],
        session_error: None,
    };
    let stores: Result<(SqliteStore, SqliteStore), String> = ctx.rt.block_on(async {
        let a = build_store(&world, 0).await?;
        let b = build_store(&world, 1).await?;
        if !store_matches_model(&world, 0, &a).await? || !store_matches_model(&world, 1, &b).await? {
            return Err("store read-back differs from what was inserted (store layer, not judged here)".into());
        }
        Ok((a, b))
    });
    let (store_a, store_b) = match stores {
        Ok(s) => s,
        Err(e) => {
            out.inconclusive = Some(e);
            return out;
        }
    };

    let exp = [world.expected_to(0), world.expected_to(1)];
    let n_exp = [exp[0].values().map(|v| v.len()).sum::<usize>(), exp[1].values().map(|v| v.len()).sum::<usize>()];
    let pruned = world.arg.iter().filter(|k| (0..2).any(|r| world.held[r].get(*k).map(|s| s.start > 0).unwrap_or(false))).count();
    out.nontrivial = n_exp[0] > 0 && n_exp[1] > 0 && pruned > 0;
    out.stats[0] = n_exp[1] as u64;
    out.stats[1] = n_exp[0] as u64;
    out.stats[2] = pruned as u64;

    *ctx.slot.what.lock().unwrap() = out.witness.clone();
    let logs = world.logs_arg();
    let activity = Arc::new(StoreActivity::default());
    let run = run_pair(
        FStore::new(store_a.clone(), activity.clone()),
        FStore::new(store_b.clone(), activity.clone()),
        [logs.clone(), logs],
        full,
        &mut rng,
        PairCfg {
            transport: Transport::Futures(4096),
            dedup_capacity: 1024,
            event_capacity: 1024,
            drive: DriveCfg::external(),
            slot: &ctx.slot,
            tags: [Arc::new(AtomicU64::new(0)), Arc::new(AtomicU64::new(0))],
            extra_progress: activity,
        },
    );

    let trace = |side: usize| -> Vec<String> {
        run.sent[side]
            .iter()
            .map(|(i, _, m)| match m {
                LogSyncMessage::Operation(h, b) => match decode_cbor::<Header<Ext>, _>(&h[..]) {
                    Ok(hd) => format!("#{i} operation log={} seq={} body={:?}", hd.extensions.log, hd.seq_num, b.as_ref().map(|b| b.len())),
                    Err(_) => format!("#{i} operation <undecodable header>"),
                },
                LogSyncMessage::Have(h) => format!("#{i} have {:?}", h.values().collect::<Vec<_>>()),
                LogSyncMessage::PreSync { total_operations, total_bytes } => format!("#{i} pre_sync ops={total_operations} bytes={total_bytes}"),
                LogSyncMessage::Done => format!("#{i} done"),
            })
            .collect()
    };
    out.witness["sent_by_A"] = json!(trace(0));
    out.witness["sent_by_B"] = json!(trace(1));

    match &run.end {
        End::Completed => {}
        End::Stalled { snap, .. } => {
            out.inconclusive = Some(format!("session pair stalled (not a completed session; liveness is C21's subject): {}", snap.json()));
            return out;
        }
        End::Spin { snap, .. } => {
            out.inconclusive = Some(format!("a session looped without awaiting (not a completed session; liveness is C21's subject): {}", snap.json()));
            return out;
        }
        End::Watchdog { snap } => {
            out.inconclusive = Some(format!("watchdog fired: {}", snap.json()));
            return out;
        }
    }
    for (i, r) in run.result.iter().enumerate() {
        if let Some(Err(e)) = r {
            out.session_error = Some(format!("side {} returned {e}", ["A", "B"][i]));
            return out;
        }
    }
    if run.events_lagged {
        out.inconclusive = Some("event receiver lagged".into());
        return out;
    }

    // What each side was sent (the peer's sink) and what it emitted as events.
    for to in 0..2 {
        let from = 1 - to;
        let mut on_wire = Vec::new();
        let mut presync: Option<(u32, u32)> = None;
        let mut sent_bytes = 0u32;
        for (_, _, m) in &run.sent[from] {
            match m {
                LogSyncMessage::Operation(h, b) => match decode_cbor::<Header<Ext>, _>(&h[..]) {
                    Ok(hd) => {
                        sent_bytes += (h.len() + b.as_ref().map(|b| b.len()).unwrap_or(0)) as u32;
                        on_wire.push((hd.verifying_key, hd.extensions.log, hd.seq_num, hd.hash(), b.clone()));
                    }
                    Err(e) => out.violations.push(("C19:unexpected-operation", format!("undecodable header on the wire: {e}"))),
                },
                LogSyncMessage::PreSync { total_operations, total_bytes } => presync = Some((*total_operations, *total_bytes)),
                _ => {}
            }
        }
        if let Some((ops, bytes)) = presync {
            if ops as usize != on_wire.len() || bytes != sent_bytes {
                out.stats[3] += 1;
            }
        }
        compare(&world, to, "Operation messages", &on_wire, &mut out.violations);
        let evs: Vec<_> = run.events[to]
            .iter()
            .filter_map(|e| match e {
                LogSyncEvent::OperationReceived { operation, .. } => Some((
                    operation.header.verifying_key,
                    operation.header.extensions.log,
                    operation.header.seq_num,
                    operation.hash,
                    operation.body.as_ref().map(|b| b.to_bytes()),
                )),
                _ => None,
            })
            .collect();
        compare(&world, to, "OperationReceived events", &evs, &mut out.violations);
    }

    // Ingest what was received through the real ingest path, then compare heights.
    let ingest: Result<(Vec<String>, Vec<Value>), String> = ctx.rt.block_on(async {
        let mut rejected = Vec::new();
        for (to, store) in [(0usize, &store_a), (1usize, &store_b)] {
            for e in &run.events[to] {
                if let LogSyncEvent::OperationReceived { operation, .. } = e {
                    let op: &Op = operation;
                    let log = op.header.extensions.log;
                    let flag = op.header.extensions.prune;
                    match ingest_operation(store, op, &log, &[7u8; 32], flag).await {
                        Ok(_) => {
                            if flag {
                                <SqliteStore as LogStore<Op, VerifyingKey, L, SeqNum, Hash>>::prune_entries(store, &op.header.verifying_key, &log, &op.header.seq_num)
                                    .await
                                    .map_err(|e| e.to_string())?;
                            }
                        }
                        Err(err) => rejected.push(format!("{}: log {log} seq {}: {err}", ["A", "B"][to], op.header.seq_num)),
                    }
                }
            }
        }
        let mut diffs = Vec::new();
        for k in &world.arg {
            let ha = height_of(&store_a, &world.author(k), k.1).await?;
            let hb = height_of(&store_b, &world.author(k), k.1).await?;
            if ha != hb {
                diffs.push(json!({"author": k.0, "log": k.1, "height_A": ha, "height_B": hb}));
            }
        }
        store_a.pool().close().await;
        store_b.pool().close().await;
        Ok((rejected, diffs))
    });
    match ingest {
        Err(e) => out.inconclusive = Some(format!("store error while ingesting: {e}")),
        Ok((rejected, diffs)) => {
            out.stats[4] = rejected.len() as u64;
            if !rejected.is_empty() {
                out.witness["ingest_rejections"] = json!(rejected);
            }
            if !diffs.is_empty() {
                out.violations.push(("C19:heights-differ-after-ingest", format!("after ingesting the received operations the replicas disagree: {}", json!(diffs))));
            }
        }
    }
    let _ = kind;
    let _: Option<Msg> = None;
    out
}

pub fn run(args: &Args) {
    let mut rep = Report::new(
        args,
        "seeded replica pairs: 2-4 honest authors x 1-3 logs of 1-10 operations (body-less, small and ~1 KiB bodies, prune-flagged \
         operations); each replica holds a contiguous segment of each log (possibly absent, possibly starting at a prune-flagged \
         operation = pruned prefix, some payloads deleted), some stored logs are not among the shared logs, some shared logs are held \
         by nobody, a side may be empty. Non-trivial = operations are due in both directions and at least one shared log has a pruned \
         prefix on some side; distinct = shape of the pair (segments per log and side)",
        if args.tier == vh_common::Tier::Quick { 200 } else { 3_000 },
    );
    let n = args.n(1_500, 30_000);
    let seed = args.seed;
    let work: Arc<dyn Fn(&WorkerCtx, u64) -> CaseOut + Send + Sync> = Arc::new(move |ctx, i| case(ctx, seed, i));
    let budget = std::time::Duration::from_secs(if args.tier == vh_common::Tier::Quick { 75 } else { 25 * 60 });
    let mut totals = [0u64; 5];
    let mut errors = 0u64;
    let started = std::time::Instant::now();
    let end = {
        let rep = &mut rep;
        let totals = &mut totals;
        let errors = &mut errors;
        run_cases(n, default_workers(), work, move |_, c: CaseOut| {
            if let Some(w) = &c.inconclusive {
                rep.inconclusive(w.clone());
                rep.case(None::<()>);
                return started.elapsed() < budget;
            }
            if let Some(e) = &c.session_error {
                *errors += 1;
                rep.extra("last_session_error", json!(e));
            }
            rep.case(c.nontrivial.then_some(&c.shape_key));
            for (i, s) in c.stats.iter().enumerate() {
                totals[i] += s;
            }
            let mut seen = Vec::new();
            for (sig, what) in &c.violations {
                if !seen.contains(sig) {
                    seen.push(sig);
                    let mut w = c.witness.clone();
                    w["all_findings_in_case"] = json!(c.violations.iter().map(|(s, t)| format!("{s}: {t}")).collect::<Vec<_>>());
                    rep.violation(sig, what.clone(), w);
                }
            }
            if c.violations.is_empty() && c.nontrivial && rep.want_sample() {
                rep.sample(c.witness.clone());
            }
            started.elapsed() < budget
        })
    };
    if let Some(spin) = &end.spin {
        rep.violation(
            "C19:session-spins-without-yielding",
            format!("a session future consumed {:.1}s CPU inside one poll without any transport or store call", spin.cpu_s),
            json!({"seed": seed, "case": spin.what, "cpu_s": spin.cpu_s, "wall_s": spin.wall_s}),
        );
    }
    for (case, what) in &end.panics {
        rep.inconclusive(format!("case {case} panicked: {what}"));
    }
    if end.completed < n && end.spin.is_none() {
        rep.extra("stopped_by_time_budget_after_cases", json!(end.completed));
    }
    rep.extra("operations_due_A_to_B", json!(totals[0]));
    rep.extra("operations_due_B_to_A", json!(totals[1]));
    rep.extra("shared_logs_with_pruned_prefix", json!(totals[2]));
    rep.extra("presync_totals_differ_from_sent (recorded, not judged)", json!(totals[3]));
    rep.extra("ingest_rejections (recorded; judged only through heights)", json!(totals[4]));
    rep.extra("sessions_that_returned_an_error (not completed sessions; recorded)", json!(errors));
    if errors > 0 {
        rep.inconclusive(format!("{errors} session(s) between honest peers returned an error; C19 speaks about completed sessions only"));
    }
    rep.finish(args);
}
