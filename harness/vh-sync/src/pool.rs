//! Runs numbered cases on a few worker threads and hands the results to the caller in case order
//! (so that the report does not depend on thread timing). Every worker owns a `PollSlot` watched
//! by the spin monitor; if a session future spins, the run is cut short and the caller gets the
//! spin report (the spinning thread cannot be stopped; the process ends when `main` returns).

use std::collections::BTreeMap;
use std::sync::atomic::{AtomicBool, AtomicU64, Ordering::SeqCst};
use std::sync::{Arc, mpsc};
use std::time::Duration;

use crate::drive::{PollSlot, SpinMonitor, SpinReport};

pub struct WorkerCtx {
    pub slot: Arc<PollSlot>,
    pub rt: tokio::runtime::Handle,
    pub index: usize,
}

enum FromWorker<T> {
    Done(u64, T),
    Spin,
    Panicked(u64, String),
    /// The worker thread has no more cases to take.
    Exit,
}

pub fn default_workers() -> usize {
    let n = std::thread::available_parallelism().map(|n| n.get()).unwrap_or(4);
    (n / 2).clamp(2, 8)
}

pub struct PoolEnd {
    pub spin: Option<SpinReport>,
    pub panics: Vec<(u64, String)>,
    pub completed: u64,
}

/// Run `work(ctx, case)` for `case` in `0..n`; `sink(case, result)` is called in ascending order.
/// `sink` returns `false` to stop early (time budget).
pub fn run_cases<T: Send + 'static>(
    n: u64,
    workers: usize,
    work: Arc<dyn Fn(&WorkerCtx, u64) -> T + Send + Sync>,
    mut sink: impl FnMut(u64, T) -> bool,
) -> PoolEnd {
    let rt = tokio::runtime::Builder::new_multi_thread()
        .worker_threads(2)
        .enable_all()
        .build()
        .expect("tokio runtime");
    let next = Arc::new(AtomicU64::new(0));
    let stop = Arc::new(AtomicBool::new(false));
    let (tx, rx) = mpsc::channel::<FromWorker<T>>();
    let slots: Vec<Arc<PollSlot>> = (0..workers).map(|_| PollSlot::new()).collect();
    for (index, slot) in slots.iter().enumerate() {
        let (next, stop, tx, work, slot, handle) = (next.clone(), stop.clone(), tx.clone(), work.clone(), slot.clone(), rt.handle().clone());
        std::thread::Builder::new()
            .name(format!("vh-sync-worker-{index}"))
            .stack_size(16 << 20)
            .spawn(move || {
                slot.bind_current_thread();
                let _guard = handle.enter();
                let ctx = WorkerCtx { slot, rt: handle.clone(), index };
                loop {
                    if stop.load(SeqCst) {
                        break;
                    }
                    let case = next.fetch_add(1, SeqCst);
                    if case >= n {
                        break;
                    }
                    let r = std::panic::catch_unwind(std::panic::AssertUnwindSafe(|| work(&ctx, case)));
                    let msg = match r {
                        Ok(t) => FromWorker::Done(case, t),
                        Err(e) => FromWorker::Panicked(
                            case,
                            e.downcast_ref::<String>().cloned().or_else(|| e.downcast_ref::<&str>().map(|s| s.to_string())).unwrap_or_else(|| "panic".into()),
                        ),
                    };
                    if tx.send(msg).is_err() {
                        break;
                    }
                }
                let _ = tx.send(FromWorker::Exit);
            })
            .expect("spawn worker");
    }
    let tx_spin = tx.clone();
    drop(tx);
    let monitor = SpinMonitor::start(slots, Duration::from_secs(3), move || {
        let _ = tx_spin.send(FromWorker::Spin);
    });

    let mut pending: BTreeMap<u64, T> = BTreeMap::new();
    let mut want = 0u64;
    let mut end = PoolEnd { spin: None, panics: Vec::new(), completed: 0 };
    let mut skipped: Vec<u64> = Vec::new();
    let mut exited = 0usize;
    'outer: while let Ok(m) = rx.recv() {
        match m {
            FromWorker::Exit => {
                exited += 1;
                if exited == workers {
                    break;
                }
                continue;
            }
            FromWorker::Spin => {
                end.spin = monitor.found.lock().unwrap().clone();
                stop.store(true, SeqCst);
                // Leak the runtime: dropping it would wait for nothing useful, and the spinning
                // worker never returns.
                std::mem::forget(rt);
                return end;
            }
            FromWorker::Panicked(case, what) => {
                end.panics.push((case, what));
                skipped.push(case);
            }
            FromWorker::Done(case, t) => {
                pending.insert(case, t);
            }
        }
        loop {
            if skipped.contains(&want) {
                want += 1;
                continue;
            }
            let Some(t) = pending.remove(&want) else { break };
            end.completed += 1;
            let go_on = sink(want, t);
            want += 1;
            if !go_on {
                stop.store(true, SeqCst);
                break 'outer;
            }
        }
    }
    monitor.stop();
    rt.shutdown_background();
    end
}
