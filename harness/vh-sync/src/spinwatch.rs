//! Counting spin detector. `LogSync::run` wraps the futures it awaits in `tracing` spans
//! (`.instrument(span)`), so a global subscriber sees one `enter` per poll of each of them. While
//! the harness polls a session future, the subscriber counts span entries; every transport or
//! store call resets the count. `LIMIT` consecutive entries inside one `poll` of the session
//! without a single transport/store call mean the session is looping without awaiting anything
//! (`select!` re-polling an exhausted source in a loop). The subscriber then unwinds that poll
//! with a `Spin` payload, which `drive` catches: a count-based, replayable verdict that does not
//! involve any clock and does not cost the worker thread.

use std::cell::RefCell;
use std::sync::Arc;
use std::sync::atomic::{AtomicU64, Ordering::SeqCst};

use tracing::span::{Attributes, Id, Record};
use tracing::{Event, Metadata, Subscriber};

use crate::chan::Wire;
use crate::drive::StoreActivity;

pub const LIMIT: u64 = 200_000;

/// Panic payload used to leave a spinning poll.
pub struct Spin {
    pub span_entries_without_io: u64,
}

struct Watch {
    wire: Arc<Wire>,
    store: Arc<StoreActivity>,
    last_io: u64,
    entries: u64,
}

thread_local! {
    static WATCH: RefCell<Option<Watch>> = const { RefCell::new(None) };
}

/// Active for the duration of one `poll` call on this thread.
pub struct Armed;

pub fn arm(wire: &Arc<Wire>, store: &Arc<StoreActivity>) -> Armed {
    let last_io = wire.io_calls.load(SeqCst) + store.calls.load(SeqCst);
    WATCH.with(|w| *w.borrow_mut() = Some(Watch { wire: wire.clone(), store: store.clone(), last_io, entries: 0 }));
    Armed
}

impl Drop for Armed {
    fn drop(&mut self) {
        WATCH.with(|w| *w.borrow_mut() = None);
    }
}

struct Counter {
    next: AtomicU64,
}

impl Subscriber for Counter {
    fn enabled(&self, metadata: &Metadata<'_>) -> bool {
        metadata.is_span()
    }
    fn new_span(&self, _: &Attributes<'_>) -> Id {
        Id::from_u64(self.next.fetch_add(1, SeqCst).max(1))
    }
    fn record(&self, _: &Id, _: &Record<'_>) {}
    fn record_follows_from(&self, _: &Id, _: &Id) {}
    fn event(&self, _: &Event<'_>) {}
    fn enter(&self, _: &Id) {
        let spun = WATCH.with(|w| {
            let mut g = w.borrow_mut();
            let Some(watch) = g.as_mut() else { return None };
            let io = watch.wire.io_calls.load(SeqCst) + watch.store.calls.load(SeqCst);
            if io != watch.last_io {
                watch.last_io = io;
                watch.entries = 0;
            }
            watch.entries += 1;
            if watch.entries >= LIMIT {
                let n = watch.entries;
                *g = None; // disarm: the unwinding poll exits spans, which must not re-trigger
                Some(n)
            } else {
                None
            }
        });
        if let Some(n) = spun {
            std::panic::panic_any(Spin { span_entries_without_io: n });
        }
    }
    fn exit(&self, _: &Id) {}
}

/// Install the subscriber once per process. Returns false if another global subscriber exists
/// (then only the CPU-time monitor remains as a spin detector).
pub fn install() -> bool {
    tracing::subscriber::set_global_default(Counter { next: AtomicU64::new(1) }).is_ok()
}
