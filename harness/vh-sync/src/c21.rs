//! C21 — a log-sync session between two honest peers completes for any data volume and any
//! transport capacity. Liveness restated as bounded progress with a *state-based* criterion.
//!
//! Grid: transport kind x capacity x (volume on A, volume on B) x body size x number of authors the
//! volume is spread over x poll order. Both real `LogSync` state machines run over monitored
//! channels and are polled by hand (`drive`):
//!
//! * in-memory `LogStore` (most configurations): nothing outside the driving thread can wake a
//!   side, so "no unfinished side is runnable" is an exact, final state — no clock involved;
//! * real SQLite stores (a share of the small configurations): the state is observed twice 100 ms
//!   apart with unchanged progress counters and no wake-up in between.
//!
//! Verdict per configuration: both sides returned `Ok` = held; stalled with both sides
//! `blocked_in_send` and both directions at measured capacity (each side's current `send` can only
//! be released by the other side reading, which it never does) = the mutual-send deadlock
//! (signature below); any other stalled shape, a session error,
//! or a poll that burns CPU without ever yielding = violation with its own signature; wall-clock
//! watchdog without such a state = inconclusive.

use std::collections::{BTreeMap, HashMap};
use std::sync::atomic::AtomicU64;
use std::sync::{Arc, Mutex, OnceLock};

use p2panda_core::SigningKey;
use vh_common::{Args, Report, Rng, Tier, Value, json};

use crate::chan::Transport;
use crate::drive::{DriveCfg, End, StoreActivity, stall_shape};
use crate::fstore::{FStore, Fault};
use crate::memstore::MemStore;
use crate::model::{Logs, MasterLog, Op, insert_ops, make_log};
use crate::pool::{WorkerCtx, default_workers, run_cases};
use crate::session::{Lite, PairCfg, PairRun, lite, run_pair};

pub const SIG_DEADLOCK: &str = "C21:deadlock:both-blocked_in_send:both-buffers-full";
pub const SIG_SPIN: &str = "C21:spin:session-loops-without-awaiting";

#[derive(Clone, Debug)]
struct Cfg {
    transport: Transport,
    vol: [usize; 2],
    body: usize,
    authors: [usize; 2],
    sqlite: bool,
}

/// Master logs are expensive to sign; build each (author, body size) log once per process.
fn master(author: usize, body: usize, len: usize) -> Arc<MasterLog> {
    static CACHE: OnceLock<Mutex<HashMap<(usize, usize), Arc<MasterLog>>>> = OnceLock::new();
    let cache = CACHE.get_or_init(Default::default);
    {
        let g = cache.lock().unwrap();
        if let Some(m) = g.get(&(author, body)) {
            if m.ops.len() >= len {
                return m.clone();
            }
        }
    }
    // Key material is fixed per author index: C21 does not depend on it.
    let mut rng = Rng::new(0xC21_0000 + author as u64);
    let key = SigningKey::from_bytes(&rng.array32());
    let want = len.next_power_of_two().max(64);
    let m = Arc::new(make_log(&key, 1 + author as u64, want, &mut rng, |_, _| if body == 0 { None } else { Some(body) }, |_, _| false));
    cache.lock().unwrap().insert((author, body), m.clone());
    m
}

fn split(total: usize, parts: usize) -> Vec<usize> {
    let parts = parts.max(1);
    let mut v = vec![total / parts; parts];
    for x in v.iter_mut().take(total % parts) {
        *x += 1;
    }
    v
}

fn volumes(t: &Transport) -> Vec<usize> {
    let mut v = match t.nominal() {
        None => vec![0, 1, 8, 100, 1000],
        Some(0) => vec![0, 1, 2, 10],
        Some(c) => vec![0, 1, c, c + 2, 10 * c],
    };
    v.sort();
    v.dedup();
    v
}

fn grid() -> Vec<(Transport, usize, usize)> {
    let mut ts: Vec<Transport> = [0usize, 1, 2, 8, 64, 512].iter().map(|c| Transport::Futures(*c)).collect();
    ts.push(Transport::Unbounded);
    ts.extend([1usize, 2, 8, 64, 512].iter().map(|c| Transport::Tokio(*c)));
    let mut out = Vec::new();
    for t in ts {
        let vs = volumes(&t);
        for a in &vs {
            for b in &vs {
                out.push((t, *a, *b));
            }
        }
    }
    out
}

struct CaseOut {
    cfg: Cfg,
    nontrivial: bool,
    outcome: &'static str,
    violation: Option<(String, String)>,
    inconclusive: Option<String>,
    witness: Value,
    polls: u64,
    /// `Some((kind, k, same_author))` for cases of the concurrent-prune stage.
    fault: Option<(usize, u64, bool)>,
}

fn case(ctx: &WorkerCtx, seed: u64, n: u64, grid: &[(Transport, usize, usize)]) -> CaseOut {
    let mut rng = Rng::fork(seed, n);
    let (transport, va, vb) = grid[(n as usize) % grid.len()];
    let round = n as usize / grid.len();
    let maxv = va.max(vb);
    // Round 0 uses the plain shape (one author per side, 100-byte bodies) so that every grid point
    // is seen in its simplest form; later rounds vary the other dimensions.
    let body = if round == 0 {
        100
    } else {
        match rng.below(6) {
            0 => 0,
            1 if maxv <= 64 => 65_536,
            2 => 1_000,
            _ => 100,
        }
    };
    let authors = if round == 0 { [1, 1] } else { [1 + rng.usize_below(3), 1 + rng.usize_below(3)] };
    let sqlite = maxv <= 300 && (if round == 0 { n % 9 == 4 } else { rng.chance(0.12) });
    let cfg = Cfg { transport, vol: [va, vb], body, authors, sqlite };
    let measured = transport.measured_capacity(100_000);

    // Side A's authors are 0..3, side B's 3..6.
    let mut logs: Logs = BTreeMap::new();
    let mut side_ops: [Vec<Op>; 2] = [Vec::new(), Vec::new()];
    for side in 0..2 {
        for (j, v) in split(cfg.vol[side], cfg.authors[side]).into_iter().enumerate() {
            let m = master(side * 3 + j, body, v.max(1));
            logs.entry(m.author).or_default().push(m.log);
            side_ops[side].extend(m.ops[..v].iter().cloned());
        }
    }
    let witness = json!({
        "seed": seed, "case": n, "transport": transport.label(), "measured_capacity_messages": measured,
        "operations_on_A": va, "operations_on_B": vb, "body_bytes": body, "authors_A": authors[0], "authors_B": authors[1],
        "store": if sqlite { "sqlite (in-memory database)" } else { "in-memory LogStore" },
    });
    *ctx.slot.what.lock().unwrap() = witness.clone();
    let mut out = CaseOut {
        nontrivial: measured.map(|c| va + 3 > c && vb + 3 > c).unwrap_or(false),
        cfg: cfg.clone(),
        outcome: "?",
        violation: None,
        inconclusive: None,
        witness,
        polls: 0,
        fault: None,
    };

    let total = Arc::new(StoreActivity::default());
    let pair_cfg = |drive: DriveCfg| PairCfg {
        transport,
        dedup_capacity: 1024,
        event_capacity: maxv + 16,
        drive,
        slot: &ctx.slot,
        tags: [Arc::new(AtomicU64::new(0)), Arc::new(AtomicU64::new(0))],
        extra_progress: total.clone(),
    };
    let run = if sqlite {
        let stores = ctx.rt.block_on(async {
            let a = p2panda_store::SqliteStore::temporary().await;
            let b = p2panda_store::SqliteStore::temporary().await;
            insert_ops(&a, &side_ops[0]).await?;
            insert_ops(&b, &side_ops[1]).await?;
            Ok::<_, String>((a, b))
        });
        let (a, b) = match stores {
            Ok(s) => s,
            Err(e) => {
                out.inconclusive = Some(format!("could not prepare SQLite stores: {e}"));
                return out;
            }
        };
        let r = run_pair(
            FStore::new(a.clone(), total.clone()),
            FStore::new(b.clone(), total.clone()),
            [logs.clone(), logs.clone()],
            lite,
            &mut rng,
            pair_cfg(DriveCfg::external()),
        );
        ctx.rt.block_on(async {
            a.pool().close().await;
            b.pool().close().await;
        });
        r
    } else {
        let (a, b) = (MemStore::default(), MemStore::default());
        side_ops[0].iter().for_each(|o| a.insert(o));
        side_ops[1].iter().for_each(|o| b.insert(o));
        run_pair(
            FStore::new(a, total.clone()),
            FStore::new(b, total.clone()),
            [logs.clone(), logs.clone()],
            lite,
            &mut rng,
            pair_cfg(DriveCfg::exact()),
        )
    };
    judge(&run, transport, measured, va, vb, &mut out);
    out
}

/// Turn the final state of a pair into the case verdict (shared by the grid and the fault stage).
fn judge(run: &PairRun<Lite>, transport: Transport, measured: Option<usize>, va: usize, vb: usize, out: &mut CaseOut) {
    out.polls = run.polls[0] + run.polls[1];

    let sent_ops = |side: usize| run.sent[side].iter().filter(|(_, _, m)| m.kind == "operation").count();
    let done_sent = |side: usize| run.sent[side].iter().any(|(_, _, m)| m.kind == "done");
    let tail = |side: usize| -> Vec<String> {
        let v = &run.sent[side];
        v.iter().skip(v.len().saturating_sub(6)).map(|(i, _, m)| format!("#{i} {}", m.kind)).collect()
    };
    out.witness["operations_sent_by_A"] = json!(sent_ops(0));
    out.witness["operations_sent_by_B"] = json!(sent_ops(1));
    out.witness["last_messages_A"] = json!(tail(0));
    out.witness["last_messages_B"] = json!(tail(1));
    out.witness["polls"] = json!(run.polls);
    out.witness["wakes"] = json!(run.wakes);
    out.witness["results"] = json!(run
        .result
        .iter()
        .map(|r| match r {
            None => "still pending".to_string(),
            Some(Ok(m)) => format!("Ok(sent {} received {})", m.sent_operations, m.received_operations),
            Some(Err(e)) => format!("Err({e})"),
        })
        .collect::<Vec<_>>());

    match &run.end {
        End::Completed => {
            let errs: Vec<String> = run.result.iter().filter_map(|r| r.as_ref().and_then(|r| r.as_ref().err()).map(|e| e.to_string())).collect();
            if errs.is_empty() {
                out.outcome = "completed";
                if sent_ops(0) != va || sent_ops(1) != vb {
                    out.witness["note"] = json!("completed, but the number of operations sent differs from the volume (content is C19's subject; recorded)");
                }
            } else {
                out.outcome = "session-error";
                out.violation = Some(("C21:session-error".into(), format!("session between honest peers returned an error instead of completing: {errs:?}")));
            }
        }
        End::Stalled { snap, exact } => {
            out.witness["stalled_state"] = snap.json();
            out.witness["stall_decided"] = json!(if *exact { "exact quiescence: no unfinished side runnable, nothing outside the driving thread can wake one" } else { "observed twice 100 ms apart: no wake-up, progress counters unchanged, every unfinished side blocked on the transport" });
            let (shape, both_send_full) = stall_shape(snap, measured);
            let remaining = [va - sent_ops(0).min(va) + (!done_sent(0)) as usize, vb - sent_ops(1).min(vb) + (!done_sent(1)) as usize];
            out.witness["messages_not_yet_handed_to_the_transport (operations + done)"] = json!(remaining);
            // A side blocked in `send` has by definition an incomplete send: outbound remains on both
            // sides even when the message being flushed is the last one (`done`).
            if both_send_full {
                out.outcome = "deadlock";
                out.violation = Some((
                    SIG_DEADLOCK.into(),
                    format!(
                        "both peers blocked in send over {} ({}+{} messages in flight, nobody reading), {} and {} further messages not yet handed to the transport; {} ops on A, {} ops on B",
                        transport.label(), snap.sides[0].out_occupancy, snap.sides[1].out_occupancy, remaining[0], remaining[1], va, vb
                    ),
                ));
            } else {
                out.outcome = "other-stall";
                out.violation = Some((format!("C21:stall:{shape}"), format!("session pair can make no further progress over {}: {shape}; {} ops on A, {} ops on B", transport.label(), va, vb)));
            }
        }
        End::Spin { snap, span_entries_without_io } => {
            let (shape, _) = stall_shape(snap, measured);
            out.witness["final_state"] = snap.json();
            out.witness["span_entries_without_transport_or_store_call_in_one_poll"] = json!(span_entries_without_io);
            out.outcome = "spin";
            out.violation = Some((
                SIG_SPIN.into(),
                format!(
                    "a session loops inside one poll without awaiting anything ({span_entries_without_io} span entries, no transport or store call) over {}; final state {shape}; {va} ops on A, {vb} ops on B",
                    transport.label()
                ),
            ));
        }
        End::Watchdog { snap } => {
            out.outcome = "watchdog";
            out.inconclusive = Some(format!("wall-clock watchdog fired without a decisive state ({}, {va}/{vb} ops): {}", transport.label(), snap.json()));
        }
    }
}

// ---------------------------------------------------------------------------------------------
// Fault stage: termination while the local store changes concurrently
// ---------------------------------------------------------------------------------------------

const FAULT_TRANSPORTS: [Transport; 4] = [Transport::Futures(512), Transport::Futures(8), Transport::Tokio(8), Transport::Unbounded];
const FAULT_KINDS: [&str; 2] = ["prune-one-whole-log", "append-then-prune-up-to-the-announced-height"];
/// (ops per log on A — A holds two logs —, ops on B, two logs of one author?, fault kind, store-call index)
fn fault_grid() -> Vec<(Transport, usize, usize, bool, usize, u64)> {
    let mut out = Vec::new();
    for t in FAULT_TRANSPORTS {
        for va in [2usize, 6] {
            for vb in [0usize, 3] {
                for same_author in [true, false] {
                    for kind in 0..FAULT_KINDS.len() {
                        for k in 0..7u64 {
                            out.push((t, va, vb, same_author, kind, k));
                        }
                    }
                }
            }
        }
    }
    out
}

/// Honest peers, one-sided or two-sided data, and one of A's two announced logs is emptied by a
/// concurrent prune immediately before A's k-th store call while A's other log keeps its
/// operations. The session pair must still terminate.
fn fault_case(ctx: &WorkerCtx, seed: u64, n: u64, idx: usize, fgrid: &[(Transport, usize, usize, bool, usize, u64)]) -> CaseOut {
    let mut rng = Rng::fork(seed, n);
    let (transport, va, vb, same_author, kind, k) = fgrid[idx % fgrid.len()];
    let measured = transport.measured_capacity(100_000);
    let mut krng = Rng::new(0xC21_F000);
    let keys: Vec<SigningKey> = (0..3).map(|_| SigningKey::from_bytes(&krng.array32())).collect();
    // A's two logs (master logs are 3 operations longer than what A holds), B's log.
    let a1 = make_log(&keys[0], 1, va + 3, &mut krng, |_, _| Some(40), |_, _| false);
    let a2 = make_log(if same_author { &keys[0] } else { &keys[1] }, 2, va + 3, &mut krng, |_, _| Some(40), |_, _| false);
    let b1 = make_log(&keys[2], 1, vb.max(1), &mut krng, |_, _| Some(40), |_, _| false);
    let mut logs: Logs = BTreeMap::new();
    for m in [&a1, &a2, &b1] {
        logs.entry(m.author).or_default().push(m.log);
    }
    let (sa, sb) = (MemStore::default(), MemStore::default());
    a1.ops[..va].iter().chain(a2.ops[..va].iter()).for_each(|o| sa.insert(o));
    b1.ops[..vb].iter().for_each(|o| sb.insert(o));
    // The victim alternates between A's first and second log.
    let victim = if (k + kind as u64) % 2 == 0 { &a1 } else { &a2 };
    let until = va as u32; // held 0..va-1: everything announced goes
    let faults = match kind {
        0 => vec![Fault::Prune { author: victim.author, log: victim.log, until }],
        _ => vec![Fault::Insert { ops: victim.ops[va..va + 2].to_vec() }, Fault::Prune { author: victim.author, log: victim.log, until }],
    };
    let witness = json!({
        "seed": seed, "case": n, "stage": "concurrent prune", "transport": transport.label(), "measured_capacity_messages": measured,
        "A_holds": format!("two logs ({}) of {va} operations each", if same_author { "one author" } else { "two authors" }),
        "operations_on_B": vb, "fault": FAULT_KINDS[kind], "victim_log_of_A": victim.log, "before_store_call_of_A": k,
        "store": "in-memory LogStore",
    });
    *ctx.slot.what.lock().unwrap() = witness.clone();
    let total = Arc::new(StoreActivity::default());
    let fa = FStore::new(sa, total.clone());
    let fb = FStore::new(sb, total.clone());
    *fa.ctl.armed.lock().unwrap() = Some((k, faults));
    let ctl = fa.ctl.clone();
    let run = run_pair(
        fa,
        fb,
        [logs.clone(), logs],
        lite,
        &mut rng,
        PairCfg {
            transport,
            dedup_capacity: 1024,
            event_capacity: 64,
            drive: DriveCfg::exact(),
            slot: &ctx.slot,
            tags: [Arc::new(AtomicU64::new(0)), Arc::new(AtomicU64::new(0))],
            extra_progress: total,
        },
    );
    let fired = ctl.fired.load(std::sync::atomic::Ordering::SeqCst);
    let mut out = CaseOut {
        nontrivial: fired,
        cfg: Cfg { transport, vol: [2 * va, vb], body: 40, authors: [if same_author { 1 } else { 2 }, 1], sqlite: false },
        outcome: "?",
        violation: None,
        inconclusive: None,
        witness,
        polls: 0,
        fault: Some((kind, k, same_author)),
    };
    out.witness["fault_fired"] = json!(fired);
    out.witness["store_calls_of_A"] = json!(ctl.log.lock().unwrap().iter().map(|c| format!("{}({:?}, {:?}, {:?})", c.kind, c.logs, c.after, c.until)).collect::<Vec<_>>());
    // `judge` compares sent operations with the volume only for a note; pass what A can still send.
    judge(&run, transport, measured, 2 * va, vb, &mut out);
    out.witness.as_object_mut().map(|o| o.remove("note"));
    out
}

pub fn run(args: &Args) {
    let grid = Arc::new(grid());
    let mut rep = Report::new(
        args,
        "grid of transports {futures-mpsc(0,1,2,8,64,512,unbounded), tokio-mpsc(1,2,8,64,512)} x operations per side \
         {0,1,cap,cap+2,10*cap}^2; first pass: one author per side, 100-byte bodies; further passes draw body size {0,100,1000,65536 B}, \
         1-3 authors per side, SQLite vs in-memory store and the poll order from the seed. Non-trivial = each side has more messages \
         to send (operations + Have/PreSync/Done) than the transport holds (measured); distinct = (transport, volumes, body, authors, store). \
         Concurrent-prune stage: A announces two logs (one or two authors, 2 or 6 operations each), B holds 0 or 3 operations; immediately \
         before A's k-th store call (k = 0..6) one of A's logs is emptied (pruned whole, or appended-to and pruned up to the announced \
         height) while the other keeps its operations; transports futures-mpsc(8,512,unbounded), tokio-mpsc(8). Non-trivial there = the fault fired",
        if args.tier == Tier::Quick { 40 } else { 1_000 },
    );
    let n_grid = args.n(grid.len() as u64, grid.len() as u64 * 60);
    let fgrid = Arc::new(fault_grid());
    let n_fault = args.n(fgrid.len() as u64, fgrid.len() as u64 * 10);
    let n = n_grid + n_fault;
    let seed = args.seed;
    let g2 = grid.clone();
    let work: Arc<dyn Fn(&WorkerCtx, u64) -> CaseOut + Send + Sync> = Arc::new(move |ctx, i| {
        // The cheap concurrent-prune stage runs first so that a time budget cannot starve it.
        if i < n_fault { fault_case(ctx, seed, i, i as usize, &fgrid) } else { case(ctx, seed, i - n_fault, &g2) }
    });
    let budget = std::time::Duration::from_secs(if args.tier == Tier::Quick { 80 } else { 25 * 60 });
    let started = std::time::Instant::now();
    let mut by_transport: BTreeMap<String, BTreeMap<&'static str, u64>> = BTreeMap::new();
    let mut smallest_deadlock: BTreeMap<String, (usize, usize)> = BTreeMap::new();
    let mut polls = 0u64;
    let mut stores = [0u64; 2];
    let mut fault_outcomes: BTreeMap<&'static str, u64> = BTreeMap::new();
    let mut fault_fired = 0u64;
    let end = {
        let (rep, by_transport, smallest, polls, stores, fault_outcomes, fault_fired) =
            (&mut rep, &mut by_transport, &mut smallest_deadlock, &mut polls, &mut stores, &mut fault_outcomes, &mut fault_fired);
        run_cases(n, default_workers(), work, move |_, c: CaseOut| {
            *polls += c.polls;
            stores[c.cfg.sqlite as usize] += 1;
            let key = format!("{:?}", (c.cfg.transport, c.cfg.vol, c.cfg.body, c.cfg.authors, c.cfg.sqlite, c.fault));
            rep.case(c.nontrivial.then_some(key));
            if c.fault.is_some() {
                *fault_outcomes.entry(c.outcome).or_default() += 1;
                *fault_fired += c.nontrivial as u64;
            } else {
                *by_transport.entry(c.cfg.transport.label()).or_default().entry(c.outcome).or_default() += 1;
            }
            if let Some(w) = c.inconclusive {
                rep.inconclusive(w);
            }
            if let Some((sig, what)) = c.violation {
                if c.outcome == "deadlock" && c.fault.is_none() {
                    let e = smallest.entry(c.cfg.transport.label()).or_insert((c.cfg.vol[0], c.cfg.vol[1]));
                    if c.cfg.vol[0] + c.cfg.vol[1] < e.0 + e.1 {
                        *e = (c.cfg.vol[0], c.cfg.vol[1]);
                    }
                }
                rep.violation(&sig, what, c.witness);
            } else if c.nontrivial && c.outcome == "completed" && rep.want_sample() {
                rep.sample(c.witness);
            }
            started.elapsed() < budget
        })
    };
    if let Some(spin) = &end.spin {
        rep.violation(
            "C21:spin:poll-never-returns:no-transport-or-store-call",
            format!(
                "a session future consumed {:.1}s of CPU inside a single poll without one transport or store call (busy loop that never yields, the peer can never be scheduled by the same task)",
                spin.cpu_s
            ),
            json!({"seed": seed, "configuration": spin.what, "cpu_s_in_one_poll": spin.cpu_s, "wall_s": spin.wall_s,
                   "note": "run cut short: the spinning thread cannot be stopped"}),
        );
    }
    for (case, what) in &end.panics {
        rep.inconclusive(format!("case {case} panicked: {what}"));
    }
    if end.completed < n && end.spin.is_none() {
        rep.extra("stopped_by_time_budget_after_cases", json!(end.completed));
    }
    rep.extra("outcomes_by_transport", json!(by_transport));
    rep.extra("smallest_deadlocking_volumes_by_transport (ops on A, ops on B)", json!(smallest_deadlock));
    rep.extra("concurrent_prune_stage_outcomes", json!(fault_outcomes));
    rep.extra("concurrent_prune_stage_sessions_where_the_fault_fired", json!(fault_fired));
    rep.extra("session_polls", json!(polls));
    rep.extra("configurations_on_in_memory_store", json!(stores[0]));
    rep.extra("configurations_on_sqlite_store", json!(stores[1]));
    rep.finish(args);
}
