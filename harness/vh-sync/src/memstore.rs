//! In-memory `LogStore` (trait boundary the sync protocol already offers). Used where the store is
//! not the subject: the C21 transport grid (no worker threads, so "nobody was woken" is an exact
//! quiescence criterion) and the trivial session of C24 (no SQLite, Miri-compatible).
//!
//! Query semantics follow the trait documentation: heights `None` when no requested log of the
//! author exists, `after` exclusive / `until` inclusive ranges, `None` for an empty entry range.

use std::collections::BTreeMap;
use std::convert::Infallible;
use std::sync::{Arc, Mutex};

use p2panda_core::{Hash, SeqNum, VerifyingKey};
use p2panda_store::logs::LogStore;

use crate::model::{L, Op};

#[derive(Clone, Debug, Default)]
pub struct MemStore {
    logs: Arc<Mutex<BTreeMap<(VerifyingKey, L), BTreeMap<SeqNum, (Op, Vec<u8>)>>>>,
}

impl MemStore {
    pub fn insert(&self, op: &Op) {
        let bytes = op.header.to_bytes();
        self.logs
            .lock()
            .unwrap()
            .entry((op.header.verifying_key, op.header.extensions.log))
            .or_default()
            .insert(op.header.seq_num, (op.clone(), bytes));
    }
}

fn in_range(seq: SeqNum, after: Option<SeqNum>, until: Option<SeqNum>) -> bool {
    after.map(|a| seq > a).unwrap_or(true) && until.map(|u| seq <= u).unwrap_or(true)
}

impl LogStore<Op, VerifyingKey, L, SeqNum, Hash> for MemStore {
    type Error = Infallible;

    async fn get_latest_entry(&self, author: &VerifyingKey, log_id: &L) -> Result<Option<Op>, Infallible> {
        Ok(self
            .logs
            .lock()
            .unwrap()
            .get(&(*author, *log_id))
            .and_then(|l| l.values().next_back().map(|(op, _)| op.clone())))
    }

    async fn get_latest_entry_tx(&self, author: &VerifyingKey, log_id: &L) -> Result<Option<Op>, Infallible> {
        self.get_latest_entry(author, log_id).await
    }

    async fn get_log_heights(&self, author: &VerifyingKey, logs: &[L]) -> Result<Option<BTreeMap<L, SeqNum>>, Infallible> {
        let g = self.logs.lock().unwrap();
        let mut out = BTreeMap::new();
        for l in logs {
            if let Some(h) = g.get(&(*author, *l)).and_then(|m| m.keys().next_back()) {
                out.insert(*l, *h);
            }
        }
        Ok(if out.is_empty() { None } else { Some(out) })
    }

    async fn get_log_size(
        &self,
        author: &VerifyingKey,
        log_id: &L,
        after: Option<SeqNum>,
        until: Option<SeqNum>,
    ) -> Result<Option<(u32, u32)>, Infallible> {
        let g = self.logs.lock().unwrap();
        let mut n = 0u32;
        let mut bytes = 0u32;
        if let Some(m) = g.get(&(*author, *log_id)) {
            for (s, (op, hb)) in m {
                if in_range(*s, after, until) {
                    n += 1;
                    bytes += hb.len() as u32 + op.header.payload_size;
                }
            }
        }
        Ok(Some((n, bytes)))
    }

    async fn get_log_entries(
        &self,
        author: &VerifyingKey,
        log_id: &L,
        after: Option<SeqNum>,
        until: Option<SeqNum>,
    ) -> Result<Option<Vec<(Op, Vec<u8>)>>, Infallible> {
        let g = self.logs.lock().unwrap();
        let v: Vec<(Op, Vec<u8>)> = g
            .get(&(*author, *log_id))
            .map(|m| m.iter().filter(|(s, _)| in_range(**s, after, until)).map(|(_, e)| e.clone()).collect())
            .unwrap_or_default();
        Ok(if v.is_empty() { None } else { Some(v) })
    }

    async fn prune_entries(&self, author: &VerifyingKey, log_id: &L, until: &SeqNum) -> Result<u64, Infallible> {
        let mut g = self.logs.lock().unwrap();
        let mut n = 0;
        if let Some(m) = g.get_mut(&(*author, *log_id)) {
            let before = m.len();
            m.retain(|s, _| s >= until);
            n = (before - m.len()) as u64;
        }
        Ok(n)
    }
}
