//! Harness over `p2panda-sync`'s log-sync protocol.
//!
//! C19 exactly-the-missing-operations, C20 message grammar under concurrent store changes,
//! C21 termination for any volume / transport capacity (state-based), C24 de-duplication buffer.

mod c19;
mod c20;
mod c21;
mod c24;
mod chan;
mod drive;
mod fstore;
mod memstore;
mod model;
mod pool;
mod probe;
mod session;
mod spinwatch;

use vh_common::Args;

fn main() {
    if std::env::args().nth(1).as_deref() == Some("PROBE") {
        return probe::run();
    }
    let args = Args::parse();
    vh_common::quiet_panics();
    spinwatch::install();
    match args.prop.as_str() {
        "C19" => c19::run(&args),
        "C20" => c20::run(&args),
        "C21" => c21::run(&args),
        "C24" => c24::run(&args),
        other => panic!("vh-sync does not serve {other}"),
    }
}
