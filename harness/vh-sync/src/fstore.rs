//! Delegating `LogStore` wrapper: counts and logs every trait call the session makes and, when
//! armed, applies a store mutation (the "concurrent" prune / delete / insert of C20) immediately
//! before the k-th call. The session under test sees a plain `S: LogStore`.

use std::collections::BTreeMap;
use std::future::Future;
use std::sync::atomic::{AtomicBool, AtomicU64, Ordering::SeqCst};
use std::sync::{Arc, Mutex};

use p2panda_core::{Hash, SeqNum, VerifyingKey};
use p2panda_store::logs::LogStore;
use p2panda_store::topics::TopicStore;
use p2panda_store::SqliteStore;
use serde::Serialize;

use crate::drive::StoreActivity;
use crate::memstore::MemStore;
use crate::model::{L, Op, delete_ops, insert_ops};

#[derive(Clone, Debug)]
pub enum Fault {
    /// `prune_entries(author, log, until)`: deletes every entry with seq < until.
    Prune { author: VerifyingKey, log: L, until: SeqNum },
    /// `delete_operation` for each hash.
    Delete { hashes: Vec<Hash> },
    /// `insert_operation` for each op (a log growing concurrently).
    Insert { ops: Vec<Op> },
}

pub trait Mutate: Clone + Send + 'static {
    fn apply(&self, f: &Fault) -> impl Future<Output = Result<(), String>>;
}

impl Mutate for SqliteStore {
    async fn apply(&self, f: &Fault) -> Result<(), String> {
        match f {
            Fault::Prune { author, log, until } => {
                <SqliteStore as LogStore<Op, VerifyingKey, L, SeqNum, Hash>>::prune_entries(self, author, log, until)
                    .await
                    .map(|_| ())
                    .map_err(|e| e.to_string())
            }
            Fault::Delete { hashes } => delete_ops(self, hashes).await,
            Fault::Insert { ops } => insert_ops(self, ops).await,
        }
    }
}

impl Mutate for MemStore {
    async fn apply(&self, f: &Fault) -> Result<(), String> {
        match f {
            Fault::Prune { author, log, until } => {
                let _ = self.prune_entries(author, log, until).await;
            }
            Fault::Delete { .. } => return Err("not supported on MemStore".into()),
            Fault::Insert { ops } => ops.iter().for_each(|o| self.insert(o)),
        }
        Ok(())
    }
}

#[derive(Clone, Debug, Serialize, PartialEq, Eq, Hash)]
pub struct CallRec {
    pub kind: &'static str,
    pub author: String,
    pub logs: Vec<L>,
    pub after: Option<SeqNum>,
    pub until: Option<SeqNum>,
}

#[derive(Debug, Default)]
pub struct Ctl {
    /// Number of `LogStore` calls made so far by the session on this side.
    pub calls: Arc<AtomicU64>,
    /// Shared by both sides: total calls (progress counter) and calls in flight.
    pub activity: Arc<StoreActivity>,
    pub log: Mutex<Vec<CallRec>>,
    /// `(k, faults)`: apply the faults immediately before call number k (0-based).
    pub armed: Mutex<Option<(u64, Vec<Fault>)>>,
    pub fired: AtomicBool,
    pub fault_errors: Mutex<Vec<String>>,
}

#[derive(Clone, Debug)]
pub struct FStore<S> {
    pub inner: S,
    pub ctl: Arc<Ctl>,
}

impl<S: Mutate> FStore<S> {
    pub fn new(inner: S, activity: Arc<StoreActivity>) -> Self {
        FStore { inner, ctl: Arc::new(Ctl { activity, ..Default::default() }) }
    }

    /// Bookkeeping (and the armed fault) before a call; the returned guard marks the call as in
    /// flight until it is dropped.
    async fn before(&self, rec: CallRec) -> InFlight {
        let guard = InFlight(self.ctl.activity.clone());
        guard.0.in_flight.fetch_add(1, SeqCst);
        let k = self.ctl.calls.load(SeqCst);
        let due = {
            let mut g = self.ctl.armed.lock().unwrap();
            match g.as_ref() {
                Some((at, _)) if *at == k => g.take().map(|(_, f)| f),
                _ => None,
            }
        };
        if let Some(faults) = due {
            for f in &faults {
                if let Err(e) = self.inner.apply(f).await {
                    self.ctl.fault_errors.lock().unwrap().push(e);
                }
            }
            self.ctl.fired.store(true, SeqCst);
        }
        self.ctl.log.lock().unwrap().push(rec);
        self.ctl.calls.fetch_add(1, SeqCst);
        self.ctl.activity.calls.fetch_add(1, SeqCst);
        guard
    }
}

pub struct InFlight(Arc<StoreActivity>);

impl Drop for InFlight {
    fn drop(&mut self) {
        self.0.in_flight.fetch_sub(1, SeqCst);
    }
}

fn a(author: &VerifyingKey) -> String {
    author.to_hex()[..10].to_string()
}

impl<S> LogStore<Op, VerifyingKey, L, SeqNum, Hash> for FStore<S>
where
    S: LogStore<Op, VerifyingKey, L, SeqNum, Hash> + Mutate,
{
    type Error = S::Error;

    async fn get_latest_entry(&self, author: &VerifyingKey, log_id: &L) -> Result<Option<Op>, Self::Error> {
        let _in_flight = self.before(CallRec { kind: "get_latest_entry", author: a(author), logs: vec![*log_id], after: None, until: None }).await;
        self.inner.get_latest_entry(author, log_id).await
    }

    async fn get_latest_entry_tx(&self, author: &VerifyingKey, log_id: &L) -> Result<Option<Op>, Self::Error> {
        let _in_flight = self.before(CallRec { kind: "get_latest_entry_tx", author: a(author), logs: vec![*log_id], after: None, until: None }).await;
        self.inner.get_latest_entry_tx(author, log_id).await
    }

    async fn get_log_heights(&self, author: &VerifyingKey, logs: &[L]) -> Result<Option<BTreeMap<L, SeqNum>>, Self::Error> {
        let _in_flight = self.before(CallRec { kind: "get_log_heights", author: a(author), logs: logs.to_vec(), after: None, until: None }).await;
        self.inner.get_log_heights(author, logs).await
    }

    async fn get_log_size(
        &self,
        author: &VerifyingKey,
        log_id: &L,
        after: Option<SeqNum>,
        until: Option<SeqNum>,
    ) -> Result<Option<(u32, u32)>, Self::Error> {
        let _in_flight = self.before(CallRec { kind: "get_log_size", author: a(author), logs: vec![*log_id], after, until }).await;
        self.inner.get_log_size(author, log_id, after, until).await
    }

    async fn get_log_entries(
        &self,
        author: &VerifyingKey,
        log_id: &L,
        after: Option<SeqNum>,
        until: Option<SeqNum>,
    ) -> Result<Option<Vec<(Op, Vec<u8>)>>, Self::Error> {
        let _in_flight = self.before(CallRec { kind: "get_log_entries", author: a(author), logs: vec![*log_id], after, until }).await;
        self.inner.get_log_entries(author, log_id, after, until).await
    }

    async fn prune_entries(&self, author: &VerifyingKey, log_id: &L, until: &SeqNum) -> Result<u64, Self::Error> {
        let _in_flight = self.before(CallRec { kind: "prune_entries", author: a(author), logs: vec![*log_id], after: None, until: Some(*until) }).await;
        self.inner.prune_entries(author, log_id, until).await
    }
}

/// Topic association is delegated untouched (not a fault point; `TopicLogSync` resolves the topic
/// once before the log-sync phase starts).
impl<S, T> TopicStore<T, VerifyingKey, L> for FStore<S>
where
    S: TopicStore<T, VerifyingKey, L>,
{
    type Error = S::Error;

    async fn associate(&self, topic: &T, author: &VerifyingKey, data_id: &L) -> Result<bool, Self::Error> {
        self.inner.associate(topic, author, data_id).await
    }

    async fn remove(&self, topic: &T, author: &VerifyingKey, data_id: &L) -> Result<bool, Self::Error> {
        self.inner.remove(topic, author, data_id).await
    }

    async fn resolve(&self, topic: &T) -> Result<BTreeMap<VerifyingKey, Vec<L>>, Self::Error> {
        let guard = InFlight(self.ctl.activity.clone());
        guard.0.in_flight.fetch_add(1, SeqCst);
        self.inner.resolve(topic).await
    }
}
