//! Not a check: a one-off probe (`vh-sync PROBE`) of an observation made while reading
//! `LogSync::run`: if the remote's stream ends while the local side still waits for `Done`, both
//! `select!` branches are disabled and the `else` arm loops without ever awaiting.

use std::collections::BTreeMap;
use std::sync::mpsc;
use std::time::Duration;

use futures::executor::block_on;
use p2panda_core::SigningKey;
use p2panda_sync::protocols::{LogSync, LogSyncMessage};
use p2panda_sync::traits::Protocol;
use tokio::sync::broadcast;

use crate::memstore::MemStore;
use crate::model::{Ext, L, make_log};
use crate::session::{Evt, Msg};

pub fn run() {
    let key = SigningKey::from_bytes(&[7u8; 32]);
    let mut rng = vh_common::Rng::new(1);
    let m = make_log(&key, 1, 1, &mut rng, |_, _| Some(5), |_, _| false);
    let store = MemStore::default();
    m.ops.iter().for_each(|o| store.insert(o));
    let mut logs = BTreeMap::new();
    logs.insert(m.author, vec![1u64]);
    let (done_tx, done_rx) = mpsc::channel();
    std::thread::spawn(move || {
        let (tx, _rx) = broadcast::channel::<Evt>(16);
        let session: LogSync<L, Ext, MemStore, Evt> = LogSync::new(store, logs, tx);
        let mut sink: Vec<Msg> = Vec::new();
        // Remote: Have({}), PreSync, then the connection ends.
        let mut stream = futures::stream::iter(vec![
            Ok::<Msg, ()>(LogSyncMessage::Have(BTreeMap::new())),
            Ok(LogSyncMessage::PreSync { total_operations: 1, total_bytes: 1 }),
        ]);
        let r = block_on(session.run(&mut sink, &mut stream)).map(|(_, m)| m);
        let _ = done_tx.send(format!("{r:?}; sent {}", sink.len()));
    });
    match done_rx.recv_timeout(Duration::from_secs(5)) {
        Ok(s) => println!("session returned: {s}"),
        Err(_) => println!("session did not return within 5 s (busy loop: check CPU of this process)"),
    }
}
