//! Harness-side types around the real `GroupCrdt`: an operation type generic over the condition
//! type, a totally ordered condition type, the processing wrapper (panic → outcome) and the
//! normalised view of everything a replica can be asked.

use std::collections::{BTreeMap, BTreeSet};
use std::hash::Hash;
use std::panic::AssertUnwindSafe;

use p2panda_auth::group::resolver::StrongRemove;
use p2panda_auth::group::{
    GroupAction, GroupCrdt, GroupCrdtError, GroupCrdtState, GroupMember, GroupMembersState,
};
use p2panda_auth::traits::{Conditions, Operation};
use p2panda_auth::{Access, AccessLevel};
use serde::de::DeserializeOwned;
use serde::{Deserialize, Serialize};
use vh_common::{Rng, Value, catch, json};

/// Totally ordered access condition (think "expiry timestamp").
#[derive(Clone, Debug, PartialEq, Eq, PartialOrd, Ord, Hash, Serialize, Deserialize)]
pub struct Cond(pub u8);
impl Conditions for Cond {}

/// Condition types the harness is instantiated with.
pub trait Cx:
    Conditions + Serialize + DeserializeOwned + Eq + Ord + Hash + Send + 'static
{
    const WITH: bool;
    const NAME: &'static str;
    fn generate(rng: &mut Rng) -> Option<Self>;
    fn show(c: &Option<Self>) -> Option<i64>;
}

impl Cx for () {
    const WITH: bool = false;
    const NAME: &'static str = "none";
    fn generate(_: &mut Rng) -> Option<Self> {
        None
    }
    fn show(c: &Option<Self>) -> Option<i64> {
        c.as_ref().map(|_| 0)
    }
}

impl Cx for Cond {
    const WITH: bool = true;
    const NAME: &'static str = "u8";
    fn generate(rng: &mut Rng) -> Option<Self> {
        if rng.chance(0.35) { None } else { Some(Cond(rng.below(3) as u8)) }
    }
    fn show(c: &Option<Self>) -> Option<i64> {
        c.as_ref().map(|c| c.0 as i64)
    }
}

#[derive(Clone, Debug, Serialize, Deserialize)]
#[serde(bound = "C: Serialize + DeserializeOwned")]
pub struct Op<C> {
    pub id: u32,
    pub author: char,
    pub deps: Vec<u32>,
    pub group: char,
    pub action: GroupAction<char, C>,
}

impl<C: Cx> Operation<char, u32, C> for Op<C> {
    fn id(&self) -> u32 {
        self.id
    }
    fn author(&self) -> char {
        self.author
    }
    fn dependencies(&self) -> Vec<u32> {
        self.deps.clone()
    }
    fn group_id(&self) -> char {
        self.group
    }
    fn action(&self) -> GroupAction<char, C> {
        self.action.clone()
    }
}

pub type Resolver<C> = StrongRemove<char, u32, Op<C>, C>;
pub type Crdt<C> = GroupCrdt<char, u32, Op<C>, C, Resolver<C>>;
pub type State<C> = GroupCrdtState<char, u32, Op<C>, C>;
pub type CrdtError<C> = GroupCrdtError<char, u32, Op<C>, C, Resolver<C>>;

pub fn level_u8(l: &AccessLevel) -> u8 {
    match l {
        AccessLevel::Pull => 0,
        AccessLevel::Read => 1,
        AccessLevel::Write => 2,
        AccessLevel::Manage => 3,
    }
}

pub fn level_of(n: u8) -> AccessLevel {
    match n {
        0 => AccessLevel::Pull,
        1 => AccessLevel::Read,
        2 => AccessLevel::Write,
        _ => AccessLevel::Manage,
    }
}

pub fn access<C>(level: u8, conditions: Option<C>) -> Access<C> {
    Access { conditions, level: level_of(level) }
}

/// (level, conditions) of an access value.
pub fn acc<C: Cx>(a: &Access<C>) -> (u8, Option<i64>) {
    (level_u8(&a.level), C::show(&a.conditions))
}

pub fn action_kind<C>(a: &GroupAction<char, C>) -> &'static str {
    match a {
        GroupAction::Create { .. } => "create",
        GroupAction::Add { .. } => "add",
        GroupAction::Remove { .. } => "remove",
        GroupAction::Promote { .. } => "promote",
        GroupAction::Demote { .. } => "demote",
    }
}

pub fn action_target<C>(a: &GroupAction<char, C>) -> Option<GroupMember<char>> {
    match a {
        GroupAction::Create { .. } => None,
        GroupAction::Add { member, .. }
        | GroupAction::Remove { member }
        | GroupAction::Promote { member, .. }
        | GroupAction::Demote { member, .. } => Some(*member),
    }
}

pub fn op_json<C: Cx>(op: &Op<C>) -> Value {
    serde_json::to_value(op).unwrap_or(Value::Null)
}

// ---------------------------------------------------------------------------------------------
// Processing
// ---------------------------------------------------------------------------------------------

pub enum Outcome<C: Cx> {
    Ok(State<C>),
    /// Error class (variant names only, stable across seeds).
    Err(String),
    Panic(String),
}

impl<C: Cx> Outcome<C> {
    pub fn label(&self) -> String {
        match self {
            Outcome::Ok(_) => "ok".into(),
            Outcome::Err(e) => format!("err:{e}"),
            Outcome::Panic(p) => format!("panic:{p}"),
        }
    }
}

/// Error class = variant names of the error's `Debug` text (stable across seeds, and independent
/// of the exact set of variants so that the harness also builds against patched trees).
pub fn error_kind<C: Cx>(e: &CrdtError<C>) -> String {
    let text = format!("{e:?}");
    let outer: String = text.chars().take_while(|c| c.is_alphanumeric()).collect();
    if outer == "StateChangeError" {
        // StateChangeError(<op id>, <Variant>(..))
        let inner: String = text
            .split_once(", ")
            .map(|(_, rest)| rest.chars().take_while(|c| c.is_alphanumeric()).collect())
            .unwrap_or_default();
        format!("StateChange:{inner}")
    } else {
        outer
    }
}

/// Run the real `GroupCrdt::process` on a clone of `y`.
pub fn process<C: Cx>(y: &State<C>, op: &Op<C>) -> Outcome<C> {
    let r = catch(AssertUnwindSafe(|| Crdt::<C>::process(y.clone(), op)));
    match r {
        Ok(Ok(y)) => Outcome::Ok(y),
        Ok(Err(e)) => Outcome::Err(error_kind::<C>(&e)),
        Err(p) => Outcome::Panic(p.chars().take(120).collect()),
    }
}

// ---------------------------------------------------------------------------------------------
// Observable answers
// ---------------------------------------------------------------------------------------------

/// One listed member: (is_group, id, level, conditions).
pub type Entry = (bool, char, u8, Option<i64>);

/// Everything the membership queries answer, normalised (sorted): key = (group, query).
/// `skipped` lists groups whose transitive queries were not issued because the replica's merged
/// group graph contains a nesting cycle on which `members_inner` (no visited set, depth cap 1000)
/// would perform the stated number (log2) of recursive visits.
#[derive(Clone, Debug, PartialEq, Eq, Hash, PartialOrd, Ord, Serialize)]
pub struct Answers(pub BTreeMap<(char, &'static str), Vec<Entry>>, pub BTreeMap<char, u32>);

pub const Q_ROOT: &str = "root_members";
pub const Q_MEMBERS: &str = "members";
pub const Q_GROUPS: &str = "groups";

/// Transitive queries predicted to need more recursive visits than this are not issued.
pub const VISIT_BUDGET: f64 = 200_000.0;
/// Depth cap of `members_inner` in crdt/mod.rs (only used to predict the amount of recursion).
const MAX_NESTED_DEPTH: usize = 1000;

pub fn root_members<C: Cx>(y: &State<C>, g: char) -> Vec<Entry> {
    let mut v: Vec<Entry> = y
        .root_members(g)
        .into_iter()
        .map(|(m, a)| {
            let (l, c) = acc(&a);
            (m.is_group(), m.id(), l, c)
        })
        .collect();
    v.sort();
    v
}

/// Number of `members_inner` invocations a transitive query on `g` performs, computed from the
/// direct memberships alone: visits(g, d) = 1 + sum over listed sub-groups h of visits(h, d + 1),
/// cut at the depth cap. Polynomial to compute, exponential in value when nesting cycles branch.
pub fn predicted_visits(adj: &BTreeMap<char, Vec<char>>, g: char) -> f64 {
    // Cheap exit: no cycle reachable from g.
    fn cyclic(adj: &BTreeMap<char, Vec<char>>, g: char, path: &mut Vec<char>) -> bool {
        if path.contains(&g) {
            return true;
        }
        path.push(g);
        let r = adj.get(&g).map(|hs| hs.iter().any(|h| cyclic(adj, *h, path))).unwrap_or(false);
        path.pop();
        r
    }
    if !cyclic(adj, g, &mut Vec::new()) {
        return 1.0;
    }
    let nodes: Vec<char> = adj.keys().cloned().collect();
    let mut next: BTreeMap<char, f64> = nodes.iter().map(|n| (*n, 1.0)).collect();
    for _ in 0..MAX_NESTED_DEPTH {
        let mut cur = BTreeMap::new();
        for n in &nodes {
            let s: f64 = adj[n].iter().map(|h| next.get(h).cloned().unwrap_or(1.0)).sum();
            cur.insert(*n, 1.0 + s);
        }
        next = cur;
    }
    next.get(&g).cloned().unwrap_or(1.0)
}

/// Result of the one real probe per process that backs the recursion prediction: the first time
/// a transitive query is predicted to exceed the budget it is issued on a helper thread and
/// awaited for 2 s. `Some(true)` (it returned: the prediction does not hold for this tree, e.g.
/// the traversal was repaired) makes all later queries be issued normally.
pub static BLOWUP_PROBE_RETURNED: std::sync::OnceLock<bool> = std::sync::OnceLock::new();

fn probe_blowup<C: Cx>(y: &State<C>, g: char) -> bool {
    *BLOWUP_PROBE_RETURNED.get_or_init(|| {
        if cfg!(miri) {
            return false;
        }
        let y = y.clone();
        let (tx, rx) = std::sync::mpsc::channel();
        std::thread::spawn(move || {
            let n = y.members(g).len();
            let _ = tx.send(n);
        });
        rx.recv_timeout(std::time::Duration::from_secs(2)).is_ok()
    })
}

pub fn answers<C: Cx>(y: &State<C>, groups: &[char]) -> Answers {
    let mut out = BTreeMap::new();
    let mut skipped = BTreeMap::new();
    let mut adj: BTreeMap<char, Vec<char>> = BTreeMap::new();
    for &g in groups {
        let r = root_members(y, g);
        adj.insert(g, r.iter().filter(|e| e.0).map(|e| e.1).collect());
        out.insert((g, Q_ROOT), r);
    }
    for &g in groups {
        let visits = predicted_visits(&adj, g);
        if visits > VISIT_BUDGET && !probe_blowup(y, g) {
            skipped.insert(g, visits.log2().min(4000.0) as u32);
            continue;
        }
        let mut v: Vec<Entry> = y
            .members(g)
            .into_iter()
            .map(|(id, a)| {
                let (l, c) = acc(&a);
                (false, id, l, c)
            })
            .collect();
        v.sort();
        out.insert((g, Q_MEMBERS), v);
        let mut v: Vec<Entry> = y
            .groups(g)
            .into_iter()
            .map(|(id, a)| {
                let (l, c) = acc(&a);
                (true, id, l, c)
            })
            .collect();
        v.sort();
        out.insert((g, Q_GROUPS), v);
    }
    Answers(out, skipped)
}

pub fn answers_json(a: &Answers) -> Value {
    let mut m = serde_json::Map::new();
    for ((g, q), v) in &a.0 {
        let items: Vec<String> = v
            .iter()
            .map(|(grp, id, l, c)| {
                format!(
                    "{}{}:{}{}",
                    if *grp { "G" } else { "" },
                    id,
                    ["pull", "read", "write", "manage"][*l as usize],
                    match c {
                        Some(c) => format!("[{c}]"),
                        None => String::new(),
                    }
                )
            })
            .collect();
        m.insert(format!("{q}({g})"), json!(items.join(" ")));
    }
    for (g, log2) in &a.1 {
        m.insert(format!("transitive queries of {g} not issued"), json!(format!("predicted ~2^{log2} recursive visits")));
    }
    Value::Object(m)
}

pub fn sorted_heads<C: Cx>(y: &State<C>) -> Vec<u32> {
    let mut h = y.heads();
    h.sort();
    h
}

/// What differs between two answers.
#[derive(Clone, Copy, Debug, PartialEq, Eq, PartialOrd, Ord)]
pub enum DiffKind {
    ConditionsOnly,
    Level,
    Membership,
}

impl DiffKind {
    pub fn tag(&self) -> &'static str {
        match self {
            DiffKind::ConditionsOnly => "conditions-only",
            DiffKind::Level => "level",
            DiffKind::Membership => "membership",
        }
    }
}

#[derive(Clone, Debug)]
pub struct Diff {
    pub group: char,
    pub query: &'static str,
    pub member: (bool, char),
    pub kind: DiffKind,
}

/// All differences between two answers (one entry per (group, query, member)).
pub fn diff_answers(a: &Answers, b: &Answers) -> Vec<Diff> {
    let mut out = Vec::new();
    for (key, va) in &a.0 {
        let vb = b.0.get(key).cloned().unwrap_or_default();
        if *va == vb {
            continue;
        }
        let ma: BTreeMap<(bool, char), (u8, Option<i64>)> =
            va.iter().map(|e| ((e.0, e.1), (e.2, e.3))).collect();
        let mb: BTreeMap<(bool, char), (u8, Option<i64>)> =
            vb.iter().map(|e| ((e.0, e.1), (e.2, e.3))).collect();
        let keys: BTreeSet<_> = ma.keys().chain(mb.keys()).cloned().collect();
        for k in keys {
            let kind = match (ma.get(&k), mb.get(&k)) {
                (Some(x), Some(y)) if x == y => continue,
                (Some(x), Some(y)) if x.0 == y.0 => DiffKind::ConditionsOnly,
                (Some(_), Some(_)) => DiffKind::Level,
                _ => DiffKind::Membership,
            };
            out.push(Diff { group: key.0, query: key.1, member: k, kind });
        }
    }
    out
}

// ---------------------------------------------------------------------------------------------
// Looking into stored member states (counters) through the crate's serde feature
// ---------------------------------------------------------------------------------------------

#[derive(Clone, Debug, PartialEq, Eq, PartialOrd, Ord, Serialize, Deserialize)]
#[serde(bound = "C: Serialize + DeserializeOwned")]
pub struct MirrorAccess<C> {
    pub conditions: Option<C>,
    pub level: AccessLevel,
}

#[derive(Clone, Debug, PartialEq, Eq, PartialOrd, Ord, Serialize, Deserialize)]
#[serde(bound = "C: Serialize + DeserializeOwned")]
pub struct MirrorMember<C> {
    pub member_counter: usize,
    pub access: MirrorAccess<C>,
    pub access_counter: usize,
}

/// (member_counter, access_counter, level, conditions) of every member entry stored for
/// `(group, member)` in any per-operation state of the replica.
pub fn stored_entries<C: Cx>(
    y: &State<C>,
    group: char,
    member: GroupMember<char>,
) -> BTreeSet<(usize, usize, u8, Option<i64>)> {
    let mut out = BTreeSet::new();
    for states in y.inner.states.values() {
        if let Some(gs) = states.get(&group) {
            for (m, e) in member_entries::<GroupMember<char>, C>(gs) {
                if m == member {
                    out.insert((
                        e.member_counter,
                        e.access_counter,
                        level_u8(&e.access.level),
                        C::show(&e.access.conditions),
                    ));
                }
            }
        }
    }
    out
}

/// All (id, member state) pairs of a membership state, read through serde (fields are private).
pub fn member_entries<ID, C>(s: &GroupMembersState<ID, C>) -> Vec<(ID, MirrorMember<C>)>
where
    ID: Clone + Eq + Hash + Ord + Serialize + DeserializeOwned,
    C: Cx,
{
    // The map is keyed by a non-string id, so go through CBOR (JSON wants string keys).
    #[derive(Deserialize)]
    #[serde(bound = "ID: DeserializeOwned + Ord, C: Serialize + DeserializeOwned")]
    struct M<ID: Ord, C> {
        members: BTreeMap<ID, MirrorMember<C>>,
    }
    let mut buf = Vec::new();
    ciborium::into_writer(s, &mut buf).expect("serialise member state");
    let m: M<ID, C> = ciborium::from_reader(&buf[..]).expect("deserialise member state mirror");
    m.members.into_iter().collect()
}

/// True when `(group, member)` has, somewhere in the replica's state map, two entries with the
/// same (member_counter, access_counter) but different accesses of which at least one carries
/// conditions — the shape on which `state::merge` falls back to comparing `Access` values.
pub fn has_equal_counter_tie<C: Cx>(y: &State<C>, group: char, member: GroupMember<char>) -> bool {
    let e = stored_entries(y, group, member);
    let v: Vec<_> = e.into_iter().collect();
    for i in 0..v.len() {
        for j in (i + 1)..v.len() {
            if v[i].0 == v[j].0
                && v[i].1 == v[j].1
                && (v[i].2, v[i].3) != (v[j].2, v[j].3)
                && (v[i].3.is_some() || v[j].3.is_some())
            {
                return true;
            }
        }
    }
    false
}

/// True when any (group, member) of the replica has an equal-counter tie (see above). A tie on
/// one member makes that member's level order-dependent, and through it the validity of every
/// later operation that member authored.
pub fn has_any_equal_counter_tie<C: Cx>(y: &State<C>) -> bool {
    let mut keys: BTreeSet<(char, GroupMember<char>)> = BTreeSet::new();
    for states in y.inner.states.values() {
        for (g, gs) in states {
            for (m, _) in member_entries::<GroupMember<char>, C>(gs) {
                keys.insert((*g, m));
            }
        }
    }
    keys.into_iter().any(|(g, m)| has_equal_counter_tie(y, g, m))
}
