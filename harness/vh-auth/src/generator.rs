//! Generator of concurrent group histories, adapted from the repository's own fuzz target
//! (`fuzz/fuzz_targets/auth_group.rs`): actors with their own replica, rounds in which the actors
//! are split into partitions that only sync among themselves, every actor suggesting actions that
//! are valid in its own view, nested groups. Extensions: access conditions, separate group ids,
//! self-removal by non-managers, and (for C33) "hostile" operations: arbitrary actions by members,
//! ex-members and strangers, optionally declared on stale dependencies.

use std::collections::{BTreeMap, BTreeSet};

use p2panda_auth::group::{GroupAction, GroupMember};
use vh_common::Rng;

use crate::model::*;

pub const ROOT: char = '0';
pub const UNKNOWN_GROUP: char = 'Z';

#[derive(Clone, Debug)]
pub struct Params {
    pub actors: usize,
    pub strangers: usize,
    pub subgroups: usize,
    pub rounds: usize,
    pub steps: usize,
    pub branches: u64,
    pub hostile_p: f64,
    /// Probability that a manager's step is the pattern "remove a member, re-add it with a
    /// different access"; with hostile steps enabled the re-added member then acts on its own.
    pub readd_p: f64,
}

impl Params {
    pub fn random(rng: &mut Rng, hostile_p: f64, small: bool) -> Params {
        if small {
            Params {
                actors: rng.range(3, 4) as usize,
                strangers: if hostile_p > 0.0 { 1 } else { 0 },
                subgroups: rng.range(0, 1) as usize,
                rounds: 2,
                steps: rng.range(1, 2) as usize,
                branches: 2,
                hostile_p,
                readd_p: 0.15,
            }
        } else {
            Params {
                actors: rng.range(3, 7) as usize,
                strangers: if hostile_p > 0.0 { rng.range(1, 2) as usize } else { rng.range(0, 1) as usize },
                subgroups: rng.range(0, 3) as usize,
                rounds: rng.range(2, 4) as usize,
                steps: rng.range(1, 3) as usize,
                // Every fourth hostile history is linear (one partition, everybody in sync).
                branches: if hostile_p > 0.0 && rng.chance(0.25) { 1 } else { rng.range(2, 4) },
                hostile_p,
                readd_p: 0.15,
            }
        }
    }
}

pub struct Actor<C: Cx> {
    pub id: char,
    pub y: State<C>,
    /// Indices into `History::ops` this replica processed successfully.
    pub seen: BTreeSet<usize>,
    /// Heads of this replica at earlier points (material for stale dependencies).
    pub snapshots: Vec<Vec<u32>>,
    /// The replica refused an operation its author accepted; it no longer takes part.
    pub dead: bool,
}

/// One `process` call made while generating (the C33 monitor judges these).
pub struct ProcessEvent<C: Cx> {
    pub replica: char,
    pub op: Op<C>,
    /// Index in `History::ops` if the operation joined the history.
    pub index: Option<usize>,
    pub hostile: bool,
    pub stale_deps: bool,
    pub outcome: String,
    /// For calls that did not return `Ok`: were all observable answers and the canonical dump of
    /// the retained replica identical before and after the call?
    pub unchanged_after_reject: Option<bool>,
}

pub struct History<C: Cx> {
    pub params: Params,
    /// Accepted operations in creation order (a causal order).
    pub ops: Vec<Op<C>>,
    pub groups: Vec<char>,
    pub individuals: Vec<char>,
    pub actors: Vec<Actor<C>>,
    pub events: Vec<ProcessEvent<C>>,
    pub dropped_suggestions: BTreeMap<String, u64>,
    /// An accepted operation was refused by another replica during generation.
    pub disagreements: Vec<(char, u32, String)>,
    /// Remove + re-add-with-other-access patterns published / forced actions of re-added members.
    pub readd_patterns: u64,
    pub readd_then_act: u64,
}

impl<C: Cx> History<C> {
    pub fn index_of(&self) -> BTreeMap<u32, usize> {
        self.ops.iter().enumerate().map(|(i, o)| (o.id, i)).collect()
    }

    /// Transitive dependencies of `op` as indices into `ops`, ascending (= a causal order).
    pub fn ancestors(&self, op: &Op<C>) -> Vec<usize> {
        let idx = self.index_of();
        let mut seen = BTreeSet::new();
        let mut stack: Vec<u32> = op.deps.clone();
        while let Some(d) = stack.pop() {
            if let Some(&i) = idx.get(&d) {
                if seen.insert(i) {
                    stack.extend(self.ops[i].deps.iter().cloned());
                }
            }
        }
        seen.into_iter().collect()
    }

    /// Number of pairs of concurrent operations (neither is an ancestor of the other).
    pub fn concurrent_pairs(&self) -> usize {
        let n = self.ops.len();
        let anc: Vec<BTreeSet<usize>> =
            self.ops.iter().map(|o| self.ancestors(o).into_iter().collect()).collect();
        let mut c = 0;
        for i in 0..n {
            for j in (i + 1)..n {
                if !anc[j].contains(&i) && !anc[i].contains(&j) {
                    c += 1;
                }
            }
        }
        c
    }
}

fn random_access<C: Cx>(rng: &mut Rng, max_level: u8) -> p2panda_auth::Access<C> {
    access(rng.below(max_level as u64 + 1) as u8, C::generate(rng))
}

struct Gen<'a, C: Cx> {
    rng: &'a mut Rng,
    h: History<C>,
    ids: Vec<u32>,
    /// Members that were just removed and re-added with another access: at their next step they
    /// author a membership operation in that group whatever their rights are.
    primed: BTreeMap<char, char>,
}

impl<'a, C: Cx> Gen<'a, C> {
    fn next_id(&mut self) -> u32 {
        self.ids.pop().expect("enough ids")
    }

    /// Process `op` on replica `pos`; on success the replica advances.
    fn deliver(&mut self, pos: usize, op: &Op<C>, index: Option<usize>, hostile: bool, stale: bool) -> Outcome<C> {
        let check_unchanged = hostile;
        let before = if check_unchanged {
            Some((
                answers(&self.h.actors[pos].y, &self.h.groups),
                sorted_heads(&self.h.actors[pos].y),
                dump(&self.h.actors[pos].y),
            ))
        } else {
            None
        };
        let out = process(&self.h.actors[pos].y, op);
        let mut unchanged = None;
        if !matches!(out, Outcome::Ok(_)) {
            if let Some((a, hd, d)) = before {
                let y = &self.h.actors[pos].y;
                // Answers are compared on condition-free histories only: with conditions the
                // answers of one unchanged replica are themselves unstable (C31), the canonical
                // dump of the stored state is not.
                let same_answers = C::WITH || answers(y, &self.h.groups) == a;
                unchanged = Some(same_answers && sorted_heads(y) == hd && dump(y) == d);
            }
        }
        self.h.events.push(ProcessEvent {
            replica: self.h.actors[pos].id,
            op: op.clone(),
            index,
            hostile,
            stale_deps: stale,
            outcome: out.label(),
            unchanged_after_reject: unchanged,
        });
        out
    }

    /// Author processes its own new operation; if accepted it joins the history and is delivered
    /// to the other members of the partition.
    fn publish(&mut self, author_pos: usize, op: Op<C>, partition: &[usize], hostile: bool, stale: bool) -> bool {
        let index = self.h.ops.len();
        match self.deliver(author_pos, &op, Some(index), hostile, stale) {
            Outcome::Ok(y) => {
                let a = &mut self.h.actors[author_pos];
                a.y = y;
                a.seen.insert(index);
                let hd = sorted_heads(&a.y);
                a.snapshots.push(hd);
                self.h.ops.push(op.clone());
                for &p in partition {
                    if p != author_pos && !self.h.actors[p].dead {
                        self.deliver_accepted(p, index);
                    }
                }
                true
            }
            other => {
                // Fix up the event: it did not join the history.
                if let Some(e) = self.h.events.last_mut() {
                    e.index = None;
                }
                *self.h.dropped_suggestions.entry(other.label()).or_insert(0) += 1;
                if hostile {
                    // Let one other replica of the partition judge the rejected operation too.
                    let others: Vec<usize> = partition
                        .iter()
                        .cloned()
                        .filter(|p| *p != author_pos && !self.h.actors[*p].dead)
                        .collect();
                    if !others.is_empty() {
                        let p = *self.rng.pick(&others);
                        // Only if that replica knows all dependencies (causal delivery contract).
                        let known: BTreeSet<u32> =
                            self.h.actors[p].seen.iter().map(|i| self.h.ops[*i].id).collect();
                        if op.deps.iter().all(|d| known.contains(d)) {
                            let _ = self.deliver(p, &op, None, hostile, stale);
                        }
                    }
                }
                false
            }
        }
    }

    fn deliver_accepted(&mut self, pos: usize, index: usize) {
        if self.h.actors[pos].seen.contains(&index) {
            return;
        }
        let op = self.h.ops[index].clone();
        match self.deliver(pos, &op, Some(index), false, false) {
            Outcome::Ok(y) => {
                let a = &mut self.h.actors[pos];
                a.y = y;
                a.seen.insert(index);
            }
            other => {
                let id = self.h.actors[pos].id;
                self.h.disagreements.push((id, op.id, other.label()));
                self.h.actors[pos].dead = true;
            }
        }
    }

    fn sync(&mut self, partition: &[usize]) {
        let mut all: BTreeSet<usize> = BTreeSet::new();
        for &p in partition {
            if !self.h.actors[p].dead {
                all.extend(self.h.actors[p].seen.iter().cloned());
            }
        }
        for &p in partition {
            for &i in &all {
                if self.h.actors[p].dead {
                    break;
                }
                self.deliver_accepted(p, i);
            }
        }
    }

    /// Pick a listed member, biased towards the first entries so that concurrent branches often
    /// act on the same target.
    fn pick_listed(&mut self, listed: &[Entry]) -> Entry {
        if self.rng.chance(0.5) {
            listed[self.rng.usize_below(listed.len().min(2))]
        } else {
            *self.rng.pick(listed)
        }
    }

    fn all_members(&self) -> Vec<GroupMember<char>> {
        let mut v: Vec<GroupMember<char>> =
            self.h.individuals.iter().map(|i| GroupMember::Individual(*i)).collect();
        v.extend(self.h.groups.iter().filter(|g| **g != ROOT).map(|g| GroupMember::Group(*g)));
        v
    }

    /// An action that is valid in the author's own view (as the fuzz target's `suggest_valid`).
    fn suggest_valid(&mut self, pos: usize, group: char) -> Option<GroupAction<char, C>> {
        let me = self.h.actors[pos].id;
        let listed = root_members(&self.h.actors[pos].y, group);
        let mine = listed.iter().find(|e| !e.0 && e.1 == me);
        let manager = matches!(mine, Some(e) if e.2 == 3);
        if !manager {
            if mine.is_some() && self.rng.chance(0.15) {
                return Some(GroupAction::Remove { member: GroupMember::Individual(me) });
            }
            return None;
        }
        let mut options: Vec<GroupAction<char, C>> = Vec::new();
        // Add a non-member.
        let candidates: Vec<GroupMember<char>> = self
            .all_members()
            .into_iter()
            .filter(|m| m.id() != group && m.id() != me)
            .filter(|m| !listed.iter().any(|e| e.0 == m.is_group() && e.1 == m.id()))
            .collect();
        if !candidates.is_empty() {
            let m = *self.rng.pick(&candidates);
            let a = random_access::<C>(self.rng, if m.is_group() { 2 } else { 3 });
            options.push(GroupAction::Add { member: m, access: a });
        }
        // Promote / demote / remove a listed member.
        if !listed.is_empty() {
            let e = self.pick_listed(&listed);
            let m = if e.0 { GroupMember::Group(e.1) } else { GroupMember::Individual(e.1) };
            let top = if e.0 { 2 } else { 3 };
            if e.2 < top {
                let l = self.rng.range(e.2 as u64 + 1, top as u64) as u8;
                options.push(GroupAction::Promote { member: m, access: access(l, C::generate(self.rng)) });
            }
            let e = self.pick_listed(&listed);
            let m = if e.0 { GroupMember::Group(e.1) } else { GroupMember::Individual(e.1) };
            if e.2 > 0 {
                let l = self.rng.below(e.2 as u64) as u8;
                options.push(GroupAction::Demote { member: m, access: access(l, C::generate(self.rng)) });
            }
            if C::WITH && self.rng.chance(0.3) {
                // Same level, other conditions.
                let e = *self.rng.pick(&listed);
                let m = if e.0 { GroupMember::Group(e.1) } else { GroupMember::Individual(e.1) };
                let c = C::generate(self.rng);
                if C::show(&c) != e.3 {
                    if self.rng.bool() {
                        options.push(GroupAction::Promote { member: m, access: access(e.2, c) });
                    } else {
                        options.push(GroupAction::Demote { member: m, access: access(e.2, c) });
                    }
                }
            }
            let e = *self.rng.pick(&listed);
            let m = if e.0 { GroupMember::Group(e.1) } else { GroupMember::Individual(e.1) };
            options.push(GroupAction::Remove { member: m });
        }
        if options.is_empty() {
            None
        } else {
            let i = self.rng.usize_below(options.len());
            Some(options.swap_remove(i))
        }
    }

    /// An arbitrary action, no regard for the author's rights or the target's state.
    fn suggest_hostile(&mut self, pos: usize) -> (char, GroupAction<char, C>) {
        let me = self.h.actors[pos].id;
        let group = if self.rng.chance(0.03) { UNKNOWN_GROUP } else { *self.rng.pick(&self.h.groups) };
        let all = self.all_members();
        let target = if self.rng.chance(0.2) { GroupMember::Individual(me) } else { *self.rng.pick(&all) };
        let top = if target.is_group() && !self.rng.chance(0.1) { 2 } else { 3 };
        let a = random_access::<C>(self.rng, top);
        let action = match self.rng.below(20) {
            0 => {
                // (Re-)create a group with the author as manager.
                let mut init = vec![(GroupMember::Individual(me), access(3, None))];
                if self.rng.bool() {
                    init.push((target, a));
                }
                GroupAction::Create { initial_members: init }
            }
            1..=5 => GroupAction::Add { member: target, access: a },
            6..=10 => GroupAction::Remove { member: target },
            11..=15 => GroupAction::Promote { member: target, access: a },
            _ => GroupAction::Demote { member: target, access: a },
        };
        (group, action)
    }

    fn step(&mut self, pos: usize, partition: &[usize]) {
        if self.h.actors[pos].dead {
            return;
        }
        let me = self.h.actors[pos].id;
        // A member that was removed and re-added with another access acts now.
        if let Some(group) = self.primed.remove(&me) {
            let listed = root_members(&self.h.actors[pos].y, group);
            let others: Vec<Entry> = listed.iter().cloned().filter(|e| e.1 != me).collect();
            let outsiders: Vec<char> = self
                .h
                .individuals
                .iter()
                .cloned()
                .filter(|i| *i != me && !listed.iter().any(|e| !e.0 && e.1 == *i))
                .collect();
            let action = if !outsiders.is_empty() && (others.is_empty() || self.rng.bool()) {
                let a = random_access::<C>(self.rng, 3);
                GroupAction::Add { member: GroupMember::Individual(*self.rng.pick(&outsiders)), access: a }
            } else if !others.is_empty() {
                let e = *self.rng.pick(&others);
                GroupAction::Remove { member: if e.0 { GroupMember::Group(e.1) } else { GroupMember::Individual(e.1) } }
            } else {
                return;
            };
            let mut deps = sorted_heads(&self.h.actors[pos].y);
            self.rng.shuffle(&mut deps);
            let id = self.next_id();
            self.h.readd_then_act += 1;
            self.publish(pos, Op { id, author: me, deps, group, action }, partition, true, false);
            return;
        }
        // Pattern: a manager removes a member and re-adds it with a different access.
        if self.rng.chance(self.h.params.readd_p) && self.h.individuals[..self.h.params.actors].contains(&me) {
            let managed: Vec<char> = self
                .h
                .groups
                .iter()
                .cloned()
                .filter(|g| root_members(&self.h.actors[pos].y, *g).iter().any(|e| !e.0 && e.1 == me && e.2 == 3))
                .collect();
            if !managed.is_empty() {
                let group = *self.rng.pick(&managed);
                let victims: Vec<Entry> = root_members(&self.h.actors[pos].y, group)
                    .into_iter()
                    .filter(|e| !e.0 && e.1 != me)
                    .collect();
                if !victims.is_empty() {
                    // Prefer managers: re-adding a former manager with less is the escalation case.
                    let mgrs: Vec<Entry> = victims.iter().cloned().filter(|e| e.2 == 3).collect();
                    let v = if !mgrs.is_empty() && self.rng.chance(0.7) { *self.rng.pick(&mgrs) } else { *self.rng.pick(&victims) };
                    let m = GroupMember::Individual(v.1);
                    let mut level = self.rng.below(4) as u8;
                    if level == v.2 {
                        level = (level + 1 + self.rng.below(3) as u8) % 4;
                    }
                    let deps = sorted_heads(&self.h.actors[pos].y);
                    let id = self.next_id();
                    if self.publish(pos, Op { id, author: me, deps, group, action: GroupAction::Remove { member: m } }, partition, false, false) {
                        let deps = sorted_heads(&self.h.actors[pos].y);
                        let id = self.next_id();
                        let a = access(level, C::generate(self.rng));
                        if self.publish(pos, Op { id, author: me, deps, group, action: GroupAction::Add { member: m, access: a } }, partition, false, false) {
                            self.h.readd_patterns += 1;
                            if self.h.params.hostile_p > 0.0 {
                                self.primed.insert(v.1, group);
                            }
                        }
                    }
                    return;
                }
            }
        }
        let hostile = self.h.params.hostile_p > 0.0 && self.rng.chance(self.h.params.hostile_p);
        let (group, action) = if hostile {
            self.suggest_hostile(pos)
        } else {
            // Strangers only ever act through hostile operations.
            if !self.h.individuals[..self.h.params.actors].contains(&me) {
                return;
            }
            // Prefer groups the actor manages in its own view.
            let managed: Vec<char> = self
                .h
                .groups
                .iter()
                .cloned()
                .filter(|g| {
                    root_members(&self.h.actors[pos].y, *g).iter().any(|e| !e.0 && e.1 == me && e.2 == 3)
                })
                .collect();
            let group = if !managed.is_empty() && self.rng.chance(0.85) {
                *self.rng.pick(&managed)
            } else {
                *self.rng.pick(&self.h.groups)
            };
            match self.suggest_valid(pos, group) {
                Some(a) => (group, a),
                None => return,
            }
        };
        let mut deps = sorted_heads(&self.h.actors[pos].y);
        let mut stale = false;
        if hostile && self.rng.chance(0.3) && !self.h.actors[pos].snapshots.is_empty() {
            let s = self.rng.pick(&self.h.actors[pos].snapshots).clone();
            if s != deps {
                deps = s;
                stale = true;
            }
        }
        self.rng.shuffle(&mut deps);
        let id = if hostile && self.rng.chance(0.02) && !self.h.actors[pos].seen.is_empty() {
            // Re-use the id of an operation the author already processed (must be refused).
            let seen: Vec<usize> = self.h.actors[pos].seen.iter().cloned().collect();
            self.h.ops[*self.rng.pick(&seen)].id
        } else {
            self.next_id()
        };
        let op = Op { id, author: me, deps, group, action };
        self.publish(pos, op, partition, hostile, stale);
    }
}

/// Canonical dump of the replica's stored state (sorted), for "unchanged" comparisons.
pub fn dump<C: Cx>(y: &State<C>) -> String {
    let mut ops: Vec<u32> = y.inner.operations.keys().cloned().collect();
    ops.sort();
    let mut ignore: Vec<u32> = y.inner.ignore.iter().cloned().collect();
    ignore.sort();
    let mut mutual: Vec<u32> = y.inner.mutual_removes.iter().cloned().collect();
    mutual.sort();
    let mut edges: Vec<(u32, u32)> = y.inner.graph.all_edges().map(|(a, b, _)| (a, b)).collect();
    edges.sort();
    let mut nodes: Vec<u32> = y.inner.graph.nodes().collect();
    nodes.sort();
    let mut states = BTreeMap::new();
    for (op, gs) in &y.inner.states {
        let mut per_group = BTreeMap::new();
        for (g, s) in gs {
            let mut v = member_entries::<GroupMember<char>, C>(s);
            v.sort();
            per_group.insert(*g, v);
        }
        states.insert(*op, per_group);
    }
    format!("{ops:?}|{ignore:?}|{mutual:?}|{nodes:?}|{edges:?}|{states:?}")
}

pub fn generate<C: Cx>(rng: &mut Rng, params: Params) -> History<C> {
    let n_ind = params.actors + params.strangers;
    let individuals: Vec<char> = (0..n_ind).map(|i| (b'A' + i as u8) as char).collect();
    let mut groups = vec![ROOT];
    for i in 0..params.subgroups {
        groups.push((b'1' + i as u8) as char);
    }
    // Operation ids: distinct, in random order relative to creation.
    let mut ids: Vec<u32> = (1..=400u32).collect();
    rng.shuffle(&mut ids);

    let actors = individuals
        .iter()
        .map(|id| Actor { id: *id, y: State::<C>::new(), seen: BTreeSet::new(), snapshots: vec![], dead: false })
        .collect();
    let h = History {
        params: params.clone(),
        ops: vec![],
        groups,
        individuals,
        actors,
        events: vec![],
        dropped_suggestions: BTreeMap::new(),
        disagreements: vec![],
        readd_patterns: 0,
        readd_then_act: 0,
    };
    let mut g = Gen { rng, h, ids, primed: BTreeMap::new() };
    let everyone: Vec<usize> = (0..n_ind).collect();

    // Root group: created by actor 0 with a random set of initial individuals.
    let creator = g.h.individuals[0];
    let mut init: Vec<(GroupMember<char>, p2panda_auth::Access<C>)> = Vec::new();
    for i in 1..params.actors {
        if g.rng.chance(0.6) {
            init.push((GroupMember::Individual(g.h.individuals[i]), random_access::<C>(g.rng, 3)));
        }
    }
    init.push((GroupMember::Individual(creator), access(3, None)));
    let id = g.next_id();
    g.publish(
        0,
        Op { id, author: creator, deps: vec![], group: ROOT, action: GroupAction::Create { initial_members: init } },
        &[0],
        false,
        false,
    );
    // Sub-groups: created concurrently by random actors.
    for gi in 1..g.h.groups.len() {
        let owner_pos = g.rng.usize_below(params.actors);
        let owner = g.h.individuals[owner_pos];
        let mut init = vec![(GroupMember::Individual(owner), access(3, None))];
        for i in 0..params.actors {
            if i != owner_pos && g.rng.chance(0.3) {
                init.push((GroupMember::Individual(g.h.individuals[i]), random_access::<C>(g.rng, 3)));
            }
        }
        let deps = sorted_heads(&g.h.actors[owner_pos].y);
        let id = g.next_id();
        let group = g.h.groups[gi];
        g.publish(
            owner_pos,
            Op { id, author: owner, deps, group, action: GroupAction::Create { initial_members: init } },
            &[owner_pos],
            false,
            false,
        );
    }
    g.sync(&everyone);

    for _ in 0..params.rounds {
        let mut partitions: BTreeMap<u64, Vec<usize>> = BTreeMap::new();
        for p in 0..n_ind {
            partitions.entry(g.rng.below(params.branches)).or_default().push(p);
        }
        let parts: Vec<Vec<usize>> = partitions.into_values().collect();
        for part in &parts {
            g.sync(part);
        }
        for part in &parts {
            let steps = g.rng.range(1, params.steps as u64);
            for _ in 0..steps {
                for &p in part {
                    g.step(p, part);
                }
            }
        }
    }
    g.h
}

/// A random causal delivery order of `ops` (indices): repeatedly pick a random ready operation.
pub fn random_causal_order<C: Cx>(ops: &[Op<C>], rng: &mut Rng) -> Vec<usize> {
    let idx: BTreeMap<u32, usize> = ops.iter().enumerate().map(|(i, o)| (o.id, i)).collect();
    let mut done = vec![false; ops.len()];
    let mut order = Vec::with_capacity(ops.len());
    // Vary the picking policy: uniform, newest-first or oldest-first bias.
    let policy = rng.below(3);
    while order.len() < ops.len() {
        let ready: Vec<usize> = (0..ops.len())
            .filter(|i| !done[*i])
            .filter(|i| ops[*i].deps.iter().all(|d| idx.get(d).map(|j| done[*j]).unwrap_or(true)))
            .collect();
        let pick = match policy {
            0 => *rng.pick(&ready),
            1 => {
                if rng.chance(0.7) { *ready.last().unwrap() } else { *rng.pick(&ready) }
            }
            _ => {
                if rng.chance(0.7) { ready[0] } else { *rng.pick(&ready) }
            }
        };
        done[pick] = true;
        order.push(pick);
    }
    order
}
