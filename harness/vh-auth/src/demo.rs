//! Not a check: prints the effect of one hand-written scenario (used while classifying C33).
use p2panda_auth::group::{GroupAction, GroupMember};

use crate::model::*;

pub fn run() {
    let ind = GroupMember::Individual;
    let ops: Vec<Op<()>> = vec![
        Op { id: 1, author: 'A', deps: vec![], group: '0', action: GroupAction::Create { initial_members: vec![(ind('A'), access(3, None)), (ind('M'), access(3, None)), (ind('X'), access(0, None))] } },
        Op { id: 2, author: 'M', deps: vec![1], group: '0', action: GroupAction::Promote { member: ind('X'), access: access(3, None) } },
        Op { id: 3, author: 'X', deps: vec![2], group: '0', action: GroupAction::Add { member: ind('Y'), access: access(1, None) } },
        // Stranger S, never a member: "demotes" the puller X to pull, concurrently.
        Op { id: 4, author: 'S', deps: vec![1], group: '0', action: GroupAction::Demote { member: ind('X'), access: access(0, None) } },
    ];
    let mut y = State::<()>::new();
    for op in &ops {
        match process(&y, op) {
            Outcome::Ok(n) => y = n,
            other => println!("op {} -> {}", op.id, other.label()),
        }
        println!("after op {}: {}", op.id, answers_json(&answers(&y, &['0'])));
    }
}
