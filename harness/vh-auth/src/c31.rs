//! C31 — replicas that processed the same operations report the same members and access, and one
//! replica answers the same on repeated queries.
//!
//! Oracle (from the statement): normalised (sorted) answers of `root_members`, `members` and
//! `groups` for every group are equal (a) across fresh replicas that were fed the same accepted
//! history in different causal orders and (b) across 8 repeated queries on each replica.
//! A difference is classified structurally: what differs (membership / level / conditions only)
//! and on which shape (history without any conditions; member with an equal-counter tie between
//! differing accesses carrying conditions; only the transitive queries differ; other).

use std::collections::{BTreeMap, BTreeSet};

use p2panda_auth::group::GroupMember;
use vh_common::{Args, Report, Rng, hash_of, json, quiet_panics};

use crate::generator::*;
use crate::model::*;

const REPEAT: usize = 8;

pub struct Replica<C: Cx> {
    pub order: Vec<usize>,
    pub y: State<C>,
    pub answers: Vec<Answers>,
}

/// Feed `ops` in `order` to a fresh replica. `Err((position, op id, outcome))` if refused.
pub fn replay<C: Cx>(ops: &[Op<C>], order: &[usize]) -> Result<State<C>, (usize, usize, String, State<C>)> {
    let mut y = State::<C>::new();
    for (pos, &i) in order.iter().enumerate() {
        match process(&y, &ops[i]) {
            Outcome::Ok(n) => y = n,
            other => return Err((pos, i, other.label(), y)),
        }
    }
    Ok(y)
}

/// Shape of an acceptance disagreement: does the refusing replica hold an equal-counter tie
/// (differing accesses, conditions involved) for the operation's author or target? Then whether
/// the author is a manager there depends on merge order (same root as the answer divergence).
fn refusal_cause<C: Cx>(y: &State<C>, op: &Op<C>) -> &'static str {
    let mut who = vec![GroupMember::Individual(op.author)];
    if let Some(t) = action_target(&op.action) {
        who.push(t);
    }
    if who.iter().any(|m| has_equal_counter_tie(y, op.group, *m)) {
        "equal-counters"
    } else if has_any_equal_counter_tie(y) {
        "equal-counters-elsewhere"
    } else if C::WITH {
        "other:with-conditions"
    } else {
        "without-conditions"
    }
}

fn member_of(d: &Diff) -> GroupMember<char> {
    if d.member.0 { GroupMember::Group(d.member.1) } else { GroupMember::Individual(d.member.1) }
}

/// Structural classification of a set of differences between two answers.
pub fn classify<C: Cx>(diffs: &[Diff], ya: &State<C>, yb: &State<C>, any_conditions: bool) -> (DiffKind, &'static str) {
    let root: Vec<&Diff> = diffs.iter().filter(|d| d.query == Q_ROOT).collect();
    if !any_conditions {
        let kind = diffs.iter().map(|d| d.kind).max().unwrap();
        return (kind, "without-conditions");
    }
    if root.is_empty() {
        let kind = diffs.iter().map(|d| d.kind).max().unwrap();
        return (kind, "transitive-only:with-conditions");
    }
    let kind = root.iter().map(|d| d.kind).max().unwrap();
    let all_tied = kind != DiffKind::Membership
        && root.iter().filter(|d| d.kind == kind).all(|d| {
            has_equal_counter_tie(ya, d.group, member_of(d)) || has_equal_counter_tie(yb, d.group, member_of(d))
        });
    if all_tied {
        return (kind, "equal-counters");
    }
    // A tie on another member (e.g. the author of a later operation) cascades: whether that
    // author was a manager, hence whether its operations apply, depends on merge order.
    if has_any_equal_counter_tie(ya) || has_any_equal_counter_tie(yb) {
        return (kind, "equal-counters-elsewhere");
    }
    (kind, "other")
}

fn history_has_conditions<C: Cx>(ops: &[Op<C>]) -> bool {
    use p2panda_auth::group::GroupAction as A;
    ops.iter().any(|o| match &o.action {
        A::Create { initial_members } => initial_members.iter().any(|(_, a)| a.conditions.is_some()),
        A::Add { access, .. } | A::Promote { access, .. } | A::Demote { access, .. } => access.conditions.is_some(),
        A::Remove { .. } => false,
    })
}

fn ids<C: Cx>(ops: &[Op<C>], order: &[usize]) -> Vec<u32> {
    order.iter().map(|i| ops[*i].id).collect()
}

/// Shortest creation-order prefix of the history on which two delivery orders still disagree
/// (or one order is unstable when `order_b` is `None`). Best effort: answers under conditions
/// depend on per-instance hash seeds, so each prefix is tried a few times.
fn minimise<C: Cx>(ops: &[Op<C>], groups: &[char], order_a: &[usize], order_b: Option<&[usize]>) -> Option<usize> {
    for len in 1..=ops.len() {
        let oa: Vec<usize> = order_a.iter().cloned().filter(|i| *i < len).collect();
        for _attempt in 0..3 {
            let Ok(ya) = replay(&ops[..len], &oa) else { break };
            let differ = match order_b {
                Some(ob) => {
                    let ob: Vec<usize> = ob.iter().cloned().filter(|i| *i < len).collect();
                    let Ok(yb) = replay(&ops[..len], &ob) else { break };
                    answers(&ya, groups) != answers(&yb, groups)
                }
                None => {
                    let first = answers(&ya, groups);
                    (0..REPEAT).any(|_| answers(&ya, groups) != first)
                }
            };
            if differ {
                return Some(len);
            }
        }
    }
    None
}

fn run_case<C: Cx>(args: &Args, case: u64, rep: &mut Report, sig_counts: &mut BTreeMap<String, u64>) {
    let mut rng = Rng::fork(args.seed, case);
    let small = cfg!(miri);
    let params = Params::random(&mut rng, 0.0, small);
    let h = generate::<C>(&mut rng, params.clone());
    let ops = &h.ops;
    if std::env::var("VH_TRACE").map(|v| v == "2").unwrap_or(false) {
        for o in ops {
            eprintln!("  {}", op_json(o));
        }
    }
    let any_conditions = history_has_conditions(ops);
    let base = json!({
        "seed": args.seed, "case": case, "conditions": C::NAME,
        "params": format!("{:?}", params),
        "groups": h.groups.iter().collect::<String>(),
        "individuals": h.individuals.iter().collect::<String>(),
    });
    let ops_json = || json!(ops.iter().map(op_json).collect::<Vec<_>>());

    for (replica, op, label) in &h.disagreements {
        let y = &h.actors.iter().find(|a| a.id == *replica).unwrap().y;
        let the_op = ops.iter().find(|o| o.id == *op).unwrap();
        let cause = if label.starts_with("panic") { "panic" } else { refusal_cause(y, the_op) };
        rep.violation(
            &format!("C31:acceptance-differs:{cause}"),
            format!("operation {op} was accepted by its author's replica and refused ({label}) by replica {replica} that had processed its causal past"),
            json!({"base": base, "ops": ops_json(), "replica": replica.to_string(), "op": op_json(the_op), "outcome": label,
                   "refusing_replica_processed": h.actors.iter().find(|a| a.id == *replica).unwrap().seen.iter().map(|i| ops[*i].id).collect::<Vec<_>>()}),
        );
    }

    let n_orders = rng.range(6, 12) as usize;
    let mut orders: Vec<Vec<usize>> = vec![(0..ops.len()).collect()];
    while orders.len() < n_orders {
        orders.push(random_causal_order(ops, &mut rng));
    }
    let distinct_orders: BTreeSet<&Vec<usize>> = orders.iter().collect();
    let n_distinct_orders = distinct_orders.len();

    let mut replicas: Vec<Replica<C>> = Vec::new();
    for order in &orders {
        match replay(ops, order) {
            Ok(y) => {
                let answers = (0..REPEAT).map(|_| answers(&y, &h.groups)).collect();
                replicas.push(Replica { order: order.clone(), y, answers });
            }
            Err((pos, i, label, y)) => {
                let cause = if label.starts_with("panic") { "panic" } else { refusal_cause(&y, &ops[i]) };
                rep.violation(
                    &format!("C31:acceptance-differs:{cause}"),
                    format!("a fresh replica fed the accepted history in a causal order did not accept operation {} at position {pos}: {label}", ops[i].id),
                    json!({"base": base, "ops": ops_json(), "order": ids(ops, order), "op": op_json(&ops[i]), "outcome": label}),
                );
            }
        }
    }
    rep.bump("replicas", replicas.len() as u64);
    rep.bump("process_calls_replay", (orders.len() * ops.len()) as u64);
    rep.bump("queries", (replicas.len() * REPEAT * 3 * h.groups.len()) as u64);
    rep.bump("operations", ops.len() as u64);
    for op in ops {
        rep.bump(&format!("ops_{}", action_kind(&op.action)), 1);
    }
    let concurrent = h.concurrent_pairs();
    rep.bump("concurrent_pairs", concurrent as u64);
    if any_conditions {
        rep.bump("histories_with_conditions", 1);
    }
    let nested = ops.iter().any(|o| matches!(action_target(&o.action), Some(GroupMember::Group(_))));
    if nested {
        rep.bump("histories_with_nested_groups", 1);
    }

    let mut report = |rep: &mut Report, prefix: &str, diffs: &[Diff], ra: &Replica<C>, rb: &Replica<C>, a: &Answers, b: &Answers| {
        let (kind, cause) = classify(diffs, &ra.y, &rb.y, any_conditions);
        // One signature family for both clauses of the statement (across replicas / repeated
        // queries on one replica): the `what` line says which one was observed.
        let sig = format!("C31:diverge:{}:{cause}", kind.tag());
        rep.bump(if prefix == "diverge" { "observed_cross_replica_divergences" } else { "observed_repeated_query_instabilities" }, 1);
        let c = sig_counts.entry(sig.clone()).or_insert(0);
        *c += 1;
        let d0 = diffs.iter().find(|d| d.kind == kind).unwrap();
        let what = if prefix == "diverge" {
            format!(
                "two replicas that processed the same {} operations in different causal orders disagree ({}) on {}({}) for member {}{}",
                ops.len(), kind.tag(), d0.query, d0.group, if d0.member.0 { "group " } else { "" }, d0.member.1
            )
        } else {
            format!(
                "one replica changed its answer ({}) to {}({}) for member {}{} between repeated queries with no operation in between",
                kind.tag(), d0.query, d0.group, if d0.member.0 { "group " } else { "" }, d0.member.1
            )
        };
        let mut w = json!({
            "base": base, "ops": ops_json(),
            "order_a": ids(ops, &ra.order), "order_b": ids(ops, &rb.order),
            "answer_a": answers_json(a), "answer_b": answers_json(b),
            "differences": diffs.iter().map(|d| format!("{}({}) {}{}: {}", d.query, d.group, if d.member.0 {"G"} else {""}, d.member.1, d.kind.tag())).collect::<Vec<_>>(),
            "stored_entries_of_member": stored_entries(&ra.y, d0.group, member_of(d0)).into_iter()
                .map(|(mc, ac, l, c)| format!("member_counter={mc} access_counter={ac} level={l} conditions={c:?}")).collect::<Vec<_>>(),
            "note": if any_conditions { "answers depend on per-instance HashSet/HashMap iteration order; a replay reproduces the divergence with high probability, not deterministically" } else { "" },
        });
        if *c <= 2 && !cfg!(miri) {
            let ob = if prefix == "diverge" { Some(&rb.order[..]) } else { None };
            if let Some(len) = minimise(ops, &h.groups, &ra.order, ob) {
                w["minimal_prefix_len"] = json!(len);
                w["minimal_prefix_ops"] = json!(ops[..len].iter().map(op_json).collect::<Vec<_>>());
            }
        }
        rep.violation(&sig, what, w);
    };

    // Transitive queries that were not issued because the merged group graph has a nesting cycle.
    if let Some(r) = replicas.iter().find(|r| !r.answers[0].1.is_empty()) {
        rep.bump("histories_with_nesting_cycle_blowup", 1);
        let (g, log2) = r.answers[0].1.iter().max_by_key(|(_, l)| **l).map(|(g, l)| (*g, *l)).unwrap();
        // One real probe per process backs the prediction (see `model::probe_blowup`).
        let probe_returned = BLOWUP_PROBE_RETURNED.get().cloned().unwrap_or(false);
        rep.extra("nesting_cycle_probe_returned_within_2s", json!(probe_returned));
        if log2 >= 40 && !probe_returned {
            rep.violation(
                "C31:query-does-not-return:nested-group-cycle",
                format!(
                    "after concurrent Add operations (each valid at its own dependencies) the merged state nests groups in a cycle; members({g}) recurses without a visited set up to depth 1000: ~2^{log2} recursive visits, the query does not return"
                ),
                json!({"base": base, "ops": ops_json(), "order": ids(ops, &r.order), "group": g.to_string(), "predicted_visits_log2": log2,
                       "direct_memberships": answers_json(&r.answers[0])}),
            );
        } else {
            rep.bump("slow_transitive_queries_skipped_not_judged", 1);
        }
    }

    // (b) repeated queries on one replica.
    let mut unstable = 0u64;
    for r in &replicas {
        if let Some(other) = r.answers.iter().find(|a| **a != r.answers[0]) {
            unstable += 1;
            let diffs = diff_answers(&r.answers[0], other);
            report(rep, "unstable-query", &diffs, r, r, &r.answers[0], other);
            break; // one report per history
        }
    }
    // (a) across replicas (first answers).
    for r in replicas.iter().skip(1) {
        if r.answers[0] != replicas[0].answers[0] {
            let diffs = diff_answers(&replicas[0].answers[0], &r.answers[0]);
            report(rep, "diverge", &diffs, &replicas[0], r, &replicas[0].answers[0], &r.answers[0]);
            break; // one report per history
        }
    }
    rep.bump("replicas_with_unstable_answers", unstable);

    let nontrivial = concurrent > 0 && n_distinct_orders >= 2 && replicas.len() >= 2;
    if nontrivial {
        let key = hash_of(&serde_json::to_string(&ops_json()).unwrap());
        rep.case(Some((C::NAME, key)));
    } else {
        rep.case(None::<()>);
    }
    if rep.want_sample() && nontrivial {
        rep.sample(json!({
            "base": base, "operations": ops.len(), "concurrent_pairs": concurrent,
            "delivery_orders": n_distinct_orders, "nested_groups": nested, "conditions_used": any_conditions,
            "first_ops": ops.iter().take(6).map(op_json).collect::<Vec<_>>(),
            "final_answer": answers_json(&replicas[0].answers[0]),
        }));
    }
}

pub fn run(args: &Args) {
    quiet_panics();
    let mut rep = Report::new(
        args,
        "case = one seeded concurrent group history (generator adapted from fuzz/fuzz_targets/auth_group.rs: \
         3-7 actors with own replicas, 2-4 rounds of random partitions, nested sub-groups, add/remove/promote/demote/\
         self-remove valid in the author's view; even cases without conditions, odd cases with totally ordered u8 \
         conditions) replayed on 6-12 fresh replicas in random causal orders, each queried 8x for root_members/members/\
         groups of every group. Non-trivial = history has >=1 pair of concurrent operations and >=2 distinct delivery \
         orders; distinct = hash of the operation list.",
        if cfg!(miri) { 1 } else { 40 },
    );
    let n = if cfg!(miri) { 2 } else { args.n(1000, 30000) };
    let mode = args.param("cond").unwrap_or("both").to_string();
    let mut sig_counts = BTreeMap::new();
    let trace = std::env::var("VH_TRACE").is_ok();
    let first = args.param_u64("from", 0);
    for case in first..n {
        if trace {
            eprintln!("case {case} t={:.1}s", rep.elapsed().as_secs_f64());
        }
        let with = match mode.as_str() {
            "none" => false,
            "u8" => true,
            _ => case % 2 == 1,
        };
        if with {
            run_case::<Cond>(args, case, &mut rep, &mut sig_counts);
        } else {
            run_case::<()>(args, case, &mut rep, &mut sig_counts);
        }
        if rep.elapsed().as_secs() > 40 * 60 {
            rep.inconclusive(format!("time budget reached after {case} of {n} histories"));
            break;
        }
    }
    rep.extra("histories", json!(n));
    rep.finish(args);
}
