//! Harness over `p2panda-auth` (pure Rust; C32 also runs under Miri).
//!
//! C31 replicas converge / answers are stable, C32 merge laws, C33 only authorised actors change
//! membership.

mod c31;
mod c32;
mod c33;
mod demo;
mod generator;
mod model;

use vh_common::Args;

fn main() {
    let args = Args::parse();
    match args.prop.as_str() {
        "C31" => c31::run(&args),
        "C32" => c32::run(&args),
        "C33" => c33::run(&args),
        "DEMO" => demo::run(),
        other => panic!("vh-auth does not serve {other}"),
    }
}
