//! C32 — `state::merge` is commutative, associative and idempotent.
//!
//! The real `merge` (hook `p2panda_auth::group::verif::merge`) is run on arbitrary membership
//! states built through the crate's `serde` feature (fields are private) and on states derived by
//! the real `create/add/remove/promote/demote`. Oracle: equality of the normalised results
//! (member id → member_counter, access_counter, level, conditions), read back through serde.

use std::collections::BTreeMap;

use p2panda_auth::group::GroupMembersState;
use p2panda_auth::group::verif as st;
use serde::Serialize;
use vh_common::{Args, Report, Rng, json, quiet_panics};

use crate::model::*;

type GS<C> = GroupMembersState<u8, C>;
/// Normal form of a state.
type NF<C> = Vec<(u8, MirrorMember<C>)>;

#[derive(Serialize)]
#[serde(bound = "C: Serialize + serde::de::DeserializeOwned")]
struct MirrorState<C> {
    members: BTreeMap<u8, MirrorMember<C>>,
}

fn build<C: Cx>(nf: &NF<C>) -> GS<C> {
    let m = MirrorState { members: nf.iter().cloned().collect() };
    let mut buf = Vec::new();
    ciborium::into_writer(&m, &mut buf).expect("serialise mirror");
    ciborium::from_reader(&buf[..]).expect("deserialise GroupMembersState")
}

fn nf<C: Cx>(s: &GS<C>) -> NF<C> {
    member_entries::<u8, C>(s)
}

fn show<C: Cx>(n: &NF<C>) -> String {
    n.iter()
        .map(|(id, m)| {
            format!(
                "{id}:(mc={},ac={},{}{})",
                m.member_counter,
                m.access_counter,
                ["pull", "read", "write", "manage"][level_u8(&m.access.level) as usize],
                match C::show(&m.access.conditions) {
                    Some(c) => format!("[{c}]"),
                    None => String::new(),
                }
            )
        })
        .collect::<Vec<_>>()
        .join(" ")
}

fn cond_values<C: Cx>(with: bool) -> Vec<Option<C>> {
    // `Cx::generate` is random; enumerate through serde instead: None, Some(0), Some(1).
    if !with {
        return vec![None];
    }
    let mut v = vec![None];
    for x in 0..2u8 {
        if let Ok(c) = serde_json::from_value::<C>(json!(x)) {
            v.push(Some(c));
        }
    }
    v
}

/// All single-member entries over member_counter 1..=3, access_counter 0..=2, 4 levels, conditions.
fn member_domain<C: Cx>(with: bool) -> Vec<MirrorMember<C>> {
    let mut out = Vec::new();
    for mc in 1..=3usize {
        for ac in 0..=2usize {
            for l in 0..4u8 {
                for c in cond_values::<C>(with) {
                    out.push(MirrorMember {
                        member_counter: mc,
                        access: MirrorAccess { conditions: c, level: level_of(l) },
                        access_counter: ac,
                    });
                }
            }
        }
    }
    out
}

/// States over member ids `0..members`: every id absent or any entry of the member domain.
fn state_space<C: Cx>(members: u8, with: bool) -> Vec<NF<C>> {
    let dom = member_domain::<C>(with);
    let mut out: Vec<NF<C>> = vec![vec![]];
    for id in 0..members {
        let mut next = Vec::new();
        for s in &out {
            next.push(s.clone());
            for m in &dom {
                let mut t = s.clone();
                t.push((id, m.clone()));
                next.push(t);
            }
        }
        out = next;
    }
    out
}

fn has_conditions<C: Cx>(xs: &[&NF<C>]) -> bool {
    xs.iter().any(|n| n.iter().any(|(_, m)| m.access.conditions.is_some()))
}

/// Shape of the inputs at the first member id on which two results differ.
fn shape<C: Cx>(inputs: &[&NF<C>], r1: &NF<C>, r2: &NF<C>) -> &'static str {
    if !has_conditions(inputs) {
        return "without-conditions";
    }
    let m1: BTreeMap<u8, &MirrorMember<C>> = r1.iter().map(|(i, m)| (*i, m)).collect();
    let m2: BTreeMap<u8, &MirrorMember<C>> = r2.iter().map(|(i, m)| (*i, m)).collect();
    let ids: std::collections::BTreeSet<u8> = m1.keys().chain(m2.keys()).cloned().collect();
    for id in ids {
        if m1.get(&id) == m2.get(&id) {
            continue;
        }
        // Entries of this member in the inputs with the maximal (member_counter, access_counter).
        let entries: Vec<&MirrorMember<C>> =
            inputs.iter().filter_map(|n| n.iter().find(|(i, _)| *i == id).map(|(_, m)| m)).collect();
        let top = entries.iter().map(|m| (m.member_counter, m.access_counter)).max();
        let tied: Vec<&&MirrorMember<C>> =
            entries.iter().filter(|m| Some((m.member_counter, m.access_counter)) == top).collect();
        let differing = tied.iter().any(|a| tied.iter().any(|b| a.access != b.access));
        let with_cond = tied.iter().any(|m| m.access.conditions.is_some());
        let counters_agree = match (m1.get(&id), m2.get(&id)) {
            (Some(a), Some(b)) => (a.member_counter, a.access_counter) == (b.member_counter, b.access_counter),
            _ => false,
        };
        if tied.len() >= 2 && differing && with_cond && counters_agree {
            let levels_differ = match (m1.get(&id), m2.get(&id)) {
                (Some(a), Some(b)) => a.access.level != b.access.level,
                _ => true,
            };
            return if levels_differ {
                "equal-counters-differing-conditions:level-differs"
            } else {
                "equal-counters-differing-conditions"
            };
        }
        return "other";
    }
    "other"
}

struct Ctx<'a> {
    rep: &'a mut Report,
    seed: u64,
    space: String,
    merges: u64,
    comm: u64,
    idem: u64,
    assoc: u64,
}

impl<'a> Drop for Ctx<'a> {
    fn drop(&mut self) {
        self.rep.bump("merge_calls", self.merges);
        self.rep.bump("commutativity_checks", self.comm);
        self.rep.bump("idempotence_checks", self.idem);
        self.rep.bump("associativity_checks", self.assoc);
    }
}

fn ctx<'a>(rep: &'a mut Report, seed: u64, space: String) -> Ctx<'a> {
    Ctx { rep, seed, space, merges: 0, comm: 0, idem: 0, assoc: 0 }
}

impl<'a> Ctx<'a> {
    fn commutative<C: Cx>(&mut self, a: &NF<C>, b: &NF<C>, ga: &GS<C>, gb: &GS<C>) {
        let r12 = nf(&st::merge(ga.clone(), gb.clone()));
        let r21 = nf(&st::merge(gb.clone(), ga.clone()));
        self.merges += 2;
        self.comm += 1;
        if r12 != r21 {
            let sh = shape(&[a, b], &r12, &r21);
            self.rep.violation(
                &format!("C32:non-commutative:{sh}"),
                format!("merge(a, b) = {{{}}} but merge(b, a) = {{{}}} for a = {{{}}}, b = {{{}}}", show(&r12), show(&r21), show(a), show(b)),
                json!({"seed": self.seed, "space": self.space, "conditions": C::NAME, "a": show(a), "b": show(b), "merge_a_b": show(&r12), "merge_b_a": show(&r21)}),
            );
        }
    }

    fn idempotent<C: Cx>(&mut self, a: &NF<C>, ga: &GS<C>) {
        let r = nf(&st::merge(ga.clone(), ga.clone()));
        self.merges += 1;
        self.idem += 1;
        if r != *a {
            let sh = if has_conditions(&[a]) { "with-conditions" } else { "without-conditions" };
            self.rep.violation(
                &format!("C32:non-idempotent:{sh}"),
                format!("merge(a, a) = {{{}}} for a = {{{}}}", show(&r), show(a)),
                json!({"seed": self.seed, "space": self.space, "conditions": C::NAME, "a": show(a), "merge_a_a": show(&r)}),
            );
        }
    }

    fn associative<C: Cx>(&mut self, a: &NF<C>, b: &NF<C>, c: &NF<C>, ga: &GS<C>, gb: &GS<C>, gc: &GS<C>) {
        let left = nf(&st::merge(st::merge(ga.clone(), gb.clone()), gc.clone()));
        let right = nf(&st::merge(ga.clone(), st::merge(gb.clone(), gc.clone())));
        self.merges += 4;
        self.assoc += 1;
        if left != right {
            let sh = shape(&[a, b, c], &left, &right);
            self.rep.violation(
                &format!("C32:non-associative:{sh}"),
                format!(
                    "merge(merge(a, b), c) = {{{}}} but merge(a, merge(b, c)) = {{{}}} for a = {{{}}}, b = {{{}}}, c = {{{}}}",
                    show(&left), show(&right), show(a), show(b), show(c)
                ),
                json!({"seed": self.seed, "space": self.space, "conditions": C::NAME, "a": show(a), "b": show(b), "c": show(c), "left": show(&left), "right": show(&right)}),
            );
        }
    }
}

/// Laws over an enumerated state space; `pairs`/`triples` = None → all, Some(n) → n random ones.
fn laws_over_space<C: Cx>(
    rep: &mut Report,
    rng: &mut Rng,
    seed: u64,
    members: u8,
    with: bool,
    pairs: Option<u64>,
    triples: Option<u64>,
) {
    let space = state_space::<C>(members, with);
    let built: Vec<GS<C>> = space.iter().map(build).collect();
    let name = format!("members<={members},conditions={}", if with { "None|Some(0)|Some(1)" } else { "none" });
    // The serde construction must be faithful, otherwise nothing below means anything.
    for (n, g) in space.iter().zip(built.iter()).take(200) {
        assert_eq!(*n, nf(g), "serde round trip of a hand-built state");
    }
    let n = space.len();
    let mut ctx = ctx(&mut *rep, seed, name.clone());
    for i in 0..n {
        ctx.idempotent(&space[i], &built[i]);
    }
    match pairs {
        None => {
            for i in 0..n {
                for j in (i + 1)..n {
                    ctx.commutative(&space[i], &space[j], &built[i], &built[j]);
                }
            }
        }
        Some(k) => {
            for _ in 0..k {
                let (i, j) = (rng.usize_below(n), rng.usize_below(n));
                ctx.commutative(&space[i], &space[j], &built[i], &built[j]);
            }
        }
    }
    match triples {
        None => {
            for i in 0..n {
                for j in 0..n {
                    for k in 0..n {
                        ctx.associative(&space[i], &space[j], &space[k], &built[i], &built[j], &built[k]);
                    }
                }
            }
        }
        Some(t) => {
            for _ in 0..t {
                let (i, j, k) = (rng.usize_below(n), rng.usize_below(n), rng.usize_below(n));
                ctx.associative(&space[i], &space[j], &space[k], &built[i], &built[j], &built[k]);
            }
        }
    }
    drop(ctx);
    let complete = format!(
        "{name}: {n} states; idempotence all; pairs {}; triples {}",
        pairs.map(|k| format!("{k} random")).unwrap_or_else(|| "ALL".into()),
        triples.map(|k| format!("{k} random")).unwrap_or_else(|| "ALL".into())
    );
    let prev = rep.extra.get("spaces").cloned().unwrap_or(json!([]));
    let mut v = prev.as_array().cloned().unwrap_or_default();
    v.push(json!(complete));
    rep.extra("spaces", json!(v));
    for s in &space {
        rep.case(Some((C::NAME, with, members, show(s))));
    }
}

/// States derived by the real state functions from a common ancestor, then merged.
fn laws_over_derived<C: Cx>(rep: &mut Report, rng: &mut Rng, seed: u64, cases: u64) {
    for case in 0..cases {
        let n0 = rng.range(1, 3) as u8;
        let mut init: Vec<(u8, p2panda_auth::Access<C>)> = vec![(0, access(3, None))];
        for id in 1..n0 {
            init.push((id, access(rng.below(4) as u8, C::generate(rng))));
        }
        let base: GS<C> = st::create(&init);
        let branches = rng.range(2, 3) as usize;
        let mut states: Vec<GS<C>> = Vec::new();
        let mut applied = 0u64;
        for _ in 0..branches {
            let mut s = base.clone();
            for _ in 0..rng.range(0, 4) {
                let actor = rng.below(4) as u8;
                let target = rng.below(4) as u8;
                let a = access::<C>(rng.below(4) as u8, C::generate(rng));
                let r = match rng.below(4) {
                    0 => st::add(s.clone(), actor, target, a),
                    1 => st::remove(s.clone(), actor, target),
                    2 => st::promote(s.clone(), actor, target, a),
                    _ => st::demote(s.clone(), actor, target, a),
                };
                if let Ok(n) = r {
                    s = n;
                    applied += 1;
                }
            }
            states.push(s);
        }
        let nfs: Vec<NF<C>> = states.iter().map(nf).collect();
        let mut ctx = ctx(&mut *rep, seed, format!("derived,case={case}"));
        ctx.idempotent(&nfs[0], &states[0]);
        ctx.commutative(&nfs[0], &nfs[1], &states[0], &states[1]);
        if states.len() == 3 {
            ctx.associative(&nfs[0], &nfs[1], &nfs[2], &states[0], &states[1], &states[2]);
            ctx.commutative(&nfs[1], &nfs[2], &states[1], &states[2]);
        }
        drop(ctx);
        rep.bump("derived_actions_applied", applied);
        if applied > 0 && nfs[0] != nfs[1] {
            rep.case(Some(("derived", C::NAME, nfs.iter().map(show).collect::<Vec<_>>())));
        } else {
            rep.case(None::<()>);
        }
        if rep.want_sample() && applied >= 3 && nfs[0] != nfs[1] {
            let m = nf(&st::merge(states[0].clone(), states[1].clone()));
            rep.sample(json!({"kind": "derived", "conditions": C::NAME, "a": show(&nfs[0]), "b": show(&nfs[1]), "merge_a_b": show(&m)}));
        }
    }
}

pub fn run(args: &Args) {
    quiet_panics();
    let mut rep = Report::new(
        args,
        "case = one membership state (member ids <= 2, member_counter 1..3, access_counter 0..2, 4 levels; conditions \
         none, or None|Some(0)|Some(1) of a totally ordered u8 type) built through serde, or a tuple of states derived by \
         the real create/add/remove/promote/demote from a common ancestor; checks = idempotence on every state, \
         commutativity on pairs, associativity on triples of the real state::merge (see `spaces` for which sub-spaces \
         were enumerated completely). Non-trivial = every enumerated state; derived tuples with >=1 applied action and \
         differing branches. Distinct = the state's normal form.",
        if cfg!(miri) { 30 } else { 1000 },
    );
    let mut rng = Rng::fork(args.seed, 0);
    let thorough = args.tier == vh_common::Tier::Thorough;
    let seed = args.seed;
    if cfg!(miri) {
        // Reduced workload under the interpreter: the single-member condition-free space completely
        // for commutativity and idempotence, samples elsewhere.
        laws_over_space::<()>(&mut rep, &mut rng, seed, 1, false, None, Some(300));
        laws_over_space::<Cond>(&mut rep, &mut rng, seed, 1, true, Some(400), Some(150));
        laws_over_derived::<()>(&mut rep, &mut rng, seed, 40);
        laws_over_derived::<Cond>(&mut rep, &mut rng, seed, 40);
    } else {
        // Single member: complete (pairs and triples), with and without conditions.
        laws_over_space::<()>(&mut rep, &mut rng, seed, 1, false, None, None);
        laws_over_space::<Cond>(
            &mut rep, &mut rng, seed, 1, true, None,
            if thorough { None } else { Some(args.n(150_000, 0)) },
        );
        // Two members.
        laws_over_space::<()>(
            &mut rep, &mut rng, seed, 2, false,
            if thorough { None } else { Some(args.n(150_000, 0)) },
            Some(args.n(60_000, 1_500_000)),
        );
        laws_over_space::<Cond>(
            &mut rep, &mut rng, seed, 2, true,
            Some(args.n(150_000, 3_000_000)),
            Some(args.n(60_000, 1_500_000)),
        );
        laws_over_derived::<()>(&mut rep, &mut rng, seed, args.n(20_000, 500_000));
        laws_over_derived::<Cond>(&mut rep, &mut rng, seed, args.n(20_000, 500_000));
    }
    rep.finish(args);
}
